"""C04 — Relational schema invariants cannot be bypassed at construction."""
import copy
import datetime
import itertools
import json
import os
import uuid as _uuid
from fractions import Fraction

from ..core import Op
from .. import history
from ..rat import rat
from .. import leanio
from ..symtrace import Sym

PROPERTY = "C04"
LEAN_MODULE = "Proofs.C04"
_T = "SE.Proofs.C04."
THEOREMS = [_T + n for n in [
    "C04_check_matches_iff", "C04_clip_eval_iff", "C04_clip_eval_exactly_once", "C04_unit_iff", "C04_unit_table",
    "C04_match_iff", "C04_match_null_null_rejected", "C04_project_iff", "C04_clip_iff", "C04_arrangement_iff",
    "C04_empty_clip", "C04_all_unmatched_accepted", "C04_perfect_matching_accepted",
    "C04_duplicate_target_rejected", "C04_duplicate_source_rejected", "C04_foreign_rejected",
    "C04_missing_rejected", "C04_different_clips_rejected", "C04_order_irrelevant",
    "C04_project_outsider_rejected", "C04_project_no_annotations_accepted",
    "C04_clip_eval_iff_subsets", "C04_unit_float_iff", "C04_unit_float_fin", "C04_clip_float_fin", "C04_clip_float_iff",
    "C04_clip_float_nan", "C04_aoef_loaded_evaluation", "C04_aoef_loaded_project", "C04_aoef_numbers_agree", "C04_unit_table_float",
    "C04_roles_separate", "C04_kinds_independent", "C04_shared_identifier", "C04_project_fast",
    "C04_history_eval_no_effect", "C04_history_verdict", "C04_history_constructions_do_not_interfere",
    "C04_history_set_ids", "C04_history_copy"]]
LEVEL_TEXT = ("Lean theorems over a model of the validators written as the code decides (list length against set length, set "
              "equality, loop with early raise, ge/le), for identifiers of any type with decidable equality: a clip evaluation "
              "is accepted iff annotations and predictions share the clip, every annotated and every predicted sound event is "
              "the target / source of exactly one match and no match mentions a foreign one; a match iff it has a side and its "
              "numbers are in [0,1]; a project iff every annotated clip has a task; a clip iff start <= end; binary64 nan / "
              "infinities never pass ge=0, le=1 and a clip is refused exactly when start > end in IEEE order; corollaries for "
              "empty clips, all-unmatched, perfect, duplicate, foreign, missing and cross-clip patterns and order independence; "
              "whatever an AOEF document contains, a collection that the loader model (C01's loadChecked) returns satisfies the "
              "relational conditions, and the numbers the AOEF adapters hand to the constructors are decided as by the "
              "constructors; the target / source roles never mix (the decision is a conjunction of a target-side and a "
              "source-side decision and is invariant under any injective renaming of either side, so a prediction carrying the "
              "uuid of an annotation changes nothing); in a session on live objects that are appended to, assigned, copied "
              "(store semantics runHistory) every construction is decided on what the objects carry at that moment, "
              "constructions do not interfere and leave the objects unchanged. Tied to the code by: re-extracted ge/gt/le/lt metadata of every score-like field proved to accept "
              "exactly [0,1] (over the rationals, or on binary64 values); symbolic traces, proved equal to the model for all "
              "inputs, of the clip-time validator, of the ClipEvaluation and AnnotationProject validators on symbolic "
              "identifiers for every small shape, of the Match validator on every side pattern and of the AOEF adapters' "
              "number hand-over; exhaustive small arrangements realised through constructor, model_validate, "
              "model_validate_json and soundevent.io.load of edited AOEF documents of every collection type (accept/reject "
              "equal on every path, accepted object equal to the input), also with identifiers shared across kinds, "
              "attribute objects, numpy / Decimal / Fraction / bool numbers, tuples, long lists, tolerance-sized offsets; "
              "sessions on reused objects compared step by step with the store model.")
LEVEL_NOTE = ("Holds on /repo with fixes/C04-1 applied (Clip._validate_times validated raw input: numeric strings bypassed "
              "it). Trusted: Lean kernel; pydantic-core's typed parsing and its application of ge/le metadata and validators "
              "(observed on four construction paths, not modelled from source); the symbolic tracer; C01's correspondence for "
              "the loader model the AOEF theorems speak about. A clip with a nan time is accepted by the code (no comparison "
              "with nan is true); modelled, not judged. Assignment and model_copy(update=...) are modelled as changes of the "
              "objects a later construction is built from (sessions), not as constructions: an object changed that way is never "
              "itself validated (pydantic) and is not judged; model_construct is unmodelled; whole AOEF documents with numbers "
              "are tied per adapter. Symbolic ties of the relational validators cover the listed small shapes; larger "
              "arrangements (up to 1025 / 2049 sound events) and sessions are tied by generator-bounded correspondence. "
              "Match.model_validate(obj, from_attributes=True) raises AttributeError (its before-validator expects a mapping): "
              "nothing is constructed, attribute objects are exercised on every other class.")
TECHNIQUE = ("Lean 4 proof over model (incl. a store semantics of sessions on reused objects); field-constraint table regenerated by introspection and proved to mean [0,1]; symbolic "
             "traces of the clip-time, clip-evaluation, project and match validators and of the AOEF adapters proved equal to "
             "the model; exhaustive small-scope correspondence through four construction paths and every AOEF collection type")
RULE = ("exhaustive arrangements of <= 3+3 sound events and <= 4 matches (missing / duplicated / foreign / one-sided / "
        "null-null), clip pairings, identity decoupling (shared sound event, same uuid with other content), task/annotation "
        "memberships, start/end grids, scores around 0 and 1 incl. denormals, nan and infinities, each through constructor, "
        "model_validate, model_validate_json, AOEF load; identifiers shared between annotated and predicted sound events "
        "(exhaustive over one universe); pairwise products of path x null style x aliasing x shared match object x container "
        "form (tuple / nested / reversed keys) x shared identifiers x clip pairing x positional io.load x optional numbers x "
        "optional fields x mapping validated twice; 16..1025 (thorough 2049) sound events / tasks; start/end and scores one ulp "
        "and 2^-52..10^-3 from every comparison at magnitudes 1e-9..1e15, exact ties, every 1/100 and 1/64; numbers as numpy "
        "scalars / bool / Decimal / Fraction / bytes; attribute objects (namespace, slots, namedtuple, dataclass, class-level, "
        "property) through from_attributes; sessions: live ClipAnnotation / ClipPrediction / Match / task objects used, changed "
        "(append, slice, assignment, model_copy shallow / deep, copy, deepcopy, pickle, dump-and-validate) and used again, "
        "arguments snapshotted around every construction, results poisoned and read again after later constructions; x / "
        "neighbour / x sequences of every operation on the same uuids; non-trivial = the construction was accepted, or was "
        "rejected although every nested object was valid; distinct = distinct (operation, input incl. path)")
TRUSTED = ["pydantic-core: typed parsing (lax coercion of int / numeric strings to float), application of annotated ge/le "
           "constraints and of model validators", "json (repr round trip of binary64)",
           "soundevent.io.save used once per collection type to produce the valid AOEF documents that are then edited"]
ASSUMPTIONS = ["uuid5 of distinct abstract identifiers are distinct", "the edited AOEF documents only reference objects "
               "present in their tables (dangling references belong to C02; for the loader model they are covered by "
               "C04_aoef_loaded_evaluation / C04_aoef_loaded_project)"]
NOT_COMPARED = ["which validator rejects and the error message / class (only accept / reject)",
                "the decision on a clip with a nan time",
                "objects produced by assignment / model_copy(update=...) / model_construct themselves (pydantic validates none "
                "of them); what is compared is every construction that is later built from such objects",
                "Match.model_validate(obj, from_attributes=True) (AttributeError today, nothing constructed)",
                "whether a validator changes the mapping it was given, beyond: validating the same mapping twice decides the same"]

NS = _uuid.UUID(int=0xC04)
DT = datetime.datetime(2020, 1, 2, 3, 4, 5)
PATHS = ["ctor", "dict", "json", "aoef"]


def U(s):
    return str(_uuid.uuid5(NS, s))


def _num(x, form="float"):
    """rational string -> the Python value handed to the code"""
    if x is None:
        return None
    if x in ("nan", "inf", "-inf"):
        return repr(float(x)) if form == "str" else float(x)
    f = Fraction(x)
    if form == "neg0":
        return -0.0
    v = float(f)
    assert Fraction(v) == f, "not a binary64 value"
    if form == "int":
        assert f.denominator == 1
        return int(f)
    if form == "str":
        return repr(v)
    if form in NUMPY_FORMS or form in ("bool", "decimal", "fraction", "bytes"):
        return _num_unusual(f, v, form)
    return v


NUMPY_FORMS = ("np64", "np32", "np16", "npint", "npint32", "npbool", "np0d")
UNUSUAL_FORMS = NUMPY_FORMS + ("bool", "decimal", "fraction", "bytes")


def _num_unusual(f, v, form):
    """the same number as another Python type that pydantic's lax float parsing accepts today (numpy scalars,
    bool, Decimal, Fraction, bytes): what is decided must be the value, not the type"""
    import numpy as np
    if form == "np64":
        return np.float64(v)
    if form in ("np32", "np16"):
        w = (np.float32 if form == "np32" else np.float16)(v)
        assert Fraction(float(w)) == f, "not representable"
        return w
    if form in ("npint", "npint32"):
        assert f.denominator == 1
        return (np.int64 if form == "npint" else np.int32)(int(f))
    if form == "npbool":
        assert f in (0, 1)
        return np.bool_(bool(f))
    if form == "np0d":
        return np.array(v)
    if form == "bool":
        assert f in (0, 1)
        return bool(f)
    if form == "decimal":
        import decimal
        return decimal.Decimal(v)          # exact
    if form == "fraction":
        return f
    if form == "bytes":
        return repr(v).encode()
    raise KeyError(form)


def form_ok(x, form):
    """can the rational `x` be written in that form without changing its value?"""
    try:
        _num(x, form)
        return True
    except (AssertionError, OverflowError, ValueError):
        return False


def _frat(v):
    """a float of the constructed object -> "nan" | "inf" | "-inf" | exact rational string"""
    if v is None:
        return None
    v = float(v)
    if v != v:
        return "nan"
    if v in (float("inf"), float("-inf")):
        return "inf" if v > 0 else "-inf"
    return rat(v)


# ------------------------------------------------------------------ building blocks, as dicts and as objects
REC_D = {"uuid": U("rec"), "path": "rec.wav", "duration": 10.0, "channels": 1, "samplerate": 8000}
TERM_D = {"label": "species", "name": "dwc:species", "definition": "d"}
TAG_D = {"term": TERM_D, "value": "x"}


FEAT_D = {"term": TERM_D, "value": 1.5}        # a feature value is not a score: no range


def clip_d(c, start=0.0, end=5.0):
    return {"uuid": U(c), "recording": REC_D, "start_time": start, "end_time": end}


def se_uuid(e, alias=None):
    """the uuid of the sound event an annotation / prediction wraps: its own, or (alias "shared_se") one shared by all of
    them — the validators identify annotated / predicted sound events by the uuid of the annotation / prediction"""
    return U("se:shared") if alias == "shared_se" else U("se:" + e)


def se_d(e, alias=None):
    return {"uuid": se_uuid(e, alias), "geometry": {"type": "TimeInterval", "coordinates": [1.0, 2.0]}, "recording": REC_D}


DT2 = datetime.datetime(2021, 6, 7, 8, 9, 10)


def ann_d(a, alias=None, variant=False):
    """variant: same uuid, different content (alias "match_content": the copy inside a match)"""
    return {"uuid": U(a), "sound_event": se_d(a, alias), "created_on": (DT2 if variant else DT).isoformat()}


def ptag_d(score=0.5):
    return {"tag": TAG_D, "score": score}


def pred_d(p, score=0.5, tags=None, alias=None, variant=False):
    return {"uuid": U(p), "sound_event": se_d(p, alias), "score": 0.25 if variant else score,
            "tags": [ptag_d()] if tags is None else tags}


def seqpred_d(score=0.5, tags=None):
    return {"uuid": U("sq0"), "sequence": {"uuid": U("seq0"), "sound_events": [se_d("p0")]}, "score": score,
            "tags": [ptag_d()] if tags is None else tags}


_OBJ = {}


def _cached(key, fn):
    if key not in _OBJ:
        _OBJ[key] = fn()
    return _OBJ[key]


def REC():
    from soundevent import data
    return _cached("rec", lambda: data.Recording(**REC_D))


def CLIP(c, role="", end=5.0):
    from soundevent import data
    return _cached(("clip", c, role, end), lambda: data.Clip(uuid=U(c), recording=REC(), start_time=0.0, end_time=end))


def SE(e, alias=None):
    from soundevent import data
    return data.SoundEvent(uuid=se_uuid(e, alias), geometry=data.TimeInterval(coordinates=[1.0, 2.0]), recording=REC())


def TAG():
    from soundevent import data
    return _cached("tag", lambda: data.Tag(term=data.Term(**TERM_D), value="x"))


def FEAT():
    from soundevent import data
    return data.Feature(term=data.Term(**TERM_D), value=1.5)


def PTAG(score=0.5):
    from soundevent import data
    return data.PredictedTag(tag=TAG(), score=score)


def ANN(a, role="", alias=None, variant=False):
    """role separates the instance listed in the clip annotation from the one inside a match"""
    from soundevent import data
    return _cached(("ann", a, role, alias, variant),
                   lambda: data.SoundEventAnnotation(uuid=U(a), sound_event=SE(a, alias), created_on=DT2 if variant else DT))


def PRED(p, role="", alias=None, variant=False):
    from soundevent import data
    return _cached(("pred", p, role, alias, variant),
                   lambda: data.SoundEventPrediction(uuid=U(p), sound_event=SE(p, alias), score=0.25 if variant else 0.5,
                                                     tags=[PTAG()]))


def SEQPRED(score=0.5, tags=None):
    from soundevent import data
    return data.SequencePrediction(uuid=U("sq0"), sequence=data.Sequence(uuid=U("seq0"), sound_events=[SE("p0")]),
                                   score=score, tags=[PTAG()] if tags is None else tags)


# ------------------------------------------------------------------ AOEF templates (valid saved documents, edited per case)
_TPL = {}


def _tmp_path(name):
    return os.path.join(leanio.run_dir(), name)


def _evaluation_template():
    """a valid evaluation holding every object a plain arrangement may mention, saved with soundevent.io.save (objects a
    case mentions beyond these — long lists, a prediction that carries the uuid of an annotation — are added to the
    tables by `_aoef_ensure`: the annotation and prediction tables of an AOEF document are separate)"""
    if "evaluation" in _TPL:
        return _TPL["evaluation"]
    from soundevent import data, io
    A = [ANN(f"a{i}") for i in range(4)]
    P = [PRED(f"p{i}") for i in range(4)]
    ca0 = data.ClipAnnotation(uuid=U("CA0"), clip=CLIP("c0"), sound_events=A, created_on=DT)
    cp0 = data.ClipPrediction(uuid=U("CP0"), clip=CLIP("c0"), sound_events=P, sequences=[SEQPRED()], tags=[PTAG()])
    ms = [data.Match(uuid=U(f"t{i}"), source=P[i], target=A[i], affinity=0.5, score=0.5) for i in range(4)]
    ce0 = data.ClipEvaluation(uuid=U("CE0"), annotations=ca0, predictions=cp0, matches=ms, score=0.5)
    ca1 = data.ClipAnnotation(uuid=U("CA1"), clip=CLIP("c1"), sound_events=[ANN("af")], created_on=DT)
    cp1 = data.ClipPrediction(uuid=U("CP1"), clip=CLIP("c1"), sound_events=[PRED("pf")])
    ce1 = data.ClipEvaluation(uuid=U("CE1"), annotations=ca1, predictions=cp1,
                              matches=[data.Match(uuid=U("tf"), source=PRED("pf"), target=ANN("af"), affinity=0.5)])
    ev = data.Evaluation(uuid=U("EV"), created_on=DT, evaluation_task="t", clip_evaluations=[ce0, ce1], score=0.5)
    path = _tmp_path("c04_eval_template.json")
    io.save(ev, path)
    doc = json.load(open(path))
    os.remove(path)
    _TPL["evaluation"] = json.dumps(doc)
    return _TPL["evaluation"]


def _aoef_ensure(D, ann_names, pred_names):
    """sound events / annotations / predictions that the template does not hold (long lists): entries cloned from
    those of a0 / p0 with their own uuids"""
    have_a = {o["uuid"] for o in D["sound_event_annotations"]}
    have_p = {o["uuid"] for o in D["sound_event_predictions"]}
    have_s = {o["uuid"] for o in D["sound_events"]}
    a0 = _by_uuid(D["sound_event_annotations"], U("a0"))
    p0 = _by_uuid(D["sound_event_predictions"], U("p0"))
    s0 = _by_uuid(D["sound_events"], a0["sound_event"])
    for names, have, proto, table in ((ann_names, have_a, a0, "sound_event_annotations"),
                                      (pred_names, have_p, p0, "sound_event_predictions")):
        for n in names:
            if U(n) in have:
                continue
            have.add(U(n))
            su = se_uuid(n)
            if su not in have_s:
                have_s.add(su)
                D["sound_events"].append({**s0, "uuid": su})
            D[table].append({**proto, "uuid": U(n), "sound_event": su})


def _project_template():
    if "project" in _TPL:
        return _TPL["project"]
    from soundevent import data, io
    clips = [CLIP(f"c{i}") for i in range(3)]
    proj = data.AnnotationProject(
        uuid=U("PROJ"), name="p", created_on=DT,
        tasks=[data.AnnotationTask(uuid=U(f"task{i}"), clip=c, created_on=DT) for i, c in enumerate(clips)],
        clip_annotations=[data.ClipAnnotation(uuid=U(f"pca{i}"), clip=c, created_on=DT) for i, c in enumerate(clips)])
    path = _tmp_path("c04_project_template.json")
    io.save(proj, path)
    doc = json.load(open(path))
    os.remove(path)
    _TPL["project"] = json.dumps(doc)
    return _TPL["project"]


AOEF_KINDS = {   # collection type -> fields of `unit` that exist in its documents / whether it holds clip annotations
    "prediction_set": "pred", "model_run": "pred", "annotation_set": "ann", "evaluation_set": "ann",
    "annotation_project": "ann"}
PRED_UNIT_FIELDS = ["SoundEventPrediction.score", "SequencePrediction.score", "PredictedTag.score", "PredictedTag.score@clip",
                    "PredictedTag.score@sound_event", "PredictedTag.score@sequence"]


def _collection_template(kind):
    """the other collection types `soundevent.io.load` reads: the same objects (CP0 / CA0 of clip c0) saved as a
    prediction set, model run, annotation set, evaluation set, annotation project"""
    if kind == "evaluation":
        return _evaluation_template()
    if kind in _TPL:
        return _TPL[kind]
    from soundevent import data, io
    if AOEF_KINDS[kind] == "pred":
        cp0 = data.ClipPrediction(uuid=U("CP0"), clip=CLIP("c0"), sound_events=[PRED(f"p{i}") for i in range(2)],
                                  sequences=[SEQPRED()], tags=[PTAG()])
        kw = {"uuid": U("COLL"), "clip_predictions": [cp0], "created_on": DT}
        obj = data.PredictionSet(**kw) if kind == "prediction_set" else data.ModelRun(name="m", **kw)
    else:
        ca0 = data.ClipAnnotation(uuid=U("CA0"), clip=CLIP("c0"), sound_events=[ANN("a0")], created_on=DT)
        kw = {"uuid": U("COLL"), "clip_annotations": [ca0], "created_on": DT}
        if kind == "annotation_set":
            obj = data.AnnotationSet(**kw)
        elif kind == "evaluation_set":
            obj = data.EvaluationSet(name="e", **kw)
        else:
            obj = data.AnnotationProject(name="p", tasks=[data.AnnotationTask(uuid=U("task0"), clip=CLIP("c0"), created_on=DT)], **kw)
    path = _tmp_path(f"c04_{kind}_template.json")
    io.save(obj, path)
    doc = json.load(open(path))
    os.remove(path)
    _TPL[kind] = json.dumps(doc)
    return _TPL[kind]


def _aoef_kind(path):
    return path.split(":", 1)[1] if ":" in path else "evaluation"


def _by_uuid(lst, u):
    for x in lst:
        if x.get("uuid") == u:
            return x
    raise LookupError("template has no object " + u)


_LOADS = [0]


def _load_doc(doc, type_, positional=False):
    """`positional`: the optional parameters in the documented order load(path, audio_dir, format, type)"""
    from soundevent import io
    _LOADS[0] += 1
    path = _tmp_path("c04_case.json")
    with open(path, "w") as f:
        json.dump(doc, f)
    try:
        if positional:
            return io.load(path, None, "aoef", type_)
        return io.load(path, type=type_)
    finally:
        os.remove(path)


class Rejected(Exception):
    pass


def _attempt(fn):
    """run one construction: True/object on success, raises Rejected on a validation error"""
    from pydantic import ValidationError
    try:
        return fn()
    except (ValidationError, ValueError) as e:
        raise Rejected(type(e).__name__) from None


# ------------------------------------------------------------------ clip evaluations
def _match_keys(inp):
    """index of the Match object / uuid each list position uses: with "share", equal matches are one object
    listed repeatedly (the same uuid twice in an AOEF document), otherwise every position is its own Match"""
    ms = inp["matches"]
    if not inp.get("share"):
        return list(range(len(ms)))
    first = {}
    return [first.setdefault(json.dumps(m, sort_keys=True), k) for k, m in enumerate(ms)]


def _match_kwargs(m, k, nulls, as_obj, form="float", alias=None, rich=False):
    d = {"uuid": U(f"m{k}")}
    var = alias == "match_content"
    role = "" if alias == "same_obj" else "match"       # same_obj: the very instance that the clip annotation lists
    if alias == "same_obj":
        alias = None
    for side, mk_o, mk_d in (("source", PRED, pred_d), ("target", ANN, ann_d)):
        v = m.get(side)
        if v is not None:
            d[side] = mk_o(v, role, alias=alias, variant=var) if as_obj else mk_d(v, alias=alias, variant=var)
        elif nulls == "explicit":
            d[side] = None
    d["affinity"] = _num(m["affinity"], form)
    if m.get("score") is not None:
        d["score"] = _num(m["score"], form)
    elif nulls == "explicit":
        d["score"] = None
    if rich:
        d["metrics"] = [FEAT() if as_obj else FEAT_D]
    return d


def _clip_eval_dict(inp):
    nulls = inp.get("nulls", "absent")
    alias = inp.get("alias")
    pred_end = 4.0 if alias == "clip_content" else 5.0      # same uuid, other content: still the same clip
    d = {"uuid": U("CE0"),
         "annotations": {"uuid": U("CA0"), "clip": clip_d(inp["ann_clip"]), "created_on": DT.isoformat(),
                         "sound_events": [ann_d(a, alias) for a in inp["ann_ids"]]},
         "predictions": {"uuid": U("CP0"), "clip": clip_d(inp["pred_clip"], end=pred_end),
                         "sound_events": [pred_d(p, alias=alias) for p in inp["pred_ids"]]},
         "matches": [_match_kwargs(m, k, nulls, False, alias=alias, rich=bool(inp.get("rich")))
                     for k, m in zip(_match_keys(inp), inp["matches"])]}
    if inp.get("score") is not None:
        d["score"] = _num(inp["score"])
    elif nulls == "explicit":
        d["score"] = None
    if inp.get("rich"):       # the optional fields next to the validated ones are filled in
        d["metrics"] = [FEAT_D]
        d["annotations"]["tags"] = [TAG_D]
        d["annotations"]["notes"] = [{"uuid": U("note"), "message": "n", "created_on": DT.isoformat()}]
        d["predictions"]["tags"] = [ptag_d()]
        d["predictions"]["features"] = [FEAT_D]
    return d


def _clip_eval_aoef(inp):
    nulls = inp.get("nulls", "absent")
    doc = json.loads(_evaluation_template())
    D = doc["data"]
    ca = _by_uuid(D["clip_annotations"], U("CA0"))
    ca["clip"] = U(inp["ann_clip"])
    ca["sound_events"] = [U(a) for a in inp["ann_ids"]]
    cp = _by_uuid(D["clip_predictions"], U("CP0"))
    cp["clip"] = U(inp["pred_clip"])
    cp["sound_events"] = [U(p) for p in inp["pred_ids"]]
    _aoef_ensure(D, list(inp["ann_ids"]) + [m["target"] for m in inp["matches"] if m.get("target") is not None],
                 list(inp["pred_ids"]) + [m["source"] for m in inp["matches"] if m.get("source") is not None])
    if inp.get("alias") == "shared_se":
        shared = D["sound_events"][0]["uuid"]
        for o in D["sound_event_annotations"] + D["sound_event_predictions"]:
            o["sound_event"] = shared
    ce = _by_uuid(D["clip_evaluations"], U("CE0"))
    old = set(ce.get("matches") or [])
    D["matches"] = [m for m in D["matches"] if m["uuid"] not in old]
    new = []
    listed = []
    for k, m in zip(_match_keys(inp), inp["matches"]):
        listed.append(U(f"m{k}"))
        if any(o["uuid"] == U(f"m{k}") for o in new):
            continue
        o = {"uuid": U(f"m{k}"), "affinity": _num(m["affinity"])}
        for side in ("source", "target"):
            if m.get(side) is not None:
                o[side] = U(m[side])
            elif nulls == "explicit":
                o[side] = None
        if m.get("score") is not None:
            o["score"] = _num(m["score"])
        elif nulls == "explicit":
            o["score"] = None
        new.append(o)
    D["matches"].extend(new)
    ce["matches"] = listed
    if inp.get("score") is not None:
        ce["score"] = _num(inp["score"])
    else:
        ce.pop("score", None)
        if nulls == "explicit":
            ce["score"] = None
    if inp.get("cont") == "rev":      # tables and entries in another order: references are by uuid
        doc["data"] = {k: (list(reversed(v)) if isinstance(v, list) and k != "clip_evaluations" else v)
                       for k, v in reversed(list(D.items()))}
    return doc


def _faithful_clip_eval(ce, inp):
    """an accepted object must be the arrangement that was asked for (nothing silently dropped)"""
    got = {
        "ann_clip": str(ce.annotations.clip.uuid), "pred_clip": str(ce.predictions.clip.uuid),
        "ann_ids": [str(a.uuid) for a in ce.annotations.sound_events],
        "pred_ids": [str(p.uuid) for p in ce.predictions.sound_events],
        "matches": [(str(m.source.uuid) if m.source is not None else None,
                     str(m.target.uuid) if m.target is not None else None,
                     rat(m.affinity), None if m.score is None else rat(m.score)) for m in ce.matches],
        "score": None if ce.score is None else rat(ce.score)}
    want = {
        "ann_clip": U(inp["ann_clip"]), "pred_clip": U(inp["pred_clip"]),
        "ann_ids": [U(a) for a in inp["ann_ids"]], "pred_ids": [U(p) for p in inp["pred_ids"]],
        "matches": [(None if m.get("source") is None else U(m["source"]), None if m.get("target") is None else U(m["target"]),
                     m["affinity"], m.get("score")) for m in inp["matches"]],
        "score": inp.get("score")}
    return got == want


# ---- attribute objects that are not mappings (model_validate(obj, from_attributes=True))
ATTR_KINDS = ["ns", "slots", "namedtuple", "dataclass", "classattr", "property"]


def _attr_obj(kind, fields):
    """an object that carries `fields` as attributes, in one of the ways Python offers"""
    import collections
    import dataclasses
    import types
    names = list(fields)
    if kind == "ns":
        return types.SimpleNamespace(**fields)
    if kind == "slots":
        cls = type("Slotted", (), {"__slots__": tuple(names)})
        o = cls()
        for k, v in fields.items():
            setattr(o, k, v)
        return o
    if kind == "namedtuple":
        return collections.namedtuple("NT", names)(**fields)
    if kind == "dataclass":
        return dataclasses.make_dataclass("DC", names)(**fields)
    if kind == "classattr":
        return type("ClassLevel", (), dict(fields))()
    if kind == "property":
        return type("Props", (), {k: property(lambda self, v=v: v) for k, v in fields.items()})()
    raise KeyError(kind)


def _seq(xs, cont):
    return tuple(xs) if cont == "tuple" else list(xs)


def _tuples(x):
    """the same JSON-like value with every list written as a tuple"""
    if isinstance(x, dict):
        return {k: _tuples(v) for k, v in x.items()}
    if isinstance(x, list):
        return tuple(_tuples(v) for v in x)
    return x


def _rev_keys(x):
    """the same JSON value with the keys of every object in the opposite order"""
    if isinstance(x, dict):
        return {k: _rev_keys(v) for k, v in reversed(list(x.items()))}
    if isinstance(x, list):
        return [_rev_keys(v) for v in x]
    return x


def _clip_eval_objects(inp):
    """the live arguments of the constructor path: clip annotation, clip prediction, matches (raises Rejected when a
    match cannot be constructed), keywords"""
    from soundevent import data
    nulls = inp.get("nulls", "absent")
    alias = inp.get("alias")
    cont = inp.get("cont")
    ev_alias = None if alias == "same_obj" else alias
    rich = bool(inp.get("rich"))
    ra = {"tags": [TAG()], "notes": [data.Note(uuid=U("note"), message="n", created_on=DT)]} if rich else {}
    rp = {"tags": [PTAG()], "features": [FEAT()]} if rich else {}
    ca = data.ClipAnnotation(uuid=U("CA0"), clip=CLIP(inp["ann_clip"], "ann"), created_on=DT,
                             sound_events=_seq([ANN(a, alias=ev_alias) for a in inp["ann_ids"]], cont), **ra)
    cp = data.ClipPrediction(uuid=U("CP0"), sound_events=_seq([PRED(p, alias=ev_alias) for p in inp["pred_ids"]], cont),
                             clip=CLIP(inp["pred_clip"], "pred", end=4.0 if alias == "clip_content" else 5.0), **rp)
    built = {}
    ms = []
    for k, m in zip(_match_keys(inp), inp["matches"]):
        if k not in built:
            kw = _match_kwargs(m, k, nulls, True, alias=alias, rich=rich)
            built[k] = kw if cont == "nested" else _attempt(lambda kw=kw: data.Match(**kw))
        ms.append(built[k])
    kw = {"metrics": [FEAT()]} if rich else {}
    if inp.get("score") is not None:
        kw["score"] = _num(inp["score"])
    elif nulls == "explicit":
        kw["score"] = None
    return ca, cp, _seq(ms, cont), kw


def _make_clip_eval(inp):
    """one construction; returns the live ClipEvaluation or raises Rejected"""
    from soundevent import data
    path = inp["path"]
    cont = inp.get("cont")
    if path == "ctor":
        ca, cp, ms, kw = _clip_eval_objects(inp)
        if cont == "nested":        # nested objects given as mappings (pydantic validates them on the way)
            ca, cp = ca.model_dump(), cp.model_dump()
        return _attempt(lambda: data.ClipEvaluation(uuid=U("CE0"), annotations=ca, predictions=cp, matches=ms, **kw))
    if path == "dict":
        if cont == "nested":        # a mapping that holds instances
            ca, cp, ms, kw = _clip_eval_objects({**inp, "cont": None})
            d = {"uuid": U("CE0"), "annotations": ca, "predictions": cp, "matches": ms, **kw}
        else:
            d = _clip_eval_dict(inp)
            if cont == "tuple":
                d = _tuples(d)
            elif cont == "rev":
                d = _rev_keys(d)
        if inp.get("twice"):      # the caller's mapping is validated a second time: it must still say the same
            try:
                data.ClipEvaluation.model_validate(d)
            except Exception:  # noqa: BLE001
                pass
        return _attempt(lambda: data.ClipEvaluation.model_validate(d))
    if path == "json":
        d = _clip_eval_dict(inp)
        if cont == "rev":
            d = _rev_keys(d)
        return _attempt(lambda: data.ClipEvaluation.model_validate_json(json.dumps(d)))
    if path == "aoef":
        ev = _attempt(lambda: _load_doc(_clip_eval_aoef(inp), "evaluation", positional=inp.get("load_call") == "positional"))
        return next(c for c in ev.clip_evaluations if str(c.uuid) == U("CE0"))
    if path.startswith("attrs"):
        ca, cp, ms, kw = _clip_eval_objects({**inp, "cont": None if cont == "nested" else cont})
        o = _attr_obj(path.split(":", 1)[1] if ":" in path else "ns",
                      {"uuid": U("CE0"), "annotations": ca, "predictions": cp, "matches": ms, **kw})
        return _attempt(lambda: data.ClipEvaluation.model_validate(o, from_attributes=True))
    raise KeyError(path)


def _canon_clip_eval(inp, ce):
    if not _faithful_clip_eval(ce, inp):
        return {"accepted": True, "unfaithful": "the accepted object is not the arrangement that was given"}
    return True


def _impl_of(make, canon):
    def impl(inp):
        try:
            obj = make(inp)
        except Rejected:
            return False
        return canon(inp, obj)
    return impl


_impl_clip_eval = _impl_of(_make_clip_eval, _canon_clip_eval)


def _strip(*keys):
    return lambda inp: {k: v for k, v in inp.items() if k not in keys}


# ------------------------------------------------------------------ single matches
def _make_match(inp):
    from soundevent import data
    path = inp["path"]
    nulls = inp.get("nulls", "absent")
    form = inp.get("form", "float")
    if path == "ctor":
        return _attempt(lambda: data.Match(**_match_kwargs(inp, 0, nulls, True, form)))
    if path == "dict":
        d = _match_kwargs(inp, 0, nulls, False, form)
        if inp.get("twice"):
            try:
                data.Match.model_validate(d)
            except Exception:  # noqa: BLE001
                pass
        return _attempt(lambda: data.Match.model_validate(d))
    if path == "json":
        return _attempt(lambda: data.Match.model_validate_json(json.dumps(_match_kwargs(inp, 0, nulls, False, form))))
    if path == "aoef":
        doc = json.loads(_evaluation_template())
        o = {"uuid": U("m0"), "affinity": _num(inp["affinity"], form)}
        for side in ("source", "target"):
            if inp.get(side) is not None:
                o[side] = U(inp[side])
            elif nulls == "explicit":
                o[side] = None
        if inp.get("score") is not None:
            o["score"] = _num(inp["score"], form)
        _aoef_ensure(doc["data"], [inp["target"]] if inp.get("target") else [], [inp["source"]] if inp.get("source") else [])
        doc["data"]["matches"].append(o)      # every entry of the table is constructed on load
        _attempt(lambda: _load_doc(doc, "evaluation"))
        return None                           # the match is in no clip evaluation: nothing to read back
    raise KeyError(path)


def _canon_match(inp, m):
    if m is None:
        return True
    ok = ((None if m.source is None else str(m.source.uuid)) == (None if inp.get("source") is None else U(inp["source"]))
          and (None if m.target is None else str(m.target.uuid)) == (None if inp.get("target") is None else U(inp["target"]))
          and rat(m.affinity) == inp["affinity"]
          and (None if m.score is None else rat(m.score)) == inp.get("score"))
    return True if ok else {"accepted": True, "unfaithful": "match differs from the input"}


_impl_match = _impl_of(_make_match, _canon_match)


# ------------------------------------------------------------------ numbers in [0, 1]
# field -> (optional?, constructor-path builders per placement)
UNIT_FIELDS = ["Match.affinity", "Match.score", "ClipEvaluation.score", "SoundEventPrediction.score",
               "SequencePrediction.score", "PredictedTag.score", "PredictedTag.score@clip",
               "PredictedTag.score@sound_event", "PredictedTag.score@sequence"]
OPTIONAL_UNIT = {"Match.score", "ClipEvaluation.score"}


def _unit_dict(field, v):
    """(class name, dict input) that places the value `v` at `field`"""
    if field == "Match.affinity":
        return "Match", {"uuid": U("m0"), "source": pred_d("p0"), "affinity": v}
    if field == "Match.score":
        return "Match", {"uuid": U("m0"), "source": pred_d("p0"), "affinity": 0.5, "score": v}
    if field == "ClipEvaluation.score":
        d = _clip_eval_dict({"ann_clip": "c0", "pred_clip": "c0", "ann_ids": [], "pred_ids": [], "matches": []})
        d["score"] = v
        return "ClipEvaluation", d
    if field == "SoundEventPrediction.score":
        return "SoundEventPrediction", pred_d("p0", score=v)
    if field == "SequencePrediction.score":
        return "SequencePrediction", seqpred_d(score=v)
    if field == "PredictedTag.score":
        return "PredictedTag", ptag_d(v)
    if field == "PredictedTag.score@clip":
        return "ClipPrediction", {"uuid": U("CP0"), "clip": clip_d("c0"), "tags": [ptag_d(v)]}
    if field == "PredictedTag.score@sound_event":
        return "SoundEventPrediction", pred_d("p0", tags=[ptag_d(v)])
    if field == "PredictedTag.score@sequence":
        return "SequencePrediction", seqpred_d(tags=[ptag_d(v)])
    raise KeyError(field)


def _unit_ctor(field, v):
    from soundevent import data
    if field == "Match.affinity":
        return data.Match(uuid=U("m0"), source=PRED("p0"), affinity=v)
    if field == "Match.score":
        return data.Match(uuid=U("m0"), source=PRED("p0"), affinity=0.5, score=v)
    if field == "ClipEvaluation.score":
        return data.ClipEvaluation(uuid=U("CE0"), score=v,
                                   annotations=data.ClipAnnotation(uuid=U("CA0"), clip=CLIP("c0"), created_on=DT),
                                   predictions=data.ClipPrediction(uuid=U("CP0"), clip=CLIP("c0")))
    if field == "SoundEventPrediction.score":
        return data.SoundEventPrediction(uuid=U("p0"), sound_event=SE("p0"), score=v)
    if field == "SequencePrediction.score":
        return SEQPRED(score=v)
    if field == "PredictedTag.score":
        return data.PredictedTag(tag=TAG(), score=v)
    if field == "PredictedTag.score@clip":
        return data.ClipPrediction(uuid=U("CP0"), clip=CLIP("c0"), tags=[data.PredictedTag(tag=TAG(), score=v)])
    if field == "PredictedTag.score@sound_event":
        return data.SoundEventPrediction(uuid=U("p0"), sound_event=SE("p0"), tags=[data.PredictedTag(tag=TAG(), score=v)])
    if field == "PredictedTag.score@sequence":
        return SEQPRED(tags=[data.PredictedTag(tag=TAG(), score=v)])
    raise KeyError(field)


def _unit_aoef(field, v, kind="evaluation"):
    doc = json.loads(_collection_template(kind))
    D = doc["data"]

    def put(o, key):
        if v is None:
            o.pop(key, None)
        else:
            o[key] = v
    if field == "Match.affinity":
        put(_by_uuid(D["matches"], U("t0")), "affinity")
    elif field == "Match.score":
        put(_by_uuid(D["matches"], U("t0")), "score")
    elif field == "ClipEvaluation.score":
        put(_by_uuid(D["clip_evaluations"], U("CE0")), "score")
    elif field == "SoundEventPrediction.score":
        put(_by_uuid(D["sound_event_predictions"], U("p0")), "score")
    elif field == "SequencePrediction.score":
        put(_by_uuid(D["sequence_predictions"], U("sq0")), "score")
    elif field in ("PredictedTag.score", "PredictedTag.score@clip"):
        _by_uuid(D["clip_predictions"], U("CP0"))["tags"][0][1] = v
    elif field == "PredictedTag.score@sound_event":
        _by_uuid(D["sound_event_predictions"], U("p0"))["tags"][0][1] = v
    elif field == "PredictedTag.score@sequence":
        _by_uuid(D["sequence_predictions"], U("sq0"))["tags"][0][1] = v
    else:
        raise KeyError(field)
    return doc


def _unit_read(field, obj):
    """the value that ended up in the constructed object"""
    f = field.split("@")[0].split(".")[1]
    if "@" in field:
        return obj.tags[0].score
    return getattr(obj, f)


def _unit_read_aoef(field, ev, kind="evaluation"):
    if kind == "evaluation":
        ce = next(c for c in ev.clip_evaluations if str(c.uuid) == U("CE0"))
        if field.startswith("Match."):
            m = next(m for m in ce.matches if str(m.uuid) == U("t0"))
            return getattr(m, field.split(".")[1])
        if field == "ClipEvaluation.score":
            return ce.score
        cp = ce.predictions
    else:
        cp = next(c for c in ev.clip_predictions if str(c.uuid) == U("CP0"))
    p0 = next(p for p in cp.sound_events if str(p.uuid) == U("p0"))
    if field == "SoundEventPrediction.score":
        return p0.score
    if field == "SequencePrediction.score":
        return cp.sequences[0].score
    if field in ("PredictedTag.score", "PredictedTag.score@clip"):
        return cp.tags[0].score
    if field == "PredictedTag.score@sound_event":
        return p0.tags[0].score
    if field == "PredictedTag.score@sequence":
        return cp.sequences[0].tags[0].score
    raise KeyError(field)


def _unit_attrs(field, v, kind):
    """(class name, attribute object) that places `v` at `field`: the object is not a mapping
    (model_validate(obj, from_attributes=True)); `Match` is left out (its before-validator expects a mapping, see
    notes/C04-review.md section 6)"""
    from soundevent import data
    if field == "ClipEvaluation.score":
        return "ClipEvaluation", _attr_obj(kind, {
            "uuid": U("CE0"), "score": v, "matches": [],
            "annotations": data.ClipAnnotation(uuid=U("CA0"), clip=CLIP("c0"), created_on=DT),
            "predictions": data.ClipPrediction(uuid=U("CP0"), clip=CLIP("c0"))})
    if field == "SoundEventPrediction.score":
        return "SoundEventPrediction", _attr_obj(kind, {"uuid": U("p0"), "sound_event": SE("p0"), "score": v})
    if field == "SequencePrediction.score":
        return "SequencePrediction", _attr_obj(kind, {"uuid": U("sq0"), "score": v,
                                                      "sequence": data.Sequence(uuid=U("seq0"), sound_events=[SE("p0")])})
    tag = _attr_obj(kind, {"tag": TAG(), "score": v})
    if field == "PredictedTag.score":
        return "PredictedTag", tag
    if field == "PredictedTag.score@clip":
        return "ClipPrediction", _attr_obj(kind, {"uuid": U("CP0"), "clip": CLIP("c0"), "tags": [tag]})
    if field == "PredictedTag.score@sound_event":
        return "SoundEventPrediction", _attr_obj(kind, {"uuid": U("p0"), "sound_event": SE("p0"), "tags": [tag]})
    if field == "PredictedTag.score@sequence":
        return "SequencePrediction", _attr_obj(kind, {"uuid": U("sq0"), "tags": [tag],
                                                      "sequence": data.Sequence(uuid=U("seq0"), sound_events=[SE("p0")])})
    raise KeyError(field)


ATTR_UNIT_FIELDS = [f for f in UNIT_FIELDS if not f.startswith("Match.")]


def _make_unit(inp):
    """returns (read-back value); raises Rejected"""
    from soundevent import data
    field, path, form = inp["field"], inp["path"], inp.get("form", "float")
    v = _num(inp["x"], form)
    if path == "ctor":
        obj = _attempt(lambda: _unit_ctor(field, v))
        return obj, _unit_read(field, obj)
    if path in ("dict", "json"):
        cls, d = _unit_dict(field, v)
        c = getattr(data, cls)
        obj = _attempt((lambda: c.model_validate(d)) if path == "dict" else (lambda: c.model_validate_json(json.dumps(d))))
        return obj, _unit_read(field, obj)
    if path.startswith("attrs"):
        cls, o = _unit_attrs(field, v, path.split(":", 1)[1] if ":" in path else "ns")
        obj = _attempt(lambda: getattr(data, cls).model_validate(o, from_attributes=True))
        return obj, _unit_read(field, obj)
    if path.startswith("aoef"):
        kind = _aoef_kind(path)
        obj = _attempt(lambda: _load_doc(_unit_aoef(field, v, kind), kind, positional=inp.get("load_call") == "positional"))
        return obj, _unit_read_aoef(field, obj, kind)
    raise KeyError(path)


def _canon_unit(inp, made):
    _obj, got = made
    if _frat(got) != inp["x"]:
        return {"accepted": True, "unfaithful": f"stored {got!r} for input {inp['x']} ({inp.get('form', 'float')})"}
    return True


_impl_unit = _impl_of(_make_unit, _canon_unit)


# ------------------------------------------------------------------ annotation projects
def _project_dict(inp):
    end = 4.0 if inp.get("alias") == "clip_content" else 5.0
    rich = {"description": "d", "instructions": "i", "annotation_tags": [TAG_D]} if inp.get("rich") else {}
    return {"uuid": U("PROJ"), "name": "p", "created_on": DT.isoformat(), **rich,
            "tasks": [{"uuid": U(f"task{k}"), "clip": clip_d(c), "created_on": DT.isoformat()}
                      for k, c in enumerate(inp["task_clips"])],
            "clip_annotations": [{"uuid": U(f"pca{k}"), "clip": clip_d(c, end=end), "created_on": DT.isoformat()}
                                 for k, c in enumerate(inp["ann_clips"])]}


def _project_objects(inp):
    from soundevent import data
    cont = inp.get("cont")
    tasks = [data.AnnotationTask(uuid=U(f"task{k}"), clip=CLIP(c, "task"), created_on=DT)
             for k, c in enumerate(inp["task_clips"])]
    cas = [data.ClipAnnotation(uuid=U(f"pca{k}"), created_on=DT,
                               clip=CLIP(c, "ann", end=4.0 if inp.get("alias") == "clip_content" else 5.0))
           for k, c in enumerate(inp["ann_clips"])]
    return _seq(tasks, cont), _seq(cas, cont)


def _make_project(inp):
    from soundevent import data
    path = inp["path"]
    cont = inp.get("cont")
    if path == "ctor":
        tasks, cas = _project_objects(inp)
        rich = {"description": "d", "instructions": "i", "annotation_tags": [TAG()]} if inp.get("rich") else {}
        return _attempt(lambda: data.AnnotationProject(uuid=U("PROJ"), name="p", created_on=DT, tasks=tasks,
                                                       clip_annotations=cas, **rich))
    if path == "dict":
        d = _project_dict(inp)
        d = _tuples(d) if cont == "tuple" else _rev_keys(d) if cont == "rev" else d
        if inp.get("twice"):
            try:
                data.AnnotationProject.model_validate(d)
            except Exception:  # noqa: BLE001
                pass
        return _attempt(lambda: data.AnnotationProject.model_validate(d))
    if path == "json":
        d = _project_dict(inp)
        d = _rev_keys(d) if cont == "rev" else d
        return _attempt(lambda: data.AnnotationProject.model_validate_json(json.dumps(d)))
    if path.startswith("attrs"):
        tasks, cas = _project_objects(inp)
        o = _attr_obj(path.split(":", 1)[1] if ":" in path else "ns",
                      {"uuid": U("PROJ"), "name": "p", "created_on": DT, "tasks": tasks, "clip_annotations": cas})
        return _attempt(lambda: data.AnnotationProject.model_validate(o, from_attributes=True))
    if path == "aoef":
        doc = json.loads(_project_template())
        D = doc["data"]
        have = {o["uuid"] for o in D["clips"]}
        c0 = _by_uuid(D["clips"], U("c0"))
        for c in list(inp["task_clips"]) + list(inp["ann_clips"]):      # long lists: clips the template does not hold
            if U(c) not in have:
                have.add(U(c))
                D["clips"].append({**c0, "uuid": U(c)})
        D["tasks"] = [{"uuid": U(f"task{k}"), "clip": U(c), "created_on": DT.isoformat()}
                      for k, c in enumerate(inp["task_clips"])]
        D["clip_annotations"] = [{"uuid": U(f"pca{k}"), "clip": U(c), "created_on": DT.isoformat()}
                                 for k, c in enumerate(inp["ann_clips"])]
        if cont == "rev":
            doc["data"] = {k: v for k, v in reversed(list(D.items()))}
        return _attempt(lambda: _load_doc(doc, "annotation_project", positional=inp.get("load_call") == "positional"))
    raise KeyError(path)


def _canon_project(inp, proj):
    ok = ([str(t.clip.uuid) for t in proj.tasks] == [U(c) for c in inp["task_clips"]]
          and [str(a.clip.uuid) for a in proj.clip_annotations] == [U(c) for c in inp["ann_clips"]])
    return True if ok else {"accepted": True, "unfaithful": "project differs from the input"}


_impl_project = _impl_of(_make_project, _canon_project)


# ------------------------------------------------------------------ clips
def _make_clip(inp):
    from soundevent import data
    path = inp["path"]
    s = _num(inp["start"], inp.get("start_form", "float"))
    e = _num(inp["end"], inp.get("end_form", "float"))
    if path == "ctor":
        return _attempt(lambda: data.Clip(uuid=U("c0"), recording=REC(), start_time=s, end_time=e))
    if path == "dict":
        d = {**clip_d("c0", s, e), "recording": REC()} if inp.get("cont") == "nested" else clip_d("c0", s, e)
        if inp.get("twice"):
            try:
                data.Clip.model_validate(d)
            except Exception:  # noqa: BLE001
                pass
        return _attempt(lambda: data.Clip.model_validate(d))
    if path == "json":
        return _attempt(lambda: data.Clip.model_validate_json(json.dumps(clip_d("c0", s, e))))
    if path.startswith("attrs"):
        o = _attr_obj(path.split(":", 1)[1] if ":" in path else "ns",
                      {"uuid": U("c0"), "recording": REC(), "start_time": s, "end_time": e})
        return _attempt(lambda: data.Clip.model_validate(o, from_attributes=True))
    if path.startswith("aoef"):
        kind = _aoef_kind(path)
        doc = json.loads(_collection_template(kind))
        o = _by_uuid(doc["data"]["clips"], U("c0"))
        o["start_time"], o["end_time"] = s, e
        ev = _attempt(lambda: _load_doc(doc, kind, positional=inp.get("load_call") == "positional"))
        if kind == "evaluation":
            return next(x for x in ev.clip_evaluations if str(x.uuid) == U("CE0")).annotations.clip
        if AOEF_KINDS[kind] == "pred":
            return next(x for x in ev.clip_predictions if str(x.uuid) == U("CP0")).clip
        return next(x for x in ev.clip_annotations if str(x.uuid) == U("CA0")).clip
    raise KeyError(path)


def _canon_clip(inp, c):
    if _frat(c.start_time) != inp["start"] or _frat(c.end_time) != inp["end"]:
        return {"accepted": True, "unfaithful": f"clip times {c.start_time!r}, {c.end_time!r}"}
    return True


_impl_clip = _impl_of(_make_clip, _canon_clip)


def _impl_clip_malformed(inp):
    """inputs without a rational reading (missing / null / non-numeric times): construction must not succeed"""
    from soundevent import data
    d = clip_d("c0")
    for k in ("start_time", "end_time"):
        v = inp[k]
        if v == "<missing>":
            d.pop(k)
        else:
            d[k] = v
    try:
        if inp["path"] == "dict":
            data.Clip.model_validate(d)
        elif inp["path"] == "json":
            data.Clip.model_validate_json(json.dumps(d))
        else:
            d["recording"] = REC()
            data.Clip(**d)
    except Exception as e:  # noqa: BLE001 — any failure is a failure to construct; its class is tallied, not judged
        return {"accepted": False, "error": type(e).__name__}
    return {"accepted": True}


def _impl_unit_malformed(inp):
    """NaN / infinities / non-numbers at a score-like field: construction must not succeed, on any path"""
    from soundevent import data
    field, path = inp["field"], inp["path"]
    v = {"nan": float("nan"), "inf": float("inf"), "-inf": float("-inf"), "text": "abc", "null": None,
         "list": [0.5], "true": True}[inp["value"]]
    try:
        if path == "ctor":
            _unit_ctor(field, v)
        elif path in ("dict", "json"):
            cls, d = _unit_dict(field, v)
            c = getattr(data, cls)
            c.model_validate(d) if path == "dict" else c.model_validate_json(json.dumps(d))
        else:
            doc = _unit_aoef(field, v)
            if v is None:     # `put` drops the key: write an explicit null instead
                return {"accepted": False, "error": "skipped"}
            _load_doc(doc, "evaluation")
    except Exception as e:  # noqa: BLE001
        return {"accepted": False, "error": type(e).__name__}
    return {"accepted": True}


def _impl_match_malformed(inp):
    """things that are not a mapping / a Match where a match is expected: construction must not succeed (the class of
    the error is tallied, not judged)"""
    from soundevent import data
    v = {"list": [], "null": None, "text": "x", "int": 3, "pair": [None, None], "nested-list": [[]]}[inp["value"]]
    where, path = inp["where"], inp["path"]
    try:
        if where == "match":
            data.Match.model_validate(v) if path == "dict" else data.Match.model_validate_json(json.dumps(v))
        else:       # as an element of ClipEvaluation.matches
            d = _clip_eval_dict({"ann_clip": "c0", "pred_clip": "c0", "ann_ids": [], "pred_ids": [], "matches": []})
            d["matches"] = [v]
            data.ClipEvaluation.model_validate(d) if path == "dict" else data.ClipEvaluation.model_validate_json(json.dumps(d))
    except Exception as e:  # noqa: BLE001
        return {"accepted": False, "error": type(e).__name__}
    return {"accepted": True}


def _cmp_malformed(inp, io, mo):
    if isinstance(io, dict) and io.get("accepted") is False and mo is False:
        return None
    return "an object was constructed from a value that is missing / null / not a finite number"


def _nontrivial_accept(inp, out):
    return out is True


def _cmp_decision(what_ok, what_bad):
    def cmp(inp, io, mo):
        if io is mo or io == mo:
            return None
        if isinstance(io, dict) and "raise" in io:
            return f"construction raised {io['raise']} instead of succeeding or a validation error (path {inp.get('path')})"
        if isinstance(io, dict) and io.get("unfaithful"):
            return f"accepted, but {io['unfaithful']} (path {inp.get('path')})"
        if io is True:
            return f"{what_bad} was constructed (path {inp.get('path')})"
        return f"{what_ok} was rejected (path {inp.get('path')})"
    return cmp


def _cmp_clip_f(inp, io, mo):
    """infinite times are ordered like numbers, so the decision is pinned; with a nan neither `start > end` nor
    `start <= end` holds and the property does not say which of the two the validator has to ask: the model
    (`clipOkF`, theorem C04_clip_float_nan) describes the code as it is, the outcome is not judged"""
    if "nan" in (inp["start"], inp["end"]):
        if isinstance(io, dict) and "raise" in io:
            return f"construction raised {io['raise']} instead of succeeding or a validation error (path {inp.get('path')})"
        return None
    return _cmp_decision("a clip whose start is not greater than its end", "a clip that starts after it ends")(inp, io, mo)


OPS = {
    "clip_eval": Op("clip_eval", _impl_clip_eval, to_model=_strip("path", "nulls", "share", "alias", "cont", "load_call", "rich", "twice"), nontrivial=_nontrivial_accept,
                    shrink=True, compare=_cmp_decision("a well-formed clip evaluation", "a clip evaluation whose matches do "
                                                       "not cover each sound event exactly once / with other clips / bad numbers")),
    "match": Op("match", _impl_match, to_model=_strip("path", "nulls", "form", "twice"), nontrivial=_nontrivial_accept,
                compare=_cmp_decision("a match with a side and numbers in [0,1]", "a match without sides or with a number outside [0,1]")),
    "unit": Op("unit", _impl_unit, to_model=lambda i: {"x": i["x"]}, nontrivial=_nontrivial_accept,
               compare=_cmp_decision("a value in [0,1]", "a score / affinity / probability outside [0,1]")),
    "project": Op("project", _impl_project, to_model=_strip("path", "alias", "cont", "load_call", "rich", "twice"), nontrivial=_nontrivial_accept, shrink=True,
                  compare=_cmp_decision("a project whose annotated clips all have tasks", "a project with an annotation of a clip without a task")),
    "clip": Op("clip", _impl_clip, to_model=lambda i: {"start": i["start"], "end": i["end"]},
               nontrivial=_nontrivial_accept,
               compare=_cmp_decision("a clip with start <= end", "a clip that starts after it ends")),
    # the same two operations on binary64 values that are not rationals (nan, inf, -inf): the model is SE.Relational.F
    "unit_f": Op("unit_f", _impl_unit, to_model=lambda i: {"x": i["x"]}, nontrivial=_nontrivial_accept,
                 compare=_cmp_decision("a value in [0,1]", "a nan / infinite score, affinity or probability")),
    "clip_f": Op("clip_f", _impl_clip, to_model=lambda i: {"start": i["start"], "end": i["end"]},
                 nontrivial=_nontrivial_accept, compare=_cmp_clip_f),
    "match_malformed": Op("match_malformed", _impl_match_malformed, compare=_cmp_malformed, model_op="malformed",
                          nontrivial=lambda i, o: False),
    "unit_malformed": Op("unit_malformed", _impl_unit_malformed, compare=_cmp_malformed, model_op="malformed",
                         nontrivial=lambda i, o: False),
    "clip_malformed": Op("clip_malformed", _impl_clip_malformed, compare=_cmp_malformed, model_op="malformed",
                         nontrivial=lambda i, o: False),
}


# ------------------------------------------------------------------ sessions: constructions from live, reused objects
# model: SE.Relational.runHistory (lean/SoundeventModel/RelationalHistory.lean), theorems C04_history_*
SHALLOW_COPIES = ("model_copy", "copy_assign", "model_copy_then_assign")       # need new ids (the list would be shared)
DEEP_COPIES = ("model_copy_deep", "deepcopy_assign", "deepcopy_inplace", "pickle", "revalidate", "json_roundtrip")
SET_HOWS = ("append", "slice", "assign", "extend_pop")
EVAL_PATHS = ("ctor", "dict_inst", "dump", "json_dump", "attrs")


def _session_valid(h):
    """well-formed: every handle is bound before it is used, with the right kind; a shallow copy gets a new list"""
    kinds = {}
    try:
        for st in h["steps"]:
            do = st["do"]
            if do == "new":
                kinds[st["h"]] = st["kind"]
            elif do in ("set_ids", "set_clip"):
                if st["h"] not in kinds:
                    return False
            elif do == "copy":
                if st["src"] not in kinds or (st.get("ids") is None and st.get("how") not in DEEP_COPIES):
                    return False
                kinds[st["dst"]] = kinds[st["src"]]
            elif do == "eval":
                if kinds.get(st["ann"]) != "ann" or kinds.get(st["pred"]) != "pred":
                    return False
            else:
                return False
    except (KeyError, TypeError):
        return False
    return any(st["do"] == "eval" for st in h["steps"])


def _coll_members(kind, ids):
    return [ANN(a) if kind == "ann" else PRED(a) for a in ids]


def _coll_new(kind, clip, ids, via):
    from soundevent import data
    cls = data.ClipAnnotation if kind == "ann" else data.ClipPrediction
    if via == "ctor":
        kw = {"created_on": DT} if kind == "ann" else {}
        return cls(uuid=U("CA0" if kind == "ann" else "CP0"), clip=CLIP(clip, kind), sound_events=_coll_members(kind, ids), **kw)
    if via == "aoef":          # an object that came out of soundevent.io.load
        coll = "annotation_set" if kind == "ann" else "prediction_set"
        doc = json.loads(_collection_template(coll))
        D = doc["data"]
        table = "sound_event_annotations" if kind == "ann" else "sound_event_predictions"
        proto = D[table][0]
        s0 = _by_uuid(D["sound_events"], proto["sound_event"])
        have, have_s = {o["uuid"] for o in D[table]}, {o["uuid"] for o in D["sound_events"]}
        for n in ids:
            if U(n) not in have:
                have.add(U(n))
                if se_uuid(n) not in have_s:
                    have_s.add(se_uuid(n))
                    D["sound_events"].append({**s0, "uuid": se_uuid(n)})
                D[table].append({**proto, "uuid": U(n), "sound_event": se_uuid(n)})
        if U(clip) not in {o["uuid"] for o in D["clips"]}:
            D["clips"].append({**_by_uuid(D["clips"], U("c0")), "uuid": U(clip)})
        key = "clip_annotations" if kind == "ann" else "clip_predictions"
        o = _by_uuid(D[key], U("CA0" if kind == "ann" else "CP0"))
        o["clip"], o["sound_events"] = U(clip), [U(n) for n in ids]
        loaded = _load_doc(doc, coll)
        return next(x for x in getattr(loaded, key) if str(x.uuid) == o["uuid"])
    d = {"uuid": U("CA0" if kind == "ann" else "CP0"), "clip": clip_d(clip),
         "sound_events": [ann_d(a) if kind == "ann" else pred_d(a) for a in ids]}
    if kind == "ann":
        d["created_on"] = DT.isoformat()
    return cls.model_validate(d) if via == "dict" else cls.model_validate_json(json.dumps(d))


def _coll_content(obj):
    return {"clip": str(obj.clip.uuid), "ids": [str(x.uuid) for x in obj.sound_events]}


def _set_members(obj, kind, old_ids, ids, how):
    """change `sound_events` of a live object"""
    new = _coll_members(kind, ids)
    lst = obj.sound_events
    if how == "assign" or not isinstance(lst, list):
        obj.sound_events = new
    elif how == "append" and ids[:len(old_ids)] == old_ids:
        for x in new[len(old_ids):]:
            lst.append(x)
    elif how == "extend_pop":
        k = 0
        while k < len(old_ids) and k < len(ids) and old_ids[k] == ids[k]:
            k += 1
        while len(lst) > k:
            lst.pop()
        lst.extend(new[k:])
    else:
        lst[:] = new


def _copy_coll(obj, kind, old_ids, ids, how):
    import copy as _copy
    import pickle
    new = None if ids is None else _coll_members(kind, ids)
    if how == "model_copy":
        return obj.model_copy(update={"sound_events": new})
    if how == "model_copy_deep":
        return obj.model_copy(update={} if new is None else {"sound_events": new}, deep=True)
    if how in ("copy_assign", "model_copy_then_assign"):
        c = _copy.copy(obj) if how == "copy_assign" else obj.model_copy()
        c.sound_events = new
        return c
    if how in ("deepcopy_assign", "deepcopy_inplace", "pickle", "revalidate", "json_roundtrip"):
        if how in ("deepcopy_assign", "deepcopy_inplace"):
            c = _copy.deepcopy(obj)
        elif how == "pickle":
            c = pickle.loads(pickle.dumps(obj))
        elif how == "revalidate":
            c = type(obj).model_validate(obj.model_dump())
        else:
            c = type(obj).model_validate_json(obj.model_dump_json())
        if new is not None:
            if how == "deepcopy_inplace":
                _set_members(c, kind, old_ids, ids, "append")
            else:
                c.sound_events = new
        return c
    raise KeyError(how)


def _row_constructible(m):
    ok = m.get("source") is not None or m.get("target") is not None
    for k in ("affinity", "score"):
        if m.get(k) is not None:
            ok = ok and 0 <= Fraction(m[k]) <= 1
    return ok


def _match_content(ms):
    return [(None if m.source is None else str(m.source.uuid), None if m.target is None else str(m.target.uuid),
             rat(m.affinity), None if m.score is None else rat(m.score)) for m in ms]


_SKIPPED = [0]


def _session_change(st, objs, kinds, content):
    do = st["do"]
    if do == "new":
        objs[st["h"]] = _coll_new(st["kind"], st["clip"], st["ids"], st.get("via", "ctor"))
        kinds[st["h"]] = st["kind"]
        content[st["h"]] = {"clip": st["clip"], "ids": list(st["ids"])}
    elif do == "set_ids":
        hd = st["h"]
        _set_members(objs[hd], kinds[hd], content[hd]["ids"], list(st["ids"]), st.get("how", "assign"))
        content[hd] = {**content[hd], "ids": list(st["ids"])}
    elif do == "set_clip":
        hd = st["h"]
        objs[hd].clip = CLIP(st["clip"], kinds[hd])
        content[hd] = {**content[hd], "clip": st["clip"]}
    elif do == "copy":
        src, dst = st["src"], st["dst"]
        ids = None if st.get("ids") is None else list(st["ids"])
        c = _copy_coll(objs[src], kinds[src], content[src]["ids"], ids, st.get("how", "model_copy"))
        objs[dst], kinds[dst] = c, kinds[src]
        content[dst] = {"clip": content[src]["clip"], "ids": content[src]["ids"] if ids is None else ids}
    else:
        raise KeyError(do)


def _impl_clip_eval_history(h):
    """executes a session on live objects; every construction is observed on its own: accepted / rejected, the
    arguments before and after the call, the accepted object against what the objects carried at that moment, and
    at the end every earlier result again"""
    import types
    from soundevent import data
    objs, kinds, content = {}, {}, {}
    verdicts, notes, results = [], [], []
    prev_ms = []
    ms_generation = 0
    for k, st in enumerate(h["steps"]):
        do = st["do"]
        if do != "eval":
            # a step that changes or copies an object is not a construction: if the current code does not allow it (frozen
            # models, objects that cannot be pickled) the session cannot be carried out and is not judged
            try:
                _session_change(st, objs, kinds, content)
            except Exception as e:  # noqa: BLE001
                _SKIPPED[0] += 1
                return {"verdicts": verdicts, "notes": notes, "skipped": f"step {k} ({do}): {type(e).__name__}"}
            continue
        if do == "eval":
            ca, cp = objs[st["ann"]], objs[st["pred"]]
            nulls = st.get("nulls", "absent")
            path = st.get("path", "ctor")
            kw = {}
            if st.get("score") is not None:
                kw["score"] = _num(st["score"])
            try:
                ms = []
                reuse = st.get("match_objs") == "reuse"
                for i, m in enumerate(st["matches"]):
                    mo = None
                    if reuse and i < len(prev_ms) and _row_constructible(m):
                        mo = prev_ms[i]         # a Match object that was used before, changed by assignment
                        try:
                            mo.source = None if m.get("source") is None else PRED(m["source"], "match")
                            mo.target = None if m.get("target") is None else ANN(m["target"], "match")
                            mo.affinity = _num(m["affinity"])
                            mo.score = None if m.get("score") is None else _num(m["score"])
                        except Exception:  # noqa: BLE001 - the current code does not allow assignment: a fresh one
                            mo = None
                    if mo is None:
                        mo = _attempt(lambda m=m, i=i: data.Match(**_match_kwargs(m, i, nulls, True)))
                    ms.append(mo)
                if reuse:
                    ms_generation += 1
                before = (_coll_content(ca), _coll_content(cp), _match_content(ms))

                def build():
                    if path == "ctor":
                        return data.ClipEvaluation(uuid=U("CE0"), annotations=ca, predictions=cp, matches=ms, **kw)
                    if path == "dict_inst":
                        return data.ClipEvaluation.model_validate({"uuid": U("CE0"), "annotations": ca, "predictions": cp,
                                                                   "matches": ms, **kw})
                    if path == "attrs":
                        return data.ClipEvaluation.model_validate(
                            types.SimpleNamespace(uuid=U("CE0"), annotations=ca, predictions=cp, matches=ms, **kw),
                            from_attributes=True)
                    if path == "dump":
                        return data.ClipEvaluation.model_validate({"uuid": U("CE0"), "annotations": ca.model_dump(),
                                                                   "predictions": cp.model_dump(),
                                                                   "matches": [m.model_dump() for m in ms], **kw})
                    if path == "json_dump":
                        return data.ClipEvaluation.model_validate_json(json.dumps(
                            {"uuid": U("CE0"), "annotations": ca.model_dump(mode="json"),
                             "predictions": cp.model_dump(mode="json"), "matches": [m.model_dump(mode="json") for m in ms], **kw}))
                    raise KeyError(path)
                try:
                    ce = _attempt(build)
                finally:
                    after = (_coll_content(ca), _coll_content(cp), _match_content(ms))
                    if after != before:
                        notes.append({"step": k, "what": "argument-mutated", "before": before, "after": after})
                    prev_ms = ms
            except Rejected:
                verdicts.append(False)
                continue
            verdicts.append(True)
            want = {"ann": {"clip": U(content[st["ann"]]["clip"]), "ids": [U(a) for a in content[st["ann"]]["ids"]]},
                    "pred": {"clip": U(content[st["pred"]]["clip"]), "ids": [U(a) for a in content[st["pred"]]["ids"]]},
                    "matches": [(None if m.get("source") is None else U(m["source"]), None if m.get("target") is None else U(m["target"]),
                                 m["affinity"], m.get("score")) for m in st["matches"]],
                    "score": st.get("score")}

            def read(ce=ce):
                return {"ann": _coll_content(ce.annotations), "pred": _coll_content(ce.predictions),
                        "matches": _match_content(ce.matches), "score": None if ce.score is None else rat(ce.score)}
            got = read()
            if got != want:
                notes.append({"step": k, "what": "unfaithful", "want": want, "got": got})
            poisoned = False
            if st.get("poison"):           # the caller edits what it got back: nothing may be shared with later calls
                try:
                    ce.score = 0.75
                    if isinstance(ce.matches, list):
                        ce.matches.append(ce.matches[0]) if ce.matches else None
                        ce.matches.reverse()
                    ce.matches = list(ce.matches)[:1]
                    poisoned = True
                except Exception:  # noqa: BLE001
                    poisoned = True
            if not poisoned:
                results.append((k, read, {"matches": want["matches"], "score": want["score"]}, ms_generation))
        else:
            raise KeyError(do)
    for k, read, want, gen in results:
        if gen != ms_generation and want["matches"]:
            continue        # its Match objects were reused (assigned to) by a later step of this very session
        now = read()
        if {"matches": now["matches"], "score": now["score"]} != want:
            notes.append({"step": k, "what": "result-changed-later", "first": want, "now": now})
    return {"verdicts": verdicts, "notes": notes}


def _cmp_history(h, io, mo):
    if isinstance(io, dict) and "raise" in io:
        return f"the session raised {io['raise']} outside a construction"
    if io.get("skipped"):
        return None
    for n in io.get("notes", []):
        if n["what"] == "argument-mutated":
            return (f"step {n['step']}: the construction changed one of its arguments in place "
                    f"(before {json.dumps(n['before'])[:200]} after {json.dumps(n['after'])[:200]})")
        if n["what"] == "unfaithful":
            return (f"step {n['step']}: the accepted clip evaluation is not what the objects carried at that moment "
                    f"(want {json.dumps(n['want'])[:200]} got {json.dumps(n['got'])[:200]})")
        if n["what"] == "result-changed-later":
            return f"the clip evaluation returned at step {n['step']} changed through later constructions"
    evals = [k for k, st in enumerate(h["steps"]) if st["do"] == "eval"]
    if not isinstance(mo, list) or len(mo) != len(io["verdicts"]) or len(evals) != len(mo):
        return "the session has another number of constructions than the model"
    for k, a, b in zip(evals, io["verdicts"], mo):
        if a is not b:
            st = h["steps"][k]
            trail = " -> ".join(s["do"] + (":" + s["how"] if s.get("how") else "") for s in h["steps"][:k + 1])
            what = ("a clip evaluation whose matches do not cover what its annotations / predictions hold now was constructed"
                    if a else "a well-formed clip evaluation was rejected")
            return f"step {k} ({trail}; path {st.get('path', 'ctor')}): {what}"
    return None


OPS["clip_eval_history"] = Op(
    "clip_eval_history", _impl_clip_eval_history, compare=_cmp_history, shrink=True, valid=_session_valid,
    nontrivial=lambda h, out: isinstance(out, dict) and not out.get("skipped") and any(v is True for v in out.get("verdicts", [])))


# ------------------------------------------------------------------ histories of every operation (harness/history.py)
_REJ = object()


def _try_make(make, inp):
    try:
        return make(inp)
    except Rejected:
        return _REJ


def _safely(fn):
    """a poisoning step must never raise (a frozen model, a tuple): then there is nothing to poison"""
    def poison(res):
        if res is _REJ or res is None:
            return False
        try:
            return fn(res)
        except Exception:  # noqa: BLE001
            return False
    return poison


def _poison_unit(made):
    obj, _got = made
    from pydantic import BaseModel
    if not isinstance(obj, BaseModel) or type(obj).__name__ not in ("Match", "ClipEvaluation", "SoundEventPrediction",
                                                                      "SequencePrediction", "PredictedTag", "ClipPrediction"):
        return False          # a whole loaded collection: nothing simple to edit
    for attr in ("score", "affinity"):
        if attr in type(obj).model_fields:
            setattr(obj, attr, 7.0)
    if "tags" in type(obj).model_fields and obj.tags:
        obj.tags[0].score = 7.0
    return True


def _poison_clip(c):
    c.start_time, c.end_time = 99.0, -99.0
    return True


def _poison_match(m):
    m.affinity, m.source, m.target = 5.0, None, None
    return True


def _poison_project(proj):
    proj.tasks = []
    proj.clip_annotations = list(proj.clip_annotations) * 2
    return True


def _poison_clip_eval(ce):
    ce.score = 0.75
    ce.matches = []
    return True


def _seq_history(name, base, make, canon, poison):
    """consecutive constructions of one kind in one process: every step is judged by the base operation's model"""
    return history.history_op(name, OPS[base], build=lambda inp: {"inp": inp},
                              call=lambda a: _try_make(make, a["inp"]),
                              canon=lambda inp, a, res: False if res is _REJ else canon(inp, res),
                              poison=_safely(poison),
                              nontrivial=lambda h, out: isinstance(out, dict) and any(o is True for o in out.get("steps", [])))


OPS["unit_seq"] = _seq_history("unit_seq", "unit", _make_unit, _canon_unit, _poison_unit)
OPS["clip_seq"] = _seq_history("clip_seq", "clip", _make_clip, _canon_clip, _poison_clip)
OPS["match_seq"] = _seq_history("match_seq", "match", _make_match, _canon_match, _poison_match)
OPS["clip_eval_seq"] = _seq_history("clip_eval_seq", "clip_eval", _make_clip_eval, _canon_clip_eval, _poison_clip_eval)


# annotation projects: tasks / clip annotations that were used in one project, changed (assignment, model_copy) and used again
def _ph_build(inp):
    if inp["path"] != "ctor":
        return {"inp": inp}
    tasks, cas = _project_objects({**inp, "cont": None})
    return {"inp": inp, "tasks": tasks, "cas": cas}


def _ph_call(args):
    from soundevent import data
    if "tasks" not in args:
        return _try_make(_make_project, args["inp"])
    try:
        return _attempt(lambda: data.AnnotationProject(uuid=U("PROJ"), name="p", created_on=DT, tasks=args["tasks"],
                                                       clip_annotations=args["cas"]))
    except Rejected:
        return _REJ


def _ph_canon(inp, args, res):
    if args.get("touched"):        # its task / annotation objects were assigned to by a later step of this very history
        return args.get("out")
    out = False if res is _REJ else _canon_project(inp, res)
    args["out"] = out
    return out


def _ph_snapshot(args):
    if "tasks" not in args:
        return None
    return [[(str(t.uuid), str(t.clip.uuid)) for t in args["tasks"]], [(str(a.uuid), str(a.clip.uuid)) for a in args["cas"]]]


PROJECT_REUSE = ("assign", "copy_update", "deepcopy_assign")


def _ph_modify(args, inp, how):
    import copy as _copy
    from soundevent import data
    if inp["path"] != "ctor" or "tasks" not in args:
        return None
    end = 4.0 if inp.get("alias") == "clip_content" else 5.0

    def reuse(old, clips, role, fresh, end=5.0):
        out = []
        for k, c in enumerate(clips):
            clip = CLIP(c, role, end=end)
            if k >= len(old):
                out.append(fresh(k, clip))
            elif how == "assign":
                old[k].clip = clip
                out.append(old[k])
            elif how == "copy_update":
                out.append(old[k].model_copy(update={"clip": clip}))
            else:
                o = _copy.deepcopy(old[k])
                o.clip = clip
                out.append(o)
        return out
    try:
        tasks = reuse(args["tasks"], inp["task_clips"], "task",
                      lambda k, clip: data.AnnotationTask(uuid=U(f"task{k}"), clip=clip, created_on=DT))
        cas = reuse(args["cas"], inp["ann_clips"], "ann",
                    lambda k, clip: data.ClipAnnotation(uuid=U(f"pca{k}"), clip=clip, created_on=DT), end=end)
    except Exception:  # noqa: BLE001 - the current code does not allow the change (frozen models): fresh objects instead
        args["touched"] = True
        return None
    if how == "assign":
        args["touched"] = True
        args["tasks"][:] = tasks          # the very list objects, changed in place
        args["cas"][:] = cas
        tasks, cas = args["tasks"], args["cas"]
    return {"inp": inp, "tasks": tasks, "cas": cas}


OPS["project_history"] = history.history_op(
    "project_history", OPS["project"], _ph_build, _ph_call, _ph_canon, snapshot=_ph_snapshot, modify=_ph_modify,
    poison=_safely(_poison_project),
    nontrivial=lambda h, out: isinstance(out, dict) and any(o is True for o in out.get("steps", [])))


# ------------------------------------------------------------------ tie 1: constraint metadata
def _lean_rat(q):
    f = Fraction(q)
    return f"({f.numerator} : Rat)" if f.denominator == 1 else f"(({f.numerator} : Rat) / {f.denominator})"


def _constraint_of(field_info):
    c = {}
    for m in field_info.metadata:
        for k in ("ge", "gt", "le", "lt"):
            v = getattr(m, k, None)
            if v is not None and type(m).__name__.lower() in (k, "interval"):
                c[k] = Fraction(v)
    return c


def _tables(ctx):
    import soundevent.data as D
    rows = []
    listed = [("Match", "affinity"), ("Match", "score"), ("ClipEvaluation", "score"), ("PredictedTag", "score"),
              ("SoundEventPrediction", "score"), ("SequencePrediction", "score")]
    for cls, f in listed:
        c = getattr(D, cls, None)
        fi = None if c is None else c.model_fields.get(f)
        if fi is None:
            ctx.fail("obligation", f"constraints {cls}.{f}", detail=f"{cls}.{f} no longer exists",
                     extra={"field": f"{cls}.{f}"})
            continue
        con = _constraint_of(fi)
        body = ", ".join(f"{k} := some {_lean_rat(v)}" for k, v in con.items())
        row = f'(⟨"{cls}", "{f}", {{ {body} }}⟩ : SE.Relational.FieldRow)'
        rows.append(row)
        # what the property pins is the set of accepted values, not the spelling of the constraint: literally
        # `ge=0, le=1` goes through the table theorem, any other spelling (a redundant bound, an Interval) must be
        # proved to accept exactly [0, 1]
        ctx.tally("constraint spelled ge=0, le=1" if con == {"ge": 0, "le": 1} else "constraint spelled otherwise")
        closed0 = con.get("ge") == 0 and (con.get("gt") is None or con["gt"] < 0)
        closed1 = con.get("le") == 1 and (con.get("lt") is None or con["lt"] > 1)
        meta = {"field": f"{cls}.{f}", "extracted": {k: str(v) for k, v in con.items()}}
        if closed0 and closed1:
            ctx.obligation(
                f"constraints {cls}.{f}",
                f'example : ∀ x, (SE.Relational.Constraint.ok {{ {body} }} x) = SE.Relational.unitOk x := by\n'
                f'  first\n'
                f'  | exact fun x => SE.Proofs.C04.C04_unit_table [{row}] (by decide +kernel) {row} (List.mem_singleton.mpr rfl) x\n'
                f'  | (intro x; simp only [SE.Relational.Constraint.ok, SE.Relational.unitOk]; grind)', meta)
        else:
            # not [0,1] over the rationals: it may still be [0,1] on binary64 (a bound between 1 and the next float)
            lo, hi = _lean_rat(-Fraction(1, 2 ** 1074)), _lean_rat(1 + Fraction(1, 2 ** 52))
            ctx.obligation(
                f"constraints {cls}.{f}",
                f'example : ∀ x : Rat, (x ≤ {lo} ∨ (0 ≤ x ∧ x ≤ 1) ∨ {hi} ≤ x) →\n'
                f'    SE.Relational.Constraint.ok {{ {body} }} x = SE.Relational.unitOk x :=\n'
                f'  SE.Proofs.C04.C04_unit_table_float _ _ _ (by decide +kernel) (by decide +kernel) (by decide +kernel)\n'
                f'    (by decide +kernel) (by decide +kernel) (by decide +kernel)', meta)
    names = "[" + ", ".join(f'("{c}", "{f}")' for c, f in listed) + "]"
    ctx.obligation("unit field list", f"example : SE.Relational.unitFields = {names} := by decide")
    # every other field whose name says score / affinity / probability: reported, not required
    import importlib
    import pkgutil
    from pydantic import BaseModel
    others = []
    for m in pkgutil.iter_modules(D.__path__):
        mod = importlib.import_module("soundevent.data." + m.name)
        for n, c in vars(mod).items():
            if isinstance(c, type) and issubclass(c, BaseModel) and c.__module__ == mod.__name__:
                for f, fi in c.model_fields.items():
                    if any(w in f for w in ("score", "affinity", "probab")) and (n, f) not in listed:
                        others.append(f"{n}.{f}: {({k: str(v) for k, v in _constraint_of(fi).items()}) or 'unconstrained'}")
    if others:
        ctx.note("score-like fields outside the property's list (not required to be in [0,1]): " + "; ".join(sorted(others)))
    # the validators exist and run in the stated mode (informative; the behaviour is what the correspondence pins)
    for cls, name in [("ClipEvaluation", "_check_clips_match"), ("ClipEvaluation", "_check_matches"),
                      ("Match", "_validate_match"), ("AnnotationProject", "_annotations_are_part_of_the_project"),
                      ("Clip", "_validate_times")]:
        dec = getattr(getattr(D, cls, None), "__pydantic_decorators__", None)
        v = None if dec is None else dec.model_validators.get(name)
        ctx.tally(f"validator {cls}.{name}: " + ("missing" if v is None else v.info.mode))


# ------------------------------------------------------------------ tie 1b: the clip-time validator on symbolic numbers
class _ClipStub:
    """what an after-validator sees: the validated fields"""

    def __init__(self, s, e):
        self.start_time = s
        self.end_time = e
        self.uuid = U("c0")
        self.recording = None
        self.features = []

    @property
    def duration(self):
        return self.end_time - self.start_time


def _symbolic(ctx):
    import soundevent.data as D
    s, e = Sym.var("s"), Sym.var("e")
    decs = D.Clip.__pydantic_decorators__.model_validators
    if not decs:
        ctx.fail("obligation", "ext_clip_times", detail="Clip has no model validator any more", extra={"op": "clip"})
        return

    def thunk():
        # every model validator of Clip, in declaration order, on symbolic start / end
        for name, dec in decs.items():
            fn = dec.func
            if dec.info.mode == "before":
                values = {"uuid": U("c0"), "recording": None, "start_time": s, "end_time": e, "features": []}
                try:
                    fn(values)
                except TypeError:
                    fn(D.Clip, values)
            else:
                stub = _ClipStub(s, e)
                try:
                    fn(stub)
                except TypeError:
                    fn.__func__(stub) if hasattr(fn, "__func__") else fn(D.Clip, stub)
        return True
    ctx.sym_tie("ext_clip_times", thunk, ["s", "e"], "Bool",
                "(if SE.Relational.clipOk s e then some true else none)",
                tactic="unfold ext_clip_times SE.Relational.clipOk\n  se_close", meta={"op": "clip"})


# ------------------------------------------------------------------ tie 1b: the relational validators on symbolic identifiers
class SymId(Sym):
    """a symbolic identifier: only ever compared for equality; hashable (constant hash, so that every lookup in a
    `set` / `dict` / `Counter` decides by `==`, which asks the path oracle)"""
    __slots__ = ()

    def __hash__(self):
        return 0


def _sid(name):
    return SymId(name, lambda env, n=name: env[n])


class _Stub:
    """a validated object as an after-validator sees it: plain attributes"""

    def __init__(self, **kw):
        self.__dict__.update(kw)


def _model_validators(cls):
    dec = getattr(cls, "__pydantic_decorators__", None)
    return {} if dec is None else dict(dec.model_validators)


def _run_validators(cls, after_stub, before_values):
    """every model validator of `cls` (whatever its name), in declaration order: before-mode ones on the raw mapping,
    after-mode ones on the stub"""
    _forget_memos(cls)
    for _name, dec in _model_validators(cls).items():
        fn = dec.func
        if dec.info.mode == "before":
            try:
                fn(before_values)
            except TypeError:
                fn(cls, before_values)
        else:
            try:
                fn(after_stub)
            except TypeError:
                fn.__func__(after_stub) if hasattr(fn, "__func__") else fn(cls, after_stub)
    return True


_SHAPE_ERRORS = (AttributeError, TypeError, KeyError, IndexError, LookupError)


def _soft_sym_tie(ctx, name, thunk, variables, model_term, tactic, op):
    """a symbolic tie that depends on the shape of the validated object: when the current source can no longer be
    traced on the stub (it reads something the stub lacks, formats or hashes an identifier, keeps state between calls so
    that the paths do not close) the tie is reported as not re-established in the evidence and the exhaustive
    correspondence over the same shapes remains the tie; when it can be traced, the proof of equality with the model is
    an obligation like any other"""
    from .. import symtrace as st
    from ..leanio import InfraError
    try:
        src, _tree, n = st.extract(name, thunk, variables, "Bool", catch=(ValueError, AssertionError))
    except InfraError:
        raise
    except Exception as e:  # noqa: BLE001
        ctx.symbolic_ties[name] = {"not_re_established": repr(e)[:200]}
        ctx.tally("symbolic tie not re-established (shape): " + name.split("_n")[0])
        return
    ctx.symbolic_ties[name] = {"paths": n}
    ctx.obligation(name, st.tie_obligation(name, src, variables, model_term, (), tactic=tactic), {"op": op})


def _forget_memos(cls):
    """functools caches of the module that defines `cls` are emptied before a symbolic run: a (correct) memo keyed by the
    full input would otherwise carry symbolic keys from one path into the next"""
    import sys
    mod = sys.modules.get(getattr(cls, "__module__", ""), None)
    for v in list(vars(mod).values()) if mod is not None else []:
        clear = getattr(v, "cache_clear", None)
        if callable(clear):
            try:
                clear()
            except Exception:  # noqa: BLE001
                pass


SIDE_PATTERNS = [(1, 1), (0, 1), (1, 0), (0, 0)]


def _clip_eval_shapes(ctx):
    """(number of annotated, number of predicted, which sides each match has)"""
    ne = 2
    singles = [[m] for m in SIDE_PATTERNS]
    pairs = [list(c) for c in itertools.combinations_with_replacement(SIDE_PATTERNS[:3], 2)]
    shapes = []
    for na in range(ne + 1):
        for np_ in range(ne + 1):
            for ms in [[]] + singles + pairs:
                shapes.append((na, np_, ms))
    triples = [[(1, 1), (1, 1), (1, 1)], [(1, 1), (0, 1), (1, 0)], [(1, 1), (1, 1), (0, 1)], [(0, 1), (0, 1), (1, 0)]]
    for ms in triples:
        shapes.append((2, 2, ms))
        shapes.append((3, 2, ms))
    if not ctx.thorough():
        # quick: every shape with at most one match, and a seeded third of the rest
        rest = [sh for sh in shapes if len(sh[2]) > 1]
        shapes = [sh for sh in shapes if len(sh[2]) <= 1] + ctx.rng.sample(rest, len(rest) // 3)
    return shapes


def _sym_clip_eval(ctx):
    import soundevent.data as D
    if not _model_validators(D.ClipEvaluation):
        ctx.fail("obligation", "ext_clip_eval", detail="ClipEvaluation has no model validator any more", extra={"op": "clip_eval"})
        return
    n = 0
    for na, np_, ms in _clip_eval_shapes(ctx):
        names = ["ac", "pc"] + [f"a{i}" for i in range(na)] + [f"p{i}" for i in range(np_)]
        for k, (hs, ht) in enumerate(ms):
            names += ([f"s{k}"] if hs else []) + ([f"t{k}"] if ht else [])

        def thunk(na=na, np_=np_, ms=ms):
            anns = [_Stub(uuid=_sid(f"a{i}"), sound_event=_Stub(uuid=U(f"se:a{i}"))) for i in range(na)]
            preds = [_Stub(uuid=_sid(f"p{i}"), sound_event=_Stub(uuid=U(f"se:p{i}")), score=0.5, tags=[]) for i in range(np_)]
            matches = [_Stub(uuid=U(f"m{k}"), affinity=0.5, score=None, metrics=[],
                             source=_Stub(uuid=_sid(f"s{k}"), sound_event=_Stub(uuid=U(f"se:s{k}")), score=0.5, tags=[]) if hs else None,
                             target=_Stub(uuid=_sid(f"t{k}"), sound_event=_Stub(uuid=U(f"se:t{k}"))) if ht else None)
                       for k, (hs, ht) in enumerate(ms)]
            stub = _Stub(uuid=U("CE0"), score=None, metrics=[], matches=matches,
                         annotations=_Stub(uuid=U("CA0"), clip=_Stub(uuid=_sid("ac")), sound_events=anns, sequences=[], tags=[]),
                         predictions=_Stub(uuid=U("CP0"), clip=_Stub(uuid=_sid("pc")), sound_events=preds, sequences=[], tags=[]))
            values = {"uuid": U("CE0"), "annotations": stub.annotations, "predictions": stub.predictions, "matches": matches}
            return _run_validators(D.ClipEvaluation, stub, values)
        A = "[" + ", ".join(f"a{i}" for i in range(na)) + "]"
        P = "[" + ", ".join(f"p{i}" for i in range(np_)) + "]"
        M = "[" + ", ".join("(" + (f"some s{k}" if hs else "none") + ", " + (f"some t{k}" if ht else "none") + ")"
                            for k, (hs, ht) in enumerate(ms)) + "]"
        args = f"ac pc ({A} : List Rat) ({P} : List Rat) ({M} : List (Option Rat × Option Rat))"
        code = "".join(str(2 * hs + ht) for hs, ht in ms)
        name = f"ext_clip_eval_n{na}_{np_}_m{code or 'x'}"
        tactic = (f"have h := SE.Proofs.C04.C04_clip_eval_iff_subsets {args}\n"
                  f"  try simp [SE.Proofs.C04.targets, SE.Proofs.C04.sources] at h\n"
                  f"  unfold {name}\n  grind (splits := 60)")
        _soft_sym_tie(ctx, name, thunk, names, f"(if SE.Relational.clipEvalOk {args} then some true else none)", tactic, "clip_eval")
        n += 1
    ctx.tally("symbolic shapes: clip_eval", n)


def _sym_project(ctx):
    import soundevent.data as D
    if not _model_validators(D.AnnotationProject):
        ctx.fail("obligation", "ext_project", detail="AnnotationProject has no model validator any more", extra={"op": "project"})
        return
    n = 0
    for nt in range(4):
        for na in range(4):
            if nt + na > 5 or (nt + na == 0):
                continue
            names = [f"t{i}" for i in range(nt)] + [f"c{i}" for i in range(na)]

            def thunk(nt=nt, na=na):
                tasks = [_Stub(uuid=U(f"task{i}"), clip=_Stub(uuid=_sid(f"t{i}")), status_badges=[]) for i in range(nt)]
                cas = [_Stub(uuid=U(f"pca{i}"), clip=_Stub(uuid=_sid(f"c{i}")), sound_events=[], sequences=[], tags=[], notes=[])
                       for i in range(na)]
                stub = _Stub(uuid=U("PROJ"), name="p", description=None, instructions=None, annotation_tags=[], tasks=tasks,
                             clip_annotations=cas, created_on=DT)
                return _run_validators(D.AnnotationProject, stub, {"uuid": U("PROJ"), "name": "p", "tasks": tasks,
                                                                    "clip_annotations": cas})
            T = "[" + ", ".join(f"t{i}" for i in range(nt)) + "]"
            C = "[" + ", ".join(f"c{i}" for i in range(na)) + "]"
            args = f"({T} : List Rat) ({C} : List Rat)"
            name = f"ext_project_n{nt}_{na}"
            tactic = (f"have h := SE.Proofs.C04.C04_project_iff {args}\n  try simp at h\n  unfold {name}\n  grind (splits := 60)")
            _soft_sym_tie(ctx, name, thunk, names, f"(if SE.Relational.projectOk {args} then some true else none)", tactic, "project")
            n += 1
    ctx.tally("symbolic shapes: project", n)


def _sym_match_sides(ctx):
    """`Match`'s model validators on every pattern of absent / None / given sides: no identifier is inspected, so the
    patterns are all there is"""
    import soundevent.data as D
    if not _model_validators(D.Match):
        ctx.fail("obligation", "match sides", detail="Match has no model validator any more", extra={"op": "match"})
        return
    facts = []
    for sp, tp in itertools.product(("absent", "none", "given"), repeat=2):
        values = {"uuid": U("m0"), "affinity": 0.5}
        src = _Stub(uuid=U("p0")) if sp == "given" else None
        tgt = _Stub(uuid=U("a0")) if tp == "given" else None
        if sp != "absent":
            values["source"] = src
        if tp != "absent":
            values["target"] = tgt
        stub = _Stub(uuid=U("m0"), source=src, target=tgt, affinity=0.5, score=None, metrics=[])
        try:
            _run_validators(D.Match, stub, values)
            ok = True
        except (ValueError, AssertionError):
            ok = False
        except _SHAPE_ERRORS as e:
            ctx.symbolic_ties["match sides"] = {"not_re_established": repr(e)[:200]}
            ctx.tally("symbolic tie not re-established (shape): match sides")
            return
        ctx.tally(f"match sides {sp}/{tp}: " + ("accepted" if ok else "rejected"))
        facts.append(f"SE.Relational.matchSidesOk ({'some 0' if src else 'none'} : Option Rat) "
                     f"({'some 1' if tgt else 'none'} : Option Rat) = {'true' if ok else 'false'}")
    ctx.obligation("match sides", "example : " + " ∧\n    ".join(facts) + " := by decide", {"op": "match"})


# ------------------------------------------------------------------ tie 1b: the numbers the AOEF adapters hand to the constructors
class _Recorded:
    """what a replaced constructor of a data class returns: its keyword arguments"""

    def __init__(self, cls, kw):
        self.cls, self.kw = cls, kw
        self.uuid = kw.get("uuid")


class _DataProxy:
    """`soundevent.data` with the constructors of some classes replaced by recorders"""

    def __init__(self, real, names):
        self._real, self._names = real, names

    def __getattr__(self, name):
        if name in self._names:
            return lambda *a, **kw: _Recorded(name, kw) if not a else (_ for _ in ()).throw(TypeError("positional"))
        return getattr(self._real, name)


def _assemble_recorded(modname, adapter_cls, adapter_args, obj, replaced):
    """run `Adapter.assemble_soundevent(obj)` of the current source with the named data classes replaced by recorders"""
    import importlib
    import soundevent.data as real
    mod = importlib.import_module("soundevent.io.aoef." + modname)
    patched = []
    for g, v in list(vars(mod).items()):
        if v is real:
            patched.append((g, v))
            setattr(mod, g, _DataProxy(real, replaced))
        elif isinstance(v, type) and v.__name__ in replaced and getattr(real, v.__name__, None) is v:
            patched.append((g, v))
            setattr(mod, g, (lambda n: (lambda **kw: _Recorded(n, kw)))(v.__name__))
    if not patched:
        raise AttributeError(f"soundevent.io.aoef.{modname} does not reach the data classes through a module global")
    try:
        adapter = getattr(mod, adapter_cls)(*adapter_args)
        return adapter.assemble_soundevent(obj)
    finally:
        for g, v in patched:
            setattr(mod, g, v)


def _lookup_adapter(**objs):
    """a sub-adapter whose `from_id` resolves every id (the documents of the correspondence are self-contained)"""
    table = dict(objs)
    return _Stub(from_id=lambda i: table.get(i, _Stub(uuid=i)), to_soundevent=lambda o: o)


def _sym_aoef_numbers(ctx):
    x, y, z = Sym.var("x"), Sym.var("y"), Sym.var("z")
    anyad = _lookup_adapter()

    def clip():
        r = _assemble_recorded("clip", "ClipAdapter", (anyad,),
                               _Stub(uuid=U("c0"), recording=U("rec"), start_time=x, end_time=y, features=None), {"Clip"})
        return (r.kw["start_time"], r.kw["end_time"])

    def match():
        r = _assemble_recorded("match", "MatchAdapter", (anyad, anyad),
                               _Stub(uuid=U("m0"), source=U("p0"), target=None, affinity=x, score=y, metrics=None), {"Match"})
        return (r.kw["affinity"], r.kw["score"])

    def match_noscore():
        r = _assemble_recorded("match", "MatchAdapter", (anyad, anyad),
                               _Stub(uuid=U("m0"), source=None, target=U("a0"), affinity=x, score=None, metrics=None), {"Match"})
        if r.kw.get("score") is not None:
            raise ValueError("a score appeared")
        return r.kw["affinity"]

    def clip_eval():
        r = _assemble_recorded("clip_evaluation", "ClipEvaluationAdapter", (anyad, anyad, anyad, anyad),
                               _Stub(uuid=U("CE0"), annotations=U("CA0"), predictions=U("CP0"), matches=None, metrics=None, score=x),
                               {"ClipEvaluation"})
        return r.kw["score"]

    def prediction(modname, cls, ref, dcls):
        def thunk():
            obj = _Stub(uuid=U("p0"), score=x, tags=[(0, y), (1, z)], **{ref: U("ref")})
            r = _assemble_recorded(modname, cls, (anyad, anyad), obj, {dcls, "PredictedTag"})
            tags = r.kw["tags"]
            if len(tags) != 2:
                raise ValueError("tags dropped")
            return (r.kw["score"], tags[0].kw["score"], tags[1].kw["score"])
        return thunk

    def clip_tags():
        obj = _Stub(uuid=U("CP0"), clip=U("c0"), sound_events=None, sequences=None, tags=[(0, x), (1, y)], features=None)
        r = _assemble_recorded("clip_predictions", "ClipPredictionsAdapter", (anyad, anyad, anyad, anyad), obj,
                               {"ClipPrediction", "PredictedTag"})
        tags = r.kw["tags"]
        if len(tags) != 2:
            raise ValueError("tags dropped")
        return (tags[0].kw["score"], tags[1].kw["score"])

    R = "SE.Relational."
    ties = [
        ("ext_aoef_clip", clip, ["x", "y"], "Rat × Rat", f"some ({R}aoefClipArgs x y)", "clip"),
        ("ext_aoef_match", match, ["x", "y"], "Rat × Rat", f"some ({R}aoefMatchArgs x y)", "match"),
        ("ext_aoef_match_noscore", match_noscore, ["x"], "Rat", f"some ({R}aoefMatchArgs x 0).1", "match"),
        ("ext_aoef_clip_eval_score", clip_eval, ["x"], "Rat", f"some ({R}aoefEvalScoreArg x)", "unit"),
        ("ext_aoef_sound_event_prediction", prediction("sound_event_prediction", "SoundEventPredictionAdapter", "sound_event",
                                                       "SoundEventPrediction"),
         ["x", "y", "z"], "Rat × Rat × Rat", f"some ({R}aoefPredictionArgs x y z)", "unit"),
        ("ext_aoef_sequence_prediction", prediction("sequence_prediction", "SequencePredictionAdapter", "sequence",
                                                    "SequencePrediction"),
         ["x", "y", "z"], "Rat × Rat × Rat", f"some ({R}aoefPredictionArgs x y z)", "unit"),
        ("ext_aoef_clip_tags", clip_tags, ["x", "y"], "Rat × Rat", f"some ({R}aoefClipTagArgs x y)", "unit"),
    ]
    from .. import symtrace as st
    for name, thunk, variables, ret, model_term, op in ties:
        try:
            st.trace(thunk, catch=(ValueError,), max_paths=200)
        except Exception as e:  # noqa: BLE001 — the adapter no longer has the shape the stubs fit: the correspondence
            ctx.symbolic_ties[name] = {"not_re_established": repr(e)[:200]}      # through io.load remains the tie
            ctx.tally("symbolic tie not re-established (shape): " + name)
            continue
        unf = ", ".join(R + n for n in ("aoefClipArgs", "aoefMatchArgs", "aoefEvalScoreArg", "aoefPredictionArgs", "aoefClipTagArgs"))
        ctx.sym_tie(name, thunk, variables, ret, model_term, tactic=f"first | rfl | (simp [{name}, {unf}]; done)", meta={"op": op})


def _symbolic_relational(ctx):
    ctx.stage("symbolic clip_eval", _sym_clip_eval, ctx)
    ctx.stage("symbolic project", _sym_project, ctx)
    ctx.stage("symbolic match", _sym_match_sides, ctx)
    ctx.stage("symbolic aoef numbers", _sym_aoef_numbers, ctx)


# ------------------------------------------------------------------ generators
E = Fraction(1, 2 ** 52)
UNIT_VALUES = [(-E, "float"), (Fraction(0), "float"), (Fraction(0), "int"), (Fraction(0), "neg0"), (E, "float"),
               (Fraction(1, 2), "float"), (1 - E / 2, "float"), (Fraction(1), "float"), (Fraction(1), "int"),
               (1 + E, "float"), (Fraction(-1), "int"), (Fraction(2), "float"), (Fraction(1, 2), "str"),
               (1 + E, "str"), (-E, "str"), (Fraction(1), "str"), (Fraction(0), "str"),
               (-Fraction(1, 2 ** 1074), "float"), (Fraction(1, 2 ** 1074), "float")]      # the binary64 neighbours of 0


def _unit_cases(paths=PATHS):
    for field in UNIT_FIELDS:
        for path in paths:
            for x, form in UNIT_VALUES:
                yield {"field": field, "path": path, "x": rat(x), "form": form}
            if field in OPTIONAL_UNIT:
                yield {"field": field, "path": path, "x": None}


def _other_collection_cases():
    """the same boundary values through the other collection types of `soundevent.io.load`"""
    units, clips = [], []
    for kind, what in AOEF_KINDS.items():
        path = "aoef:" + kind
        if what == "pred":
            for field in PRED_UNIT_FIELDS:
                for x, form in UNIT_VALUES:
                    if form in ("float", "int"):
                        units.append({"field": field, "path": path, "x": rat(x), "form": form})
        for s_, e_ in itertools.product([Fraction(0), E, Fraction(1), 1 + E], repeat=2):
            clips.append({"path": path, "start": rat(s_), "end": rat(e_)})
    return units, clips


def _unit_malformed_cases():
    for field in UNIT_FIELDS:
        for path in PATHS:
            for v in ("nan", "inf", "-inf", "text", "list") + (() if field in OPTIONAL_UNIT else ("null",)):
                yield {"field": field, "path": path, "value": v}


NONFINITE = ["nan", "inf", "-inf"]


def _unit_f_cases():
    for field in UNIT_FIELDS:
        for path in PATHS:
            for x in NONFINITE:
                yield {"field": field, "path": path, "x": x, "form": "float"}
                if path != "aoef":      # AOEF tables hold numbers; a quoted number there is the regular lax parse
                    yield {"field": field, "path": path, "x": x, "form": "str"}
            yield {"field": field, "path": path, "x": "1/2", "form": "float"}


def _clip_f_cases():
    vals = NONFINITE + ["0", "1"]
    for s_, e_ in itertools.product(vals, repeat=2):
        if s_ not in NONFINITE and e_ not in NONFINITE:
            continue
        for path in PATHS:
            yield {"path": path, "start": s_, "end": e_}
            if path in ("dict", "json"):
                yield {"path": path, "start": s_, "end": e_, "start_form": "str", "end_form": "str"}


def _match_malformed_cases():
    for where in ("match", "clip_evaluation"):
        for path in ("dict", "json"):
            for v in ("list", "null", "text", "int", "pair", "nested-list"):
                yield {"where": where, "path": path, "value": v}


def _match_kinds(na, np_):
    S = [None] + [f"p{i}" for i in range(np_)] + ["pf"]
    T = [None] + [f"a{i}" for i in range(na)] + ["af"]
    return [(s, t) for s in S for t in T]


def _arrangements(max_events, max_matches):
    """every (na, np) <= max_events, every multiset of <= max_matches matches over all kinds (missing, duplicated,
    foreign, one-sided, null-null included)"""
    for na in range(max_events + 1):
        for np_ in range(max_events + 1):
            kinds = _match_kinds(na, np_)
            for k in range(max_matches + 1):
                for combo in itertools.combinations_with_replacement(kinds, k):
                    yield na, np_, combo


ALIASES = [None, "shared_se", "clip_content", "match_content", "same_obj"]


def _alias_for(path, alias):
    """an AOEF document holds one object per uuid: only the shared sound event can be expressed there"""
    if alias == "same_obj":       # one Python object in the clip annotation and in the match: only with live objects
        return alias if (path == "ctor" or path.startswith("attrs")) else None
    return alias if (path != "aoef" or alias == "shared_se") else None


def _arr_case(na, np_, combo, path, pred_clip="c0", nulls="absent", score=None, ann_ids=None, pred_ids=None,
              numbers=None, share=False, alias=None):
    return {"path": path, "ann_clip": "c0", "pred_clip": pred_clip, "nulls": nulls, "share": share,
            "alias": _alias_for(path, alias),
            "ann_ids": ann_ids if ann_ids is not None else [f"a{i}" for i in range(na)],
            "pred_ids": pred_ids if pred_ids is not None else [f"p{i}" for i in range(np_)],
            "matches": [{"source": s, "target": t, "affinity": (numbers or {}).get(("aff", i), "1/2"),
                         "score": (numbers or {}).get(("score", i))} for i, (s, t) in enumerate(combo)],
            "score": score}


def _clip_eval_cases(ctx, max_events, max_matches, sample=None):
    rng = ctx.rng
    arrs = list(_arrangements(max_events, max_matches))
    if sample is not None and len(arrs) > sample:
        arrs = rng.sample(arrs, sample)
    for na, np_, combo in arrs:
        combo = list(combo)
        rng.shuffle(combo)
        nulls = rng.choice(["absent", "explicit"])
        alias = rng.choice(ALIASES + [None, None])
        dup = len(set(combo)) < len(combo)
        for path in PATHS:
            yield _arr_case(na, np_, combo, path, nulls=nulls, alias=alias)
            if dup:      # the repeated match as one object listed twice
                yield _arr_case(na, np_, combo, path, nulls=nulls, share=True, alias=alias)


def _clip_eval_extras(ctx, n):
    """clip pairings, repeated list members, numbers out of range inside otherwise fine arrangements, longer lists"""
    rng = ctx.rng
    out = []
    # every accepted shape with the other clip, and a few rejected ones
    for na in range(3):
        for np_ in range(3):
            A = [f"a{i}" for i in range(na)]
            P = [f"p{i}" for i in range(np_)]
            unmatched = [(None, a) for a in A] + [(p, None) for p in P]
            paired = [(p, a) for p, a in zip(P, A)] + [(None, a) for a in A[np_:]] + [(p, None) for p in P[na:]]
            for combo in (unmatched, paired):
                for path in PATHS:
                    out.append(_arr_case(na, np_, combo, path, pred_clip="c1"))
                    # identity is the uuid of the annotation / prediction / clip, not the wrapped sound event, not the
                    # content of the object, not the Python object
                    for alias in ALIASES[1:]:
                        out.append(_arr_case(na, np_, combo, path, alias=alias))
                        out.append(_arr_case(na, np_, combo, path, alias=alias, pred_clip="c1"))
                    out.append(_arr_case(na, np_, combo, path, pred_clip="c0", score="1/2"))
                    out.append(_arr_case(na, np_, combo, path, score=rat(1 + E)))
                    out.append(_arr_case(na, np_, combo, path, score=rat(-E)))
                    if combo:
                        out.append(_arr_case(na, np_, combo, path, numbers={("aff", 0): rat(1 + E)}))
                        out.append(_arr_case(na, np_, combo, path, numbers={("score", len(combo) - 1): rat(-E)}))
                        out.append(_arr_case(na, np_, combo, path, numbers={("aff", 0): "1", ("score", 0): "0"}))
                        # the same sound event listed twice in the clip annotation / prediction
                        if A:
                            out.append(_arr_case(na, np_, combo, path, ann_ids=A + [A[0]]))
                        if P:
                            out.append(_arr_case(na, np_, combo, path, pred_ids=[P[0]] + P))
    for _ in range(n):
        na, np_ = rng.randint(0, 4), rng.randint(0, 4)
        kinds = _match_kinds(na, np_)
        A = [f"a{i}" for i in range(na)]
        P = [f"p{i}" for i in range(np_)]
        mode = rng.random()
        if mode < 0.5:      # start from a valid arrangement and disturb it a little
            rng.shuffle(P)
            k = rng.randint(0, min(na, np_))
            combo = [(P[i], A[i]) for i in range(k)] + [(None, a) for a in A[k:]] + [(p, None) for p in P[k:]]
            for _ in range(rng.choice([0, 0, 1, 1, 2])):
                r = rng.random()
                if r < 0.3 and combo:
                    combo.pop(rng.randrange(len(combo)))
                elif r < 0.6 and combo:
                    combo.append(rng.choice(combo))
                else:
                    combo.append(rng.choice(kinds))
        else:
            combo = [rng.choice(kinds) for _ in range(rng.randint(0, 6))]
        rng.shuffle(combo)
        path = rng.choice(PATHS)
        out.append(_arr_case(na, np_, combo, path, pred_clip=rng.choice(["c0", "c0", "c0", "c1"]),
                             nulls=rng.choice(["absent", "explicit"]), share=rng.random() < 0.3,
                             alias=rng.choice(ALIASES + [None, None])))
    return out


def _match_cases():
    for path in PATHS:
        for s in (None, "p0"):
            for t in (None, "a0"):
                for nulls in ("absent", "explicit"):
                    yield {"path": path, "source": s, "target": t, "affinity": "1/2", "score": None, "nulls": nulls}
                for aff, sc, form in [("0", "1", "float"), ("1", "0", "int"), (rat(1 + E), None, "float"), (rat(-E), None, "float"),
                                      ("1/2", rat(1 + E), "float"), ("1/2", rat(-E), "str"), ("1/2", "1/2", "str")]:
                    yield {"path": path, "source": s, "target": t, "affinity": aff, "score": sc, "form": form}


def _project_cases(max_tasks, max_anns):
    clips = ["c0", "c1", "c2"]
    for nt in range(max_tasks + 1):
        for tc in itertools.product(clips, repeat=nt):
            for na in range(max_anns + 1):
                for ac in itertools.product(clips, repeat=na):
                    for path in PATHS:
                        yield {"path": path, "task_clips": list(tc), "ann_clips": list(ac)}
                        if path != "aoef" and na:      # membership is by uuid of the clip, not by its content
                            yield {"path": path, "task_clips": list(tc), "ann_clips": list(ac), "alias": "clip_content"}


CLIP_TIMES = [Fraction(-1), Fraction(0), E, Fraction(1, 2), Fraction(1), 1 + E, Fraction(2), Fraction(9), Fraction(10)]


def _clip_cases(forms):
    for s, e in itertools.product(CLIP_TIMES, repeat=2):
        for path in PATHS:
            for sf, ef in forms:
                if (sf == "int" and s.denominator != 1) or (ef == "int" and e.denominator != 1):
                    continue
                yield {"path": path, "start": rat(s), "end": rat(e), "start_form": sf, "end_form": ef}
    for path in PATHS:
        yield {"path": path, "start": "0", "end": "0", "start_form": "float", "end_form": "neg0"}
        yield {"path": path, "start": "0", "end": "0", "start_form": "neg0", "end_form": "float"}


def _malformed_cases():
    vals = ["<missing>", None, "abc", 1.0, "2", 3]
    for path in ("ctor", "dict", "json"):
        for a, b in itertools.product(vals, repeat=2):
            if all(isinstance(v, (int, float)) or (isinstance(v, str) and v.isdigit()) for v in (a, b)):
                continue      # both numeric: the regular clip operation covers these
            yield {"path": path, "start_time": a, "end_time": b}


# ------------------------------------------------------------------ generators: identifiers shared across kinds
def _shared_arrangements(universe, max_matches, foreign=True):
    """annotated and predicted sound events draw their identifiers from one universe (a prediction may carry the uuid
    of an annotation): every pair of sub-lists, every multiset of <= max_matches matches over (universe + none)^2 — an
    identifier that is only annotated is foreign as a source and vice versa"""
    subs = [list(c) for k in range(len(universe) + 1) for c in itertools.combinations(universe, k)]
    side = [None] + list(universe) + (["pf"] if foreign else [])
    kinds = [(s_, t_) for s_ in side for t_ in side]
    for A in subs:
        for P in subs:
            for k in range(max_matches + 1):
                for combo in itertools.combinations_with_replacement(kinds, k):
                    yield A, P, combo


def _shared_cases(ctx, universe, max_matches, paths=PATHS, sample=None, foreign=False):
    rng = ctx.rng
    arrs = list(_shared_arrangements(universe, max_matches, foreign))
    if sample is not None and len(arrs) > sample:
        arrs = rng.sample(arrs, sample)
    for A, P, combo in arrs:
        combo = list(combo)
        rng.shuffle(combo)
        nulls = rng.choice(["absent", "explicit"])
        for path in paths:
            yield _arr_case(0, 0, combo, path, nulls=nulls, ann_ids=list(A), pred_ids=list(P),
                            alias=rng.choice([None, None, "shared_se", "same_obj", "match_content"]))


def _rename_shared(case, mode):
    """the same arrangement with predicted sound events carrying identifiers of annotated ones:
    "pair": p_i is renamed a_i; "cross": p_i is renamed a_{i+1 mod n} (the prediction matched with one annotation carries
    the uuid of another); "foreign": the foreign source carries the uuid of a0 and the foreign target the uuid of p0"""
    na = len(case["ann_ids"])
    if mode == "pair":
        ren_s = {f"p{i}": f"a{i}" for i in range(8)}
        ren_t = {}
    elif mode == "cross":
        ren_s = {f"p{i}": f"a{(i + 1) % max(na, 1)}" for i in range(8)}
        if len(set(ren_s[p] for p in case["pred_ids"])) < len(case["pred_ids"]):
            ren_s = {f"p{i}": f"a{i}" for i in range(8)}
        ren_t = {}
    else:
        ren_s, ren_t = {"pf": "a0"}, {"af": "p0"}
    c = copy.deepcopy(case)
    c["pred_ids"] = [ren_s.get(p, p) for p in c["pred_ids"]]
    c["ann_ids"] = [ren_t.get(a, a) for a in c["ann_ids"]]
    for m in c["matches"]:
        if m.get("source") is not None:
            m["source"] = ren_s.get(m["source"], m["source"])
        if m.get("target") is not None:
            m["target"] = ren_t.get(m["target"], m["target"])
    return c


# ------------------------------------------------------------------ generators: products of options
def _family():
    """representative arrangements: accepted and rejected ones of every kind"""
    P = lambda *ms: list(ms)      # noqa: E731
    return [
        (0, 0, P()), (1, 0, P((None, "a0"))), (0, 1, P(("p0", None))), (1, 1, P(("p0", "a0"))),
        (2, 2, P(("p0", "a0"), ("p1", "a1"))), (2, 1, P(("p0", "a1"), (None, "a0"))),
        (2, 2, P(("p0", "a0"), ("p1", "a0"))),                  # duplicate target, missing a1
        (1, 1, P(("p0", "a0"), ("p0", "a0"))),                  # the same match twice
        (1, 1, P(("p0", None))),                                # missing target
        (1, 1, P(("p0", "a0"), ("pf", None))),                  # foreign source
        (1, 0, P((None, "a0"), (None, "af"))),                  # foreign target
        (1, 1, P(("p0", "a0"), (None, None))),                  # null-null match
    ]


PRODUCT_DIMS = {
    "path": PATHS + ["attrs:ns", "attrs:namedtuple"],
    "nulls": ["absent", "explicit"],
    "alias": ALIASES,
    "share": [False, True],
    "cont": [None, "tuple", "nested", "rev"],
    "shared": [None, "pair", "cross", "foreign"],
    "pred_clip": ["c0", "c1"],
    "load_call": [None, "positional"],
    "score": [None, "1/2", "0", "1"],          # the optional numbers given or not
    "mscore": [None, "1"],
    "rich": [False, True],                      # the optional fields next to the validated ones filled in or not
    "twice": [False, True],                     # the caller's mapping validated a second time
}


def _product_cases(ctx, full=False):
    """every pair of option values with every representative arrangement (the remaining options drawn at random);
    `full`: the whole product"""
    rng = ctx.rng
    names = list(PRODUCT_DIMS)
    out = []

    def mk(fam, opt):
        na, np_, combo = fam
        c = _arr_case(na, np_, combo, opt["path"], pred_clip=opt["pred_clip"], nulls=opt["nulls"], share=opt["share"],
                      alias=opt["alias"], score=opt["score"],
                      numbers={("score", i): opt["mscore"] for i in range(len(combo))} if opt["mscore"] else None)
        if opt["rich"] and opt["path"] != "aoef":
            c["rich"] = True
        if opt["twice"] and opt["path"] == "dict":
            c["twice"] = True
        if opt["cont"]:
            c["cont"] = opt["cont"]
        if opt["load_call"] and opt["path"] == "aoef":
            c["load_call"] = opt["load_call"]
        if opt["shared"]:
            c = _rename_shared(c, opt["shared"])
        return c
    for fam in _family():
        if full:
            for vals in itertools.product(*PRODUCT_DIMS.values()):
                out.append(mk(fam, dict(zip(names, vals))))
            continue
        for i, j in itertools.combinations(range(len(names)), 2):
            for vi in PRODUCT_DIMS[names[i]]:
                for vj in PRODUCT_DIMS[names[j]]:
                    opt = {n: rng.choice(v) for n, v in PRODUCT_DIMS.items()}
                    opt[names[i]], opt[names[j]] = vi, vj
                    out.append(mk(fam, opt))
    return out


# ------------------------------------------------------------------ generators: sizes at which an implementation could switch strategy
SIZES_QUICK = [16, 17, 256, 257, 1024, 1025]
SIZES_THOROUGH = [15, 16, 17, 255, 256, 257, 1023, 1024, 1025, 2049]


def _size_cases(ctx):
    out, proj = [], []
    sizes = SIZES_THOROUGH if ctx.thorough() else SIZES_QUICK
    for n in sizes:
        A = [f"a{i}" for i in range(n)]
        P = [f"p{i}" for i in range(n)]
        perfect = [(p, a) for p, a in zip(P, A)]
        unmatched = [(None, a) for a in A] + [(p, None) for p in P]
        fams = {
            "perfect": (A, P, perfect), "unmatched": (A, P, unmatched),
            "missing-last": (A, P, perfect[:-1] + [(P[-1], None)]),
            "missing-first": (A, P, [(P[0], None)] + perfect[1:]),
            "dup-last": (A, P, perfect + [(None, A[-1])]),
            "dup-swapped": (A, P, perfect[:-2] + [(P[-2], A[-1]), (P[-1], A[-1])]),      # one twice, one never: equal counts
            "foreign": (A, P, perfect + [("pf", None)]),
            "shared-ids": (A, A, [(a, a) for a in A]),
            "shared-ids-one-sided": (A, A, [(a, a) for a in A[:-1]] + [(A[-1], None)]),
            "listed-twice": (A + [A[0]], P, perfect),
        }
        all_paths = n in (17, 257, 1025)
        for fam, (a_, p_, combo) in fams.items():
            if not ctx.thorough() and not all_paths and fam not in ("perfect", "missing-last", "dup-swapped", "dup-last"):
                continue          # quick: every family just above a threshold, the main ones at it
            paths = ["ctor"]
            if all_paths and fam in ("perfect", "missing-last", "dup-swapped", "shared-ids-one-sided"):
                paths = PATHS if (n < 1000 or ctx.thorough()) else (["ctor", "dict", "json"] if fam in ("perfect", "dup-swapped") else ["ctor"])
            for path in paths:
                out.append(_arr_case(0, 0, combo, path, ann_ids=list(a_), pred_ids=list(p_)))
        clips = [f"k{i}" for i in range(n)]
        for tc, ac in ((clips, clips), (clips, [clips[-1]]), (clips[:-1], clips), (clips, clips + ["c1"]), (clips[1:], [clips[0]]),
                       (clips + clips, clips)):
            for path in (PATHS if all_paths else ["ctor"]):
                proj.append({"path": path, "task_clips": list(tc), "ann_clips": list(ac)})
    return out, proj


# ------------------------------------------------------------------ generators: tolerance-sized offsets, ties, lattices
def _fl(x):
    """exact rational of the binary64 nearest to x"""
    return Fraction(float(x))


LADDER = [Fraction(1, 2 ** 52), Fraction(1, 10 ** 15), Fraction(1, 10 ** 12), Fraction(1, 10 ** 9), Fraction(1, 10 ** 8),
          Fraction(1, 10 ** 6), Fraction(1, 10 ** 5), Fraction(1, 10 ** 3)]
MAGNITUDES = [Fraction(1, 10 ** 9), Fraction(3, 10), Fraction(1), Fraction(10), Fraction(3600), Fraction(10 ** 6), Fraction(2 ** 40),
              Fraction(10 ** 15), Fraction(-1), Fraction(-3600)]


def _clip_ladder_cases(paths=PATHS):
    """start and end a tolerance-sized distance apart (relative 2^-52 ... 10^-3, and one unit in the last place), at small
    and large magnitudes, in both orders, and the exact ties"""
    import math
    seen = set()
    for m in MAGNITUDES:
        a = _fl(m)
        others = {_fl(math.nextafter(float(a), math.inf)), _fl(math.nextafter(float(a), -math.inf)), a}
        for d in LADDER:
            others.add(_fl(float(a) * (1 + float(d))))
            others.add(_fl(float(a) * (1 - float(d))))
            others.add(_fl(float(a) + float(d)))       # absolute offsets
            others.add(_fl(float(a) - float(d)))
        for b in sorted(others):
            for s_, e_ in ((a, b), (b, a)):
                if (s_, e_) in seen:
                    continue
                seen.add((s_, e_))
                for path in paths:
                    yield {"path": path, "start": rat(s_), "end": rat(e_)}
    z = [Fraction(0), Fraction(1, 2 ** 1074), Fraction(1, 10 ** 300).limit_denominator(10 ** 300)]
    for d in LADDER:
        for s_, e_ in ((_fl(d), Fraction(0)), (Fraction(0), _fl(d)), (Fraction(0), -_fl(d)), (-_fl(d), Fraction(0))):
            for path in paths:
                yield {"path": path, "start": rat(s_), "end": rat(e_)}
    for path in paths:
        yield {"path": path, "start": rat(z[1]), "end": "0"}
        yield {"path": path, "start": "0", "end": rat(z[1])}


def _unit_ladder_values():
    import math
    vals = {Fraction(0), Fraction(1), _fl(math.nextafter(1.0, 0.0)), _fl(math.nextafter(1.0, 2.0))}
    for d in LADDER:
        for v in (float(d), -float(d), 1 + float(d), 1 - float(d)):
            vals.add(_fl(v))
    return sorted(vals)


def _unit_ladder_cases(paths=PATHS):
    for field in UNIT_FIELDS:
        for path in paths:
            for x in _unit_ladder_values():
                yield {"field": field, "path": path, "x": rat(x), "form": "float"}


def _unit_lattice_cases():
    """every hundredth from -0.02 to 1.02 (the nearest binary64 values: a non-dyadic axis) and every 1/64"""
    vals = sorted({_fl(k / 100) for k in range(-2, 103)} | {Fraction(k, 64) for k in range(-1, 66)})
    for field in UNIT_FIELDS:
        for x in vals:
            yield {"field": field, "path": "ctor", "x": rat(x), "form": "float"}
    for field in ("Match.affinity", "PredictedTag.score@clip", "SequencePrediction.score"):
        for x in vals:
            for path in ("json", "aoef"):
                yield {"field": field, "path": path, "x": rat(x), "form": "float"}


# ------------------------------------------------------------------ generators: unusual but legitimate ways of passing the input
FORM_VALUES = [Fraction(0), Fraction(1, 2), Fraction(1), 1 + E, -E, Fraction(2), Fraction(-1), 1 + Fraction(1, 2 ** 23),
               1 - Fraction(1, 2 ** 24), -Fraction(1, 2 ** 149), 1 + Fraction(1, 2 ** 10), Fraction(1, 2 ** 24)]


def _unit_form_cases():
    for field in UNIT_FIELDS:
        for x in FORM_VALUES:
            for form in UNUSUAL_FORMS:
                if not form_ok(rat(x), form):
                    continue
                for path in ("ctor", "dict") + (("attrs:ns",) if field in ATTR_UNIT_FIELDS else ()):
                    yield {"field": field, "path": path, "x": rat(x), "form": form}
    for field in ATTR_UNIT_FIELDS:
        for kind in ATTR_KINDS:
            for x, form in UNIT_VALUES:
                if form in ("float", "int"):
                    yield {"field": field, "path": "attrs:" + kind, "x": rat(x), "form": form}


def _clip_form_cases():
    vals = [Fraction(0), Fraction(1), Fraction(2), 1 + E, Fraction(1, 2), 1 + Fraction(1, 2 ** 23), Fraction(-1)]
    for s_, e_ in itertools.product(vals, repeat=2):
        for sf in UNUSUAL_FORMS:
            for ef in (sf, "float"):
                if form_ok(rat(s_), sf) and form_ok(rat(e_), ef):
                    for path in ("ctor", "dict", "attrs:ns"):
                        yield {"path": path, "start": rat(s_), "end": rat(e_), "start_form": sf, "end_form": ef}
    for s_, e_ in itertools.product(CLIP_TIMES, repeat=2):
        for kind in ATTR_KINDS:
            yield {"path": "attrs:" + kind, "start": rat(s_), "end": rat(e_)}
        yield {"path": "dict", "start": rat(s_), "end": rat(e_), "cont": "nested"}
        yield {"path": "dict", "start": rat(s_), "end": rat(e_), "twice": True}
        yield {"path": "aoef", "start": rat(s_), "end": rat(e_), "load_call": "positional"}


def _match_form_cases():
    for s_ in (None, "p0"):
        for t_ in (None, "a0"):
            for x in FORM_VALUES:
                for form in UNUSUAL_FORMS:
                    if form_ok(rat(x), form):
                        for path in ("ctor", "dict"):
                            yield {"path": path, "source": s_, "target": t_, "affinity": rat(x), "score": None, "form": form}
                            if form_ok("1", form):
                                yield {"path": path, "source": s_, "target": t_, "affinity": "1", "score": rat(x), "form": form}
    for c in _match_cases():
        if c["path"] == "dict":
            yield {**c, "twice": True}
    # a match between a prediction and an annotation that carry one uuid
    for path in PATHS:
        yield {"path": path, "source": "a0", "target": "a0", "affinity": "1/2", "score": None}
        yield {"path": path, "source": "a0", "target": None, "affinity": "1/2", "score": None}


def _project_unusual_cases():
    clips = ["c0", "c1", "c2"]
    for nt in range(3):
        for tc in itertools.product(clips, repeat=nt):
            for na in range(3):
                for ac in itertools.product(clips, repeat=na):
                    for kind in ("ns", "namedtuple", "slots"):
                        yield {"path": "attrs:" + kind, "task_clips": list(tc), "ann_clips": list(ac)}
                    for path, cont in (("ctor", "tuple"), ("dict", "tuple"), ("dict", "rev"), ("json", "rev"), ("aoef", "rev")):
                        yield {"path": path, "task_clips": list(tc), "ann_clips": list(ac), "cont": cont}
                    yield {"path": "aoef", "task_clips": list(tc), "ann_clips": list(ac), "load_call": "positional"}
                    for path in ("ctor", "dict", "json"):
                        yield {"path": path, "task_clips": list(tc), "ann_clips": list(ac), "rich": True}
                    yield {"path": "dict", "task_clips": list(tc), "ann_clips": list(ac), "twice": True}


def _clip_eval_attr_cases(ctx):
    for na, np_, combo in _arrangements(2, 2):
        kind = ctx.rng.choice(ATTR_KINDS)
        yield _arr_case(na, np_, list(combo), "attrs:" + kind, alias=ctx.rng.choice(ALIASES))
    for fam in _family():
        for kind in ATTR_KINDS:
            yield _arr_case(fam[0], fam[1], fam[2], "attrs:" + kind)


# ------------------------------------------------------------------ generators: sessions and histories
def _rows(pairs):
    return [{"source": s_, "target": t_, "affinity": "1/2", "score": None} for s_, t_ in pairs]


def _valid_matching(rng, A, P):
    P2 = list(P)
    rng.shuffle(P2)
    k = rng.randint(0, min(len(A), len(P2)))
    pairs = [(P2[i], A[i]) for i in range(k)] + [(None, a) for a in A[k:]] + [(p, None) for p in P2[k:]]
    rng.shuffle(pairs)
    return pairs


def _scripted_sessions():
    """an object is used, changed (every way of changing it), used again with the old matches and with the matches of
    what it holds now; for copies also the original again — both kinds of object, every construction path"""
    out = []
    changes = [("set", how) for how in SET_HOWS] + [("copy", how) for how in SHALLOW_COPIES + DEEP_COPIES]
    directions = {"grow": (["x0"], ["x0", "x1"]), "shrink": (["x0", "x1"], ["x0"]), "replace": (["x0"], ["x1"]),
                  "fill": ([], ["x0"]), "reorder": (["x0", "x1"], ["x1", "x0"])}
    k = 0
    for kind in ("ann", "pred"):
        for what, how in changes:
            for dname, (old, new) in directions.items():
                path = EVAL_PATHS[k % len(EVAL_PATHS)]
                via = ("ctor", "dict", "json", "aoef")[k % 4]
                k += 1
                pre = "a" if kind == "ann" else "p"
                o_ids = [pre + x[1:] for x in old]
                n_ids = [pre + x[1:] for x in new]
                other = ["p0"] if kind == "ann" else ["a0"]

                def matching(ids):
                    A, P = (ids, other) if kind == "ann" else (other, ids)
                    pairs = [(p, a) for p, a in zip(P, A)] + [(None, a) for a in A[len(P):]] + [(p, None) for p in P[len(A):]]
                    return _rows(pairs)
                hk, ho = (0, 1)
                steps = [{"do": "new", "h": hk, "kind": kind, "clip": "c0", "ids": o_ids, "via": via},
                         {"do": "new", "h": ho, "kind": "pred" if kind == "ann" else "ann", "clip": "c0", "ids": other, "via": "ctor"}]

                def ev(h_changed, ids_for_matches, path=path, **kw):
                    a_, p_ = (h_changed, ho) if kind == "ann" else (ho, h_changed)
                    return {"do": "eval", "ann": a_, "pred": p_, "matches": matching(ids_for_matches), "score": None, "path": path, **kw}
                steps.append(ev(hk, o_ids))
                if what == "set":
                    steps.append({"do": "set_ids", "h": hk, "ids": n_ids, "how": how})
                    steps += [ev(hk, o_ids), ev(hk, n_ids), ev(hk, o_ids, path="ctor")]
                else:
                    steps.append({"do": "copy", "src": hk, "dst": 2, "ids": n_ids, "how": how})
                    steps += [ev(2, o_ids), ev(2, n_ids), ev(hk, o_ids), ev(hk, n_ids, path="ctor")]
                    if how in DEEP_COPIES:      # a copy that keeps the list, then changed in place
                        steps += [{"do": "copy", "src": hk, "dst": 3, "ids": None, "how": how},
                                  {"do": "set_ids", "h": 3, "ids": n_ids, "how": "append"},
                                  ev(3, o_ids), ev(3, n_ids), ev(hk, o_ids)]
                out.append({"steps": steps})
    return out


def _random_session(rng):
    names = {"ann": ["a0", "a1", "a2", "a3"], "pred": ["p0", "p1", "p2", "a0", "a1"]}      # predictions may carry annotation uuids
    content, past = {}, {}
    steps = []

    def some_ids(kind):
        ids = [n for n in names[kind] if rng.random() < 0.45]
        rng.shuffle(ids)
        if ids and rng.random() < 0.08:
            ids.append(ids[0])        # the same sound event listed twice
        return ids

    def bind(hd, kind, clip, ids):
        content[hd] = (kind, clip, list(ids))
        past.setdefault(hd, []).append(list(ids))
    for hd, kind in ((0, "ann"), (1, "pred")):
        ids = some_ids(kind)
        steps.append({"do": "new", "h": hd, "kind": kind, "clip": "c0", "ids": ids, "via": rng.choice(["ctor", "ctor", "dict", "json", "aoef"])})
        bind(hd, kind, "c0", ids)
    n_ev = 0
    while n_ev < rng.randint(3, 7) and len(steps) < 24:
        r = rng.random()
        hs = sorted(content)
        if r < 0.5:
            a_ = rng.choice([h_ for h_ in hs if content[h_][0] == "ann"])
            p_ = rng.choice([h_ for h_ in hs if content[h_][0] == "pred"])
            q = rng.random()
            A = content[a_][2] if q < 0.6 or len(past[a_]) < 2 else rng.choice(past[a_])      # matches of what it held before
            P = content[p_][2] if q < 0.6 or len(past[p_]) < 2 else rng.choice(past[p_])
            pairs = _valid_matching(rng, A, P)
            if rng.random() < 0.2 and pairs:
                pairs.pop(rng.randrange(len(pairs)))
            if rng.random() < 0.1 and pairs:
                pairs.append(rng.choice(pairs))
            rows = _rows(pairs)
            if rows and rng.random() < 0.08:
                rows[0]["affinity"] = rat(1 + E)
            steps.append({"do": "eval", "ann": a_, "pred": p_, "matches": rows, "path": rng.choice(EVAL_PATHS),
                          "score": rng.choice([None, None, "1/2"]), "match_objs": rng.choice(["fresh", "fresh", "reuse"]),
                          "poison": rng.random() < 0.3})
            n_ev += 1
        elif r < 0.72:
            hd = rng.choice(hs)
            kind, clip, ids = content[hd]
            q = rng.random()
            if q < 0.4:
                new = ids + [n for n in names[kind] if n not in ids][:rng.randint(1, 2)]
            elif q < 0.6 and ids:
                new = ids[:-1]
            else:
                new = some_ids(kind)
            steps.append({"do": "set_ids", "h": hd, "ids": new, "how": rng.choice(SET_HOWS)})
            bind(hd, kind, clip, new)
        elif r < 0.9:
            src = rng.choice(hs)
            kind, clip, ids = content[src]
            dst = rng.choice(hs + [max(hs) + 1, max(hs) + 1])
            if dst != src and content.get(dst, (kind,))[0] != kind:
                dst = max(hs) + 1
            if dst == src:
                dst = max(hs) + 1
            how = rng.choice(SHALLOW_COPIES + DEEP_COPIES)
            new = some_ids(kind) if (how in SHALLOW_COPIES or rng.random() < 0.6) else None
            steps.append({"do": "copy", "src": src, "dst": dst, "ids": new, "how": how})
            past[dst] = list(past.get(src, []))
            bind(dst, kind, clip, ids if new is None else new)
        else:
            hd = rng.choice(hs)
            kind, clip, ids = content[hd]
            new_clip = "c1" if clip == "c0" else "c0"
            steps.append({"do": "set_clip", "h": hd, "clip": new_clip, "how": "assign"})
            content[hd] = (kind, new_clip, ids)
    return {"steps": steps}


def _neighbours(op):
    """inputs that share every identity with x (the same uuids) and are decided differently or hold other content"""
    def unit(x, rng):
        return [{**x, "x": v, "form": "float"} for v in ("0", "1", "1/2", rat(1 + E), rat(-E), "1/4") if v != x["x"]]

    def clip(x, rng):
        x = {**x, "start_form": "float", "end_form": "float"}
        up = rat(_fl(float(Fraction(x["end"])) + 1))
        return [{**x, "start": x["end"], "end": x["start"]}, {**x, "start": x["end"]}, {**x, "end": up}, {**x, "start": up}]

    def match(x, rng):
        return [{**x, "source": None if x.get("source") else "p0"}, {**x, "target": None if x.get("target") else "a0"},
                {**x, "affinity": rat(1 + E)}, {**x, "affinity": "1/4"}, {**x, "source": None, "target": None}]

    def project(x, rng):
        out = [{**x, "task_clips": x["task_clips"][:-1]}, {**x, "ann_clips": x["ann_clips"] + ["c2"]},
               {**x, "task_clips": x["task_clips"] + ["c2"]}, {**x, "ann_clips": x["ann_clips"][:-1]},
               {**x, "task_clips": list(reversed(x["ann_clips"])), "ann_clips": list(x["task_clips"])}]
        return [o for o in out if o != x]

    def clip_eval(x, rng):
        out = []
        ms = x["matches"]
        if ms:
            out.append({**x, "matches": ms[:-1]})
            out.append({**x, "matches": ms + [copy.deepcopy(ms[0])]})
        out.append({**x, "pred_clip": "c1" if x["pred_clip"] == "c0" else "c0"})
        out.append({**x, "ann_ids": x["ann_ids"] + ["a3"]})
        out.append({**x, "ann_ids": x["ann_ids"] + ["a3"], "matches": ms + [{"source": None, "target": "a3", "affinity": "1/2", "score": None}]})
        out.append({**x, "pred_ids": x["pred_ids"] + ["p3"], "matches": ms + [{"source": "p3", "target": None, "affinity": "1/2", "score": None}]})
        return out
    return {"unit": unit, "clip": clip, "match": match, "project": project, "clip_eval": clip_eval}[op]


def _stage_histories(ctx):
    """state carried between calls: sessions on live objects that are changed and used again (model: runHistory), and
    consecutive constructions of every kind on the same uuids (x, a neighbour of x, x again; results poisoned; earlier
    results read again)"""
    rng = ctx.rng
    sessions = _scripted_sessions() + [_random_session(rng) for _ in range(ctx.budget(400, 3000))]
    sessions = [h for h in sessions if _session_valid(h)]
    for h in sessions:
        for st in h["steps"]:
            ctx.tally("session step: " + st["do"] + (":" + st["how"] if st.get("how") else "")
                      + (":" + st["path"] if st.get("path") else ""))
    _SKIPPED[0] = 0
    ctx.run_cases(OPS["clip_eval_history"], sessions)
    if _SKIPPED[0]:
        ctx.tally("sessions not carried out (the code does not allow a change step)", _SKIPPED[0])
        if _SKIPPED[0] > len(sessions) // 2:
            ctx.note(f"{_SKIPPED[0]} of {len(sessions)} sessions could not be carried out: the objects do not allow the change steps")
    ctx.exhaustive["sessions"] = ("object kind (annotation / prediction) x every way of changing sound_events (" + ", ".join(SET_HOWS)
                                  + "; copies: " + ", ".join(SHALLOW_COPIES + DEEP_COPIES) + ") x grow / shrink / replace / fill / "
                                  "reorder, construction paths " + ", ".join(EVAL_PATHS) + " in rotation")

    def tally(name, hs):
        for h in hs:
            for st in h["seq"]:
                ctx.tally(f"history {name}: " + (st.get("reuse") or "fresh") + ("+poison" if st.get("poison") else ""))
    n = ctx.budget(60, 600)
    unit = [c for c in _unit_cases() if c.get("form", "float") == "float"]
    hs = history.sequences(rng, rng.sample(unit, min(len(unit), 4 * n)), 2 * n, variants=_neighbours("unit"), poison=True)
    tally("unit", hs)
    ctx.run_cases(OPS["unit_seq"], hs)
    clips = [c for c in _clip_cases([("float", "float")])]
    hs = history.sequences(rng, rng.sample(clips, min(len(clips), 2 * n)), n, variants=_neighbours("clip"), poison=True)
    tally("clip", hs)
    ctx.run_cases(OPS["clip_seq"], hs)
    ms = [c for c in _match_cases() if c.get("form", "float") == "float"]
    hs = history.sequences(rng, ms, n, variants=_neighbours("match"), poison=True)
    tally("match", hs)
    ctx.run_cases(OPS["match_seq"], hs)
    pj = list(_project_cases(2, 2))
    hs = history.sequences(rng, rng.sample(pj, min(len(pj), 3 * n)), 2 * n, variants=_neighbours("project"),
                           reuse_hows=PROJECT_REUSE, poison=True)
    tally("project", hs)
    ctx.run_cases(OPS["project_history"], hs)
    ce = []
    for fam in _family():
        for path in PATHS + ["attrs:ns"]:
            ce.append(_arr_case(fam[0], fam[1], fam[2], path))
            ce.append(_rename_shared(_arr_case(fam[0], fam[1], fam[2], path), "pair"))
    hs = history.sequences(rng, ce, 2 * n, variants=_neighbours("clip_eval"), poison=True)
    tally("clip_eval", hs)
    ctx.run_cases(OPS["clip_eval_seq"], hs)


def _stage_shared_ids(ctx):
    if ctx.thorough():
        ctx.run_cases(OPS["clip_eval"], _shared_cases(ctx, ["a0", "a1"], 3))
        ctx.run_cases(OPS["clip_eval"], _shared_cases(ctx, ["a0", "a1"], 4, paths=["ctor"]))
        ctx.run_cases(OPS["clip_eval"], _shared_cases(ctx, ["a0", "a1", "a2"], 2))
        ctx.run_cases(OPS["clip_eval"], _shared_cases(ctx, ["a0", "a1", "a2"], 2, foreign=True, paths=["ctor", "json"]))
        ctx.exhaustive["identifiers shared across kinds"] = (
            "annotated and predicted sound events with identifiers from one universe: every pair of sub-lists of 2 identifiers "
            "x every multiset of <= 3 matches over (universe + none)^2 x 4 paths (<= 4 matches through the constructor), and of "
            "3 identifiers x <= 2 matches x 4 paths (with a foreign identifier through constructor and JSON)")
    else:
        ctx.run_cases(OPS["clip_eval"], _shared_cases(ctx, ["a0", "a1"], 2))
        ctx.run_cases(OPS["clip_eval"], _shared_cases(ctx, ["a0", "a1"], 3, paths=["ctor", "json"], sample=500))
        ctx.run_cases(OPS["clip_eval"], _shared_cases(ctx, ["a0", "a1", "a2"], 2, foreign=True, sample=300))
        ctx.exhaustive["identifiers shared across kinds"] = (
            "annotated and predicted sound events with identifiers from one universe of 2: every pair of sub-lists x every "
            "multiset of <= 2 matches over (universe + none)^2, x 4 paths; samples of the 3-match and 3-identifier scopes")
    # every arrangement of the small exhaustive scope once more with the predictions renamed to annotation identifiers
    extra = []
    for na, np_, combo in _arrangements(2, 2):
        base = _arr_case(na, np_, list(combo), ctx.rng.choice(PATHS))
        for mode in ("pair", "cross", "foreign"):
            extra.append(_rename_shared(base, mode))
    ctx.run_cases(OPS["clip_eval"], extra)


def _stage_products(ctx):
    ctx.run_cases(OPS["clip_eval"], _product_cases(ctx, full=False))
    if ctx.thorough():
        full = _product_cases(ctx, full=True)
        ctx.run_cases(OPS["clip_eval"], ctx.rng.sample(full, min(len(full), 20000)))
    ctx.exhaustive["option products"] = ("every pair of values of " + ", ".join(f"{k} ({len(v)})" for k, v in PRODUCT_DIMS.items())
                                         + f" with each of {len(_family())} representative arrangements")


def _stage_sizes(ctx):
    ce, pj = _size_cases(ctx)
    for c in ce:
        ctx.tally(f"size {len(c['ann_ids'])} ({c['path']})")
    ctx.run_cases(OPS["clip_eval"], ce)
    ctx.run_cases(OPS["project"], pj)
    ctx.exhaustive["sizes"] = ("perfect / all-unmatched / one missing / one duplicated / duplicated+missing / foreign / shared "
                               "identifiers / listed twice with " + ", ".join(map(str, SIZES_THOROUGH if ctx.thorough() else SIZES_QUICK))
                               + " sound events (all four paths at 17, 257, 1025); projects with as many tasks")


def _stage_boundaries(ctx):
    ctx.run_cases(OPS["clip"], _clip_ladder_cases())
    ctx.run_cases(OPS["unit"], _unit_ladder_cases())
    ctx.run_cases(OPS["unit"], _unit_lattice_cases())
    ctx.exhaustive["tolerance ladders"] = (
        "clip start / end one ulp and relative / absolute 2^-52, 1e-15 ... 1e-3 apart in both orders and exactly tied, at "
        "magnitudes 1e-9 ... 1e15 and negative, x 4 paths; scores at the same distances on both sides of 0 and of 1 on every "
        "score-like field x 4 paths; every hundredth and every 1/64 of [-0.02, 1.02]")


def _stage_unusual(ctx):
    ctx.run_cases(OPS["unit"], _unit_form_cases())
    ctx.run_cases(OPS["clip"], _clip_form_cases())
    ctx.run_cases(OPS["match"], _match_form_cases())
    ctx.run_cases(OPS["project"], _project_unusual_cases())
    ctx.run_cases(OPS["clip_eval"], _clip_eval_attr_cases(ctx))
    ctx.exhaustive["unusual inputs"] = (
        "numbers as " + ", ".join(UNUSUAL_FORMS) + " (where the value is representable) on every score-like field, clip times "
        "and match numbers; objects with attributes (" + ", ".join(ATTR_KINDS) + ") through model_validate(from_attributes); "
        "tuples for lists, nested mappings / instances, reversed key and table order, io.load called positionally")


# ------------------------------------------------------------------ run
def run(ctx):
    import time
    inner = ctx.stage
    times = {}

    def timed(name, fn, *a, **kw):
        t0 = time.time()
        try:
            return inner(name, fn, *a, **kw)
        finally:
            times[name] = times.get(name, 0.0) + time.time() - t0
    ctx.stage = timed
    try:
        _run(ctx)
    finally:
        ctx.stage = inner
        if os.environ.get("VERIF_STAGE_TIMES"):
            print("stage seconds: " + ", ".join(f"{k} {v:.1f}" for k, v in times.items()), file=__import__("sys").stderr)


def _run(ctx):
    ctx.stage("corpus", ctx.run_corpus, OPS)
    ctx.stage("tables", _tables, ctx)
    ctx.stage("symbolic-ties", _symbolic, ctx)
    ctx.stage("symbolic-relational", _symbolic_relational, ctx)
    ctx.stage("discharge", ctx.discharge, ["SoundeventModel.Relational", "SoundeventModel.Tactics", "Proofs.C04"])
    ctx.stage("templates", _self_test, ctx)
    ctx.stage("unit", lambda: ctx.run_cases(OPS["unit"], _unit_cases()))
    ctx.stage("unit-malformed", lambda: ctx.run_cases(OPS["unit_malformed"], _unit_malformed_cases()))
    ctx.stage("match", lambda: ctx.run_cases(OPS["match"], _match_cases()))
    ctx.stage("clip", _stage_clip, ctx)
    ctx.stage("non-finite", _stage_nonfinite, ctx)
    ctx.stage("other-collections", _stage_other_collections, ctx)
    ctx.stage("project", _stage_project, ctx)
    ctx.stage("clip-eval", _stage_clip_eval, ctx)
    ctx.stage("shared-identifiers", _stage_shared_ids, ctx)
    ctx.stage("option-products", _stage_products, ctx)
    ctx.stage("sizes", _stage_sizes, ctx)
    ctx.stage("boundaries", _stage_boundaries, ctx)
    ctx.stage("unusual-inputs", _stage_unusual, ctx)
    ctx.stage("histories", _stage_histories, ctx)
    ctx.tally("aoef documents loaded", _LOADS[0])


def _self_test(ctx):
    """the unedited templates load: a rejection on the AOEF path is then due to the edit"""
    _load_doc(json.loads(_evaluation_template()), "evaluation")
    _load_doc(json.loads(_project_template()), "annotation_project")


def _stage_clip(ctx):
    forms = [("float", "float"), ("int", "int"), ("str", "str"), ("float", "str"), ("str", "int")]
    ctx.run_cases(OPS["clip"], _clip_cases(forms))
    ctx.exhaustive["clip"] = (f"{len(CLIP_TIMES)}^2 start/end pairs (incl. equal, 2^-52 apart, negative) x number forms "
                              "(float, int, numeric string, mixed) x 4 paths")
    ctx.run_cases(OPS["clip_malformed"], _malformed_cases())


def _stage_other_collections(ctx):
    for kind in AOEF_KINDS:
        _load_doc(json.loads(_collection_template(kind)), kind)       # the unedited templates load
    units, clips = _other_collection_cases()
    ctx.run_cases(OPS["unit"], units)
    ctx.run_cases(OPS["clip"], clips)
    ctx.exhaustive["other collection types"] = ("score-like fields of predictions and clip times around the boundaries through "
                                                "io.load of " + ", ".join(AOEF_KINDS))


def _stage_nonfinite(ctx):
    ctx.run_cases(OPS["unit_f"], _unit_f_cases())
    ctx.run_cases(OPS["clip_f"], _clip_f_cases())
    ctx.run_cases(OPS["match_malformed"], _match_malformed_cases())
    ctx.exhaustive["non-finite"] = ("nan / inf / -inf on every score-like field and every pair of clip times with at least one "
                                    "non-finite value, as float and as text, x 4 paths")


def _stage_project(ctx):
    t, a = (3, 2) if not ctx.thorough() else (3, 3)
    ctx.run_cases(OPS["project"], _project_cases(t, a))
    ctx.exhaustive["project"] = f"task clips: every list of <= {t} of 3 clips; annotated clips: every list of <= {a}; x 4 paths"


def _stage_clip_eval(ctx):
    if ctx.thorough():
        ctx.run_cases(OPS["clip_eval"], _clip_eval_cases(ctx, 3, 4))
        ctx.exhaustive["clip_eval"] = ("every arrangement of <= 3 annotated and <= 3 predicted sound events with every multiset "
                                       "of <= 4 matches over {none, each event, a foreign event}^2, x 4 paths")
    else:
        ctx.run_cases(OPS["clip_eval"], _clip_eval_cases(ctx, 2, 3))
        ctx.run_cases(OPS["clip_eval"], _clip_eval_cases(ctx, 3, 4, sample=600))
        ctx.exhaustive["clip_eval"] = ("every arrangement of <= 2 annotated and <= 2 predicted sound events with every multiset "
                                       "of <= 3 matches over {none, each event, a foreign event}^2, x 4 paths; 600 sampled "
                                       "arrangements of the 3+3 / 4-match scope")
    ctx.run_cases(OPS["clip_eval"], _clip_eval_extras(ctx, ctx.budget(1500, 20000)))


def search(ctx, failures):
    """a table / symbolic obligation or a stage broke: put the boundary values on every field and path again, and
    the clip grid with every number form"""
    ctx.run_cases(OPS["unit"], _unit_cases())
    forms = [("float", "float"), ("int", "int"), ("str", "str"), ("float", "str"), ("str", "int"), ("int", "float")]
    ctx.run_cases(OPS["clip"], _clip_cases(forms))
    ctx.run_cases(OPS["match"], _match_cases())
    ctx.run_cases(OPS["clip_eval"], _clip_eval_cases(ctx, 2, 2))
    ctx.run_cases(OPS["clip_eval"], _shared_cases(ctx, ["a0", "a1"], 2))
    ctx.run_cases(OPS["project"], _project_cases(2, 2))
    ctx.run_cases(OPS["clip_eval_history"], [h for h in _scripted_sessions() if _session_valid(h)])
    ctx.run_cases(OPS["clip"], _clip_ladder_cases(["ctor", "aoef"]))
