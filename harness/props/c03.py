"""C03 — Geometry validation accepts exactly the valid geometries and normalises them."""
import itertools
import json
import types
import typing
from fractions import Fraction

from ..core import Op
from ..leanio import InfraError
from ..rat import rat
from .. import symtrace as st
from ..symtrace import Sym

PROPERTY = "C03"
LEAN_MODULE = "Proofs.C03"
_T = "SE.Proofs.C03."
THEOREMS = [_T + n for n in [
    "C03_result", "C03_accept_iff", "C03_no_crash", "C03_reject", "C03_validate_eq", "C03_specB_iff",
    "C03_normal", "C03_valid", "C03_valid_iff_constructible", "C03_coordinates_kept", "C03_box_swapped",
    "C03_line_reversed", "C03_interval_reversed_rejected", "C03_multiline_strict", "C03_normalise_idempotent",
    "C03_fixpoint", "C03_dump_injective",
    "C03_table_wellFormed", "C03_wellFormedB_sound", "C03_geometryValidate_eq", "C03_construct_eq",
    "C03_entrypoints_agree", "C03_bad_tag_rejected", "C03_class_of_tag", "C03_dump_roundtrip",
    "C03_construct_roundtrip",
    "C03_point_boundary", "C03_accept_zero", "C03_accept_max_frequency", "C03_reject_above_max",
    "C03_reject_negative", "C03_reject_deep_inside", "C03_reject_deep_inside_line",
    "C03_reject_wrong_arity", "C03_reject_wrong_nesting",
    "C03_holds_complete", "C03_holds_sound",
    # review additions: every rule of the wording per class in elementary terms; geom_type() / the construction
    # of GEOMETRY_MAPPING; the `Geometry` union (the construction path of every model holding a geometry);
    # an existing instance handed to geometry_validate (known finding C03-2)
    "C03_accept_dump_iff", "C03_shape_required", "C03_timestamp_iff", "C03_interval_iff", "C03_box_iff",
    "C03_linestring_iff", "C03_multipoint_iff", "C03_polygon_iff", "C03_multilinestring_iff",
    "C03_multipolygon_iff",
    "C03_membersOkB_sound", "C03_buildTable_wellFormed", "C03_union_unique", "C03_union_eq", "C03_union_agrees",
    "C03_union_rejects", "C03_union_valid",
    "C03_instance_passthrough", "C03_instance_revalidate_partial", "C03_instance_wrong_mode",
    # follow-up (histories and construction paths): class-level entry points; Python's attribute lookup (where an
    # attribute object keeps `type` / `coordinates`); geometry objects that came out of a construction handed back
    # in; Python's argument binding under the extracted signatures; histories
    "C03_class_entrypoints_agree", "C03_class_foreign_tag", "C03_attr_lookup", "C03_attr_missing",
    "C03_carrier_get", "C03_carriers_agree", "C03_instance_of_constructed", "C03_union_instance_of_constructed",
    "C03_call_styles", "C03_ctor_keyword_order",
    "C03_history_stateless", "C03_history_prefix_independent", "C03_history_repeat"]]
LEVEL_TEXT = ("Lean theorems over an executable model of the nine geometry classes (pydantic's typed parse of the "
              "annotated shape, then the class's field validators in the code's order and control flow) and of "
              "geometry_validate's mode/tag dispatch: for all rational coordinate structures, construction succeeds iff "
              "the declarative wording accepts (and otherwise fails with a validation error, never a crash), the result "
              "is the input normalised (box swapped, backwards line string reversed), is in normal form, valid, of the "
              "class named by its tag, and a fixpoint of dump/re-validate; the constructor and the three modes agree, and "
              "so does validation against the `Geometry` union (the path by which geometries enter SoundEvent and AOEF "
              "objects); per class the acceptance condition is proved in elementary terms; the table built from "
              "geom_type() over the class list is well formed. The class-level entry points (model_validate, "
              "model_validate_json, from_attributes) agree with the constructor; the attributes mode is modelled through "
              "Python's attribute lookup (data descriptor, instance __dict__, class attribute, __getattr__), so every "
              "kind of attribute object is proved to be read alike; calls are modelled through Python's argument binding "
              "under the signature extracted from the code (positional, keyword, either keyword order, defaulted mode all "
              "run the body on the same arguments; constructor keywords in either order); a history of calls is proved to "
              "be the list of the models of its calls whatever state a process threads through. "
              "Every class's validator chain is re-derived from the source on each run by path-exhaustive symbolic "
              "tracing at fixed shapes and proved equal to the model for all coordinate values; GEOMETRY_MAPPING and "
              "MAX_FREQUENCY are re-extracted and discharged as obligations; exhaustive small structures and random "
              "structures are run differentially through all four entry points.")
LEVEL_NOTE = ("Trusted: Lean kernel; symbolic tracer (ordered-field semantics); pydantic-core's typed parsing of "
              "numbers and lists, its handling of `from_attributes`, of Literal/default fields, of unions, of existing "
              "instances and of ValueError inside validators (modelled, and exercised un-stubbed by the differential "
              "runs); CPython json and float repr round trip. Model tied to the code by regenerated obligations (fixed "
              "shapes up to 4 points / 2 rings / 2 parts; GEOMETRY_MAPPING, geom_type(), ALL_GEOMETRY_TYPES, the members "
              "of the Geometry union, MAX_FREQUENCY, the signatures of geometry_validate and of the nine constructors) and "
              "generator-bounded correspondence. That the code reads an attribute object only through getattr, copies "
              "the lists it is given and keeps no state between calls is not proved of Python: it is exercised (21 kinds "
              "of attribute object, histories with reused / mutated arguments, poisoned and re-read results, argument "
              "snapshots). Containers other than lists (tuples, numpy arrays, deques) and numpy scalars are generated "
              "because pydantic's lax mode accepts them today; they carry no model of their own (same numbers, same "
              "answer). Unmodelled: non-numeric inputs (strings, booleans: pydantic's lax coercions); numpy arrays with a "
              "trailing dimension of 1 (numpy converts a size-1 array to a float); tag-less inputs of the union; integers "
              "beyond 2^53 (rounded by int->float). Non-finite floats have no rational value: the property is evaluated "
              "on them directly on the real objects (known finding C03-1: NaN / +inf times accepted, dumped as null). "
              "Known finding C03-2: an existing instance is handed back unvalidated by the attributes mode "
              "(C03_instance_passthrough; C03_instance_revalidate_partial holds for valid instances).")
TECHNIQUE = ("Lean 4 proof over model; per-class validator chains symbolically traced and proved equal to the model; "
             "table and signature obligations by decide; exhaustive small-structure and random correspondence through "
             "every entry point, way of passing and kind of attribute object; histories of calls in one process")
RULE = ("exhaustive shape universes (all nestings to depth 3), exhaustive value tuples over the boundary pool for the "
        "flat classes, exhaustive point sequences, every leaf of nested bases replaced by every pool value, arity / "
        "nesting / count / order mutations, random structures; each through constructor and geometry_validate in "
        "dict / json / attributes mode; construction paths: every sample x 21 kinds of attribute object (where `type` / "
        "`coordinates` live: instance, class body, property, slot, named tuple, __getattr__, shadowed; geometry objects "
        "from constructor / model_copy / deepcopy / model_validate(_json) / pickle) x 6 call styles (positional, keyword, "
        "all keywords, reversed keywords, default mode, obj= alone) x the 3 exported names, class-level model_validate / "
        "model_validate_json (lax, strict) / from_attributes, tuples / numpy arrays / deques for lists, ints / numpy "
        "int64 / float64 / float32 / -0.0 for floats, the union as SoundEvent.geometry (python and JSON); boundaries: "
        "every pinned comparison with operands one ulp, 2^-20..2^-40, 1e-6..1e-12 apart on both sides and equal, at "
        "magnitudes 0..2^40, every k/100 lattice point, 17 / 257 / 1024 / 1025 points or members; histories: 3-5 calls "
        "in one process (x, a neighbour of x, x again) over all entry points with argument objects changed in place "
        "and reused, returned geometries poisoned, earlier results re-read after later calls, arguments snapshotted "
        "around every call - every step judged by the model of its call alone (SE.Validate.history); "
        "non-trivial = the implementation accepted the input (an object exists); "
        "distinct = distinct (operation, input)")
TRUSTED = ["pydantic-core: typed parse of float / List[...] in python and attribute mode, Literal + default handling, "
           "ValueError inside a field validator becomes ValidationError, other exceptions propagate; smart-mode unions "
           "try every member; an instance of the requested class is returned as it is",
           "CPython json.dumps/json.loads and float repr round trip (json mode)",
           "symbolic tracer: the validator chain is taken from cls.__pydantic_decorators__.field_validators (order, mode)",
           "CPython: attribute lookup order and argument binding are as modelled (Where.get, bindArgs); inspect.signature "
           "reports the signature calls are bound against",
           "pydantic-core: lax lists accept tuples / numpy arrays / deques, lax floats accept ints and numpy scalars, "
           "without changing the numbers; the jiter JSON parser reads the repr of a float back to that float"]
ASSUMPTIONS = ["model inputs are finite numbers: ints with |n| <= 2^53, binary64 floats, numpy.float64 / float32 / int64, in (nested) "
               "lists (or tuples, numpy arrays with rows of >= 2 numbers, deques)",
               "ordered-field semantics for the symbolic tie (validators only compare, no arithmetic)"]
NOT_COMPARED = ["error messages (only the error class)", "python type of the stored numbers (int inputs become floats)",
                "non-numeric inputs (strings, booleans) and tag-less union inputs: not generated",
                "numpy arrays with a trailing dimension of 1 (numpy lets float() take a size-1 array, so pydantic reads "
                "[[1.0], [2.0]] as a pair): numpy's coercion, outside `numeric coordinate structure`; not generated",
                "identity of returned objects (a geometry instance may be handed back as it is); only contents are compared",
                "key order of dumps / field declaration order (keyword-only)",
                "non-finite floats: no model value; judged by the property's own clauses on the real objects"]

TYPES = ["TimeStamp", "TimeInterval", "Point", "LineString", "Polygon", "BoundingBox",
         "MultiPoint", "MultiLineString", "MultiPolygon"]
DEPTH = {"TimeStamp": 0, "TimeInterval": 1, "Point": 1, "BoundingBox": 1, "LineString": 2, "MultiPoint": 2,
         "Polygon": 3, "MultiLineString": 3, "MultiPolygon": 4}
CTOR = {"TimeStamp": ".timeStamp", "TimeInterval": ".timeInterval", "Point": ".point", "LineString": ".lineString",
        "Polygon": ".polygon", "BoundingBox": ".boundingBox", "MultiPoint": ".multiPoint",
        "MultiLineString": ".multiLineString", "MultiPolygon": ".multiPolygon"}
MODEL_FN = {"TimeStamp": "vTimeStamp", "TimeInterval": "fvTimeInterval", "Point": "vPoint",
            "LineString": "fvLineString", "Polygon": "vPolygon", "BoundingBox": "vBoundingBox",
            "MultiPoint": "vMultiPoint", "MultiLineString": "fvMultiLineString", "MultiPolygon": "vMultiPolygon"}
MODEL_MAXF = 5_000_000
MODES = ["dict", "json", "attributes"]


# ---------------------------------------------------------------- raw coordinate structures
# leaves: "n/d" (a binary64 float with exactly that value), "i<n>" (a Python int), "f<n/d>" (a numpy.float64 - a
# subclass of float), "g<n/d>" (a numpy.float32 holding exactly that value), "l<n>" (a numpy.int64), "z0" (the float
# -0.0: equal to 0, so neither negative nor out of range); lists nest freely
class NpF(Fraction):
    """marks a leaf that is handed to the code as numpy.float64"""


class Np32(Fraction):
    """marks a leaf that is handed to the code as numpy.float32 (the value is a float32 value)"""


class NpI(int):
    """marks a leaf that is handed to the code as numpy.int64"""


class NegZero(Fraction):
    """marks the float -0.0"""


MARKS = "ifglz"


def enc(x):
    if isinstance(x, list):
        return [enc(y) for y in x]
    if isinstance(x, bool):
        raise TypeError("bool")
    if isinstance(x, NpI):
        return f"l{int(x)}"
    if isinstance(x, int):
        return f"i{x}"
    if isinstance(x, NegZero):
        return "z0"
    if isinstance(x, NpF):
        return "f" + rat(Fraction(x))
    if isinstance(x, Np32):
        return "g" + rat(Fraction(x))
    return rat(x)


def to_py(raw, plain=False):
    """the Python value handed to the code (`plain`: numpy scalars as the Python numbers of the same value - what a
    caller has to do before json.dumps, which refuses numpy.float32 / numpy.int64)"""
    if isinstance(raw, list):
        return [to_py(x, plain) for x in raw]
    mark = raw[:1] if isinstance(raw, str) and raw[:1] in MARKS else ""
    if mark == "z":
        return -0.0
    if mark in ("i", "l"):
        n = int(raw[1:])
        if mark == "l" and not plain:
            import numpy
            return numpy.int64(n)
        return n
    q = Fraction(raw[1:] if mark else raw)
    f = float(q)
    if Fraction(f) != q:
        raise InfraError(f"generator produced {raw}, which is not a binary64 value")
    if mark == "f" and not plain:
        import numpy
        return numpy.float64(f)
    if mark == "g":
        import numpy
        g = numpy.float32(f)
        if Fraction(float(g)) != q:
            raise InfraError(f"generator produced {raw}, which is not a binary32 value")
        return float(g) if plain else g
    return f


def to_model_raw(raw):
    if isinstance(raw, list):
        return [to_model_raw(x) for x in raw]
    if isinstance(raw, str) and raw[:1] in MARKS:
        return raw[1:]
    return raw


SEQS = ("list", "tuple", "mixed", "ndarray", "deque", "shared")


def restyle(v, seq, depth=0):
    """the same numbers in other containers the annotation `List[...]` accepts today (pydantic's lax mode): tuples,
    tuples and lists alternating, numpy arrays (rectangular structures only, else tuples), deques"""
    if seq in (None, "list") or not isinstance(v, list):
        return v
    if seq == "shared":         # equal content as one shared object: [p, q, p] with the very same list p twice
        memo = {}

        def intern(x):
            if not isinstance(x, list):
                return x
            y = [intern(z) for z in x]
            return memo.setdefault(repr(y), y)
        return intern(v)
    if seq == "ndarray":
        import numpy

        def rect(x):
            if not isinstance(x, list):
                return ()
            shapes = {rect(y) for y in x}
            if len(shapes) > 1 or None in shapes:
                return None
            return (len(x),) + (shapes.pop() if shapes else ())
        shp = rect(v)
        # (a size-1 array also converts to a float - `float(numpy.array([1.0]))` - so pydantic reads `[[1.0], [2.0]]` as
        # the pair (1.0, 2.0): numpy's doing, outside "numeric coordinate structure"; only rows of >= 2 numbers here)
        if shp is not None and len(v) > 0 and 0 not in shp and shp[-1] >= 2:
            return numpy.array(v, dtype=float)
        seq = "tuple"
    if seq == "deque":
        import collections
        return collections.deque(restyle(x, "list") for x in v) if depth == 0 else v
    items = [restyle(x, seq, depth + 1) for x in v]
    if seq == "tuple" or (seq == "mixed" and depth % 2 == 0):
        return tuple(items)
    return items


def enc_out(v):
    if isinstance(v, (list, tuple)):
        return [enc_out(x) for x in v]
    return rat(v)


# ---------------------------------------------------------------- the implementation, four entry points
def _monitor(g):
    """facts about an accepted object that only the real code can show: class identity and the
    re-validation of its own dumps"""
    from soundevent import data
    mon = {}
    try:
        cls = getattr(data, g.type, None)
        mon["instance_of_class_named_by_tag"] = bool(isinstance(cls, type) and isinstance(g, cls)
                                                     and type(g).__name__ == g.type)
    except Exception as e:  # noqa: BLE001
        mon["instance_of_class_named_by_tag"] = repr(e)[:120]
    checks = [("json_dump_revalidates_equal", lambda: data.geometry_validate(g.model_dump_json(), mode="json")),
              ("dict_dump_revalidates_equal", lambda: data.geometry_validate(g.model_dump(), mode="dict")),
              ("object_revalidates_equal", lambda: data.geometry_validate(g, mode="attributes"))]
    ta = _union_adapter()
    if ta is not None:      # the `Geometry` union: the path by which a geometry enters SoundEvent / AOEF objects
        checks.append(("union_dump_revalidates_equal", lambda: ta.validate_python(g.model_dump())))
        # the object itself handed to a field annotated `Geometry` (SoundEvent(geometry=g)): an equal geometry
        checks.append(("union_instance_kept_equal", lambda: ta.validate_python(g)))
    for name, thunk in checks:
        try:
            r = thunk()
            mon[name] = bool(type(r) is type(g) and r.type == g.type and r.coordinates == g.coordinates)
        except Exception as e:  # noqa: BLE001
            mon[name] = repr(e)[:120]
    return mon


def _canon(g):
    return {"val": {"type": g.type, "cls": type(g).__name__, "coordinates": enc_out(g.coordinates)},
            "mon": _monitor(g)}


def _impl_construct(inp):
    from soundevent import data
    cls = getattr(data, inp["cls"])
    kw = {}
    if "coordinates" in inp["kw"] and inp.get("call") == "kwrev":      # keywords in the other order
        kw["coordinates"] = restyle(to_py(inp["kw"]["coordinates"]), inp.get("seq"))
    if "type" in inp["kw"]:
        kw["type"] = inp["kw"]["type"]
    if "coordinates" in inp["kw"] and "coordinates" not in kw:
        kw["coordinates"] = restyle(to_py(inp["kw"]["coordinates"]), inp.get("seq"))
    return _canon(cls(**kw))


EXTRA = {"id": "7", "coordinate": [1.0, 2.0], "Type": "Point", "uuid": None}


def _py_fields(fields, seq=None, plain=False):
    d = {}
    if fields.get("extra"):          # keys / attributes the classes do not declare: ignored
        d.update(EXTRA)
    if "type" in fields:
        d["type"] = fields["type"]
    if "coordinates" in fields:
        d["coordinates"] = restyle(to_py(fields["coordinates"], plain), None if plain else seq)
    return d


# ---- attribute objects that are not plain namespaces (HISTORIES.md section 2; seeded C03-9): where the two
# attributes live.  `_layout` tells the Lean model the same thing (SE.Validate.AttrObj), `getattr` is computed there.
CARRIERS = ("ns", "plain", "dc", "dc_default", "dc_frozen", "cls_type", "cls_both", "props", "slots", "dc_slots",
            "namedtuple", "typed_nt", "getattr", "shadow", "prop_shadow",
            "geom", "geom_copy", "geom_deepcopy", "geom_mv", "geom_mvj", "geom_pickle")
OTHER_TAG = {"TimeStamp": "Point"}


def _other_tag(t):
    return OTHER_TAG.get(t, "TimeStamp")


def _eff_carrier(carrier, d):
    """the carrier actually used: some cannot omit an attribute (named tuples, dataclass fields), geometry instances
    need both and a class of that name that accepts the coordinates"""
    full = "type" in d and "coordinates" in d
    if carrier in (None, "ns"):
        return "ns"
    if carrier.startswith("geom"):
        return carrier if full and d["type"] in TYPES and not d.get("__extra__") else "ns"
    if carrier in ("dc", "dc_frozen", "dc_slots", "namedtuple", "typed_nt", "cls_both", "shadow", "prop_shadow", "dc_default"):
        return carrier if full else "plain"
    if carrier == "cls_type":
        return carrier if "type" in d else "plain"
    return carrier


def _attr_obj(carrier, d):
    """an object exposing the entries of `d` as attributes in the way `carrier` says"""
    try:
        return _attr_obj_(carrier, d)
    except InfraError:
        raise
    except Exception as e:  # noqa: BLE001 - the harness failed to build its own input: never an observation of the code
        raise InfraError(f"attribute object {carrier!r} could not be built: {e!r}")


def _attr_obj_(carrier, d):
    import collections
    import dataclasses
    extra = {k: v for k, v in d.items() if k not in ("type", "coordinates")}
    t, c = d.get("type"), d.get("coordinates")
    has_t, has_c = "type" in d, "coordinates" in d
    carrier = _eff_carrier(carrier, d if not extra else {**d, "__extra__": True})
    if carrier == "ns":
        return types.SimpleNamespace(**d)
    if carrier == "plain":
        class Row:
            def __init__(self, **kw):
                for k, v in kw.items():
                    setattr(self, k, v)
        return Row(**d)
    if carrier in ("dc", "dc_frozen", "dc_slots", "dc_default"):
        flds = [("coordinates", object)]
        flds.append(("type", str, dataclasses.field(default=t)) if carrier == "dc_default" else ("type", str))
        flds += [(k, object, dataclasses.field(default_factory=lambda v=v: v)) for k, v in extra.items() if k.isidentifier()]
        D = dataclasses.make_dataclass("Row", flds, frozen=carrier == "dc_frozen", slots=carrier == "dc_slots")
        return D(coordinates=c) if carrier == "dc_default" else D(coordinates=c, type=t)
    if carrier == "cls_type":
        Row = type("Row", (), {"type": t})
        row = Row()
        for k, v in d.items():
            if k != "type":
                setattr(row, k, v)
        return row
    if carrier == "cls_both":
        return type("Row", (), dict(d))()
    if carrier == "props":          # read-only properties over private fields; an absent attribute raises
        ns = {"_d": dict(d)}
        for name in set(d) | {"type", "coordinates"}:
            def getter(self, name=name):
                if name not in self._d:
                    raise AttributeError(name)
                return self._d[name]
            ns[name] = property(getter)
        return type("Row", (), ns)()
    if carrier == "slots":          # an unassigned slot raises AttributeError
        Row = type("Row", (), {"__slots__": tuple(sorted(set(d) | {"type", "coordinates"}))})
        row = Row()
        for k, v in d.items():
            setattr(row, k, v)
        return row
    if carrier == "namedtuple":
        names = ["type", "coordinates"] + [k for k in extra if k.isidentifier() and not k.startswith("_")]
        return collections.namedtuple("Row", names)(**{k: d[k] for k in names})
    if carrier == "typed_nt":
        return typing.NamedTuple("Row", [("coordinates", object), ("type", str)])(coordinates=c, type=t)
    if carrier == "getattr":
        class Dyn:
            def __getattr__(self, name):
                if name in d:
                    return d[name]
                raise AttributeError(name)
        return Dyn()
    if carrier == "shadow":         # the class body names another class; the instance attribute overrides it
        Row = type("Row", (), {"type": _other_tag(t), "coordinates": [-1.0]})
        row = Row()
        for k, v in d.items():
            setattr(row, k, v)
        return row
    if carrier == "prop_shadow":    # properties; the instance __dict__ holds other values, which getattr never sees
        ns = {"type": property(lambda self: t), "coordinates": property(lambda self: c)}
        row = type("Row", (), ns)()
        row.__dict__["type"] = _other_tag(t)
        row.__dict__["coordinates"] = [-1.0]
        return row
    if carrier.startswith("geom"):
        # an existing geometry object that came out of a construction path (C03_instance_of_constructed); where the
        # construction refuses the coordinates there is no such object: a namespace instead
        import copy
        import pickle
        from soundevent import data
        cls = getattr(data, t, None)
        try:
            if carrier == "geom_mv":
                g = cls.model_validate({"type": t, "coordinates": c})
            elif carrier == "geom_mvj":
                g = cls.model_validate_json(json.dumps({"type": t, "coordinates": _jsonable(c)}))
            else:
                g = cls(coordinates=c)
            if carrier == "geom_copy":
                g = g.model_copy()
            elif carrier == "geom_deepcopy":
                g = copy.deepcopy(g.model_copy(deep=True))
            elif carrier == "geom_pickle":
                g = pickle.loads(pickle.dumps(g))
            return g
        except Exception:  # noqa: BLE001
            return types.SimpleNamespace(**d)
    raise ValueError(carrier)


def _jsonable(v):
    if isinstance(v, (list, tuple)) or type(v).__name__ in ("ndarray", "deque"):
        return [_jsonable(x) for x in v]
    return float(v) if not isinstance(v, int) or isinstance(v, bool) else int(v)


def _layout(carrier, fields):
    """where the attributes live, for the model: {"type": where, "coordinates": where} (Lean: AttrObj)"""
    d = {k: fields[k] for k in ("type", "coordinates") if k in fields}
    carrier = _eff_carrier(carrier, {**d, **({"__extra__": True} if fields.get("extra") else {})})
    t = fields.get("type")
    r = to_model_raw(fields["coordinates"]) if "coordinates" in fields else None

    def where(v, present, how):
        if how == "inst":
            return {"inst": v} if present else {}
        if how == "plain":
            return {"cls": {"how": "plain", "value": v}} if present else {}
        if how == "data":
            return {"cls": {"how": "data", "value": v if present else None}}
        if how == "dyn":
            return {"dyn": v} if present else {}
        raise ValueError(how)
    pt, pc = "type" in fields, "coordinates" in fields
    if carrier in ("ns", "plain", "dc", "dc_frozen"):
        return {"type": where(t, pt, "inst"), "coordinates": where(r, pc, "inst")}
    if carrier == "dc_default":
        return {"type": {"inst": t, "cls": {"how": "plain", "value": t}}, "coordinates": where(r, pc, "inst")}
    if carrier == "cls_type":
        return {"type": where(t, pt, "plain"), "coordinates": where(r, pc, "inst")}
    if carrier == "cls_both":
        return {"type": where(t, pt, "plain"), "coordinates": where(r, pc, "plain")}
    if carrier in ("props", "slots", "dc_slots", "namedtuple", "typed_nt"):
        return {"type": where(t, pt, "data"), "coordinates": where(r, pc, "data")}
    if carrier == "getattr":
        return {"type": where(t, pt, "dyn"), "coordinates": where(r, pc, "dyn")}
    if carrier == "shadow":
        return {"type": {"inst": t, "cls": {"how": "plain", "value": _other_tag(t)}},
                "coordinates": {"inst": r, "cls": {"how": "plain", "value": ["-1"]}}}
    if carrier == "prop_shadow":
        return {"type": {"inst": _other_tag(t), "cls": {"how": "data", "value": t}},
                "coordinates": {"inst": ["-1"], "cls": {"how": "data", "value": r}}}
    return None     # geometry instances: judged as the attribute object (t, r) - C03_instance_of_constructed


_ADAPTER = {}


def _union_adapter():
    """pydantic's validator of the `Geometry` union (None if the code no longer has one)"""
    from soundevent.data import geometries as G
    u = getattr(G, "Geometry", None)
    if u is None:
        return None
    if _ADAPTER.get("u") is not u:
        import pydantic
        _ADAPTER["u"] = u
        _ADAPTER["ta"] = pydantic.TypeAdapter(u)
    return _ADAPTER["ta"]


def _py_obj(o):
    k = o["kind"]
    if k == "dict":
        d = _py_fields(o["fields"], o.get("seq"))
        if o.get("mapping") == "ordered":        # a dict subclass, keys in the other order
            import collections
            return collections.OrderedDict(reversed(list(d.items())))
        return d
    if k == "json":
        return json.dumps(_py_fields(o["fields"], plain=True))
    if k == "attrs":
        return _attr_obj(o.get("carrier"), _py_fields(o["fields"], o.get("seq")))
    if k == "text":
        return o["text"]
    if k == "list":
        return to_py(o["items"])
    raise ValueError(k)


CALLS = ("pos", "kw", "allkw", "kwrev", "default", "objkw")


def _gv_fn(name):
    """the three places the function is exported from (the same behaviour is demanded of each)"""
    import soundevent
    from soundevent import data
    from soundevent.data import geometries as G
    return getattr({"top": soundevent, "geometries": G}.get(name, data), "geometry_validate")


def _call_gv(fn, obj, mode, style):
    """positional / keyword passing in the documented order `geometry_validate(obj, mode="json")`"""
    if style in (None, "kw"):
        return fn(obj, mode=mode)
    if style == "pos":
        return fn(obj, mode)
    if style == "allkw":
        return fn(obj=obj, mode=mode)
    if style == "kwrev":
        return fn(mode=mode, obj=obj)
    if style == "default":
        return fn(obj)
    if style == "objkw":
        return fn(obj=obj)
    raise ValueError(style)


def _eff_mode(inp):
    return "json" if inp.get("call") in ("default", "objkw") else inp["mode"]


def _impl_gv(inp):
    return _canon(_call_gv(_gv_fn(inp.get("fn")), _py_obj(inp["obj"]), inp["mode"], inp.get("call")))


def _impl_union(inp):
    via = inp.get("via")
    if via in ("soundevent", "soundevent_json"):
        # the real holder of a geometry: the `geometry: Optional[Geometry]` field of SoundEvent
        from soundevent import data
        rec = _recording()
        if via == "soundevent":
            obj = _py_obj(inp["obj"])
            try:
                se = data.SoundEvent(recording=rec, geometry=obj)
            except Exception as e:  # noqa: BLE001
                if _only_about(e, "geometry"):
                    raise
                raise InfraError(f"SoundEvent could not be built for a reason other than its geometry: {e!r}")
        else:
            if inp["obj"]["kind"] != "dict":
                raise InfraError("soundevent_json needs a mapping")
            text = json.dumps({"recording": json.loads(rec.model_dump_json()),
                               "geometry": _py_fields(inp["obj"]["fields"], plain=True)})
            try:
                se = data.SoundEvent.model_validate_json(text)
            except Exception as e:  # noqa: BLE001
                if _only_about(e, "geometry"):
                    raise
                raise InfraError(f"SoundEvent could not be read for a reason other than its geometry: {e!r}")
        if se.geometry is None:
            raise ValueError("no geometry")
        return _canon(se.geometry)
    ta = _union_adapter()
    if ta is None:
        raise AttributeError("soundevent.data.geometries.Geometry is gone")
    if via == "json":
        if inp["obj"]["kind"] != "dict":
            raise InfraError("union json needs a mapping")
        return _canon(ta.validate_json(json.dumps(_py_fields(inp["obj"]["fields"], plain=True))))
    return _canon(ta.validate_python(_py_obj(inp["obj"])))


_REC = []


def _recording():
    if not _REC:
        from soundevent import data
        _REC.append(data.Recording(path="c03.wav", duration=1.0, channels=1, samplerate=8000))
    return _REC[0]


def _only_about(e, field):
    """a pydantic ValidationError all of whose errors are located in `field`; other exceptions (a TypeError escaping
    from a validator) are the observation themselves"""
    errs = getattr(e, "errors", None)
    if not callable(errs):
        return True
    try:
        return all(er.get("loc", (None,))[:1] == (field,) for er in errs())
    except Exception:  # noqa: BLE001
        return True


VIAS = ("model_validate", "model_validate_json", "from_attributes", "from_attributes_dict", "no_from_attributes",
        "model_validate_strict_json")


def _impl_class(inp):
    """the class-level entry points of a geometry class (C03_class_entrypoints_agree)"""
    from soundevent import data
    cls = getattr(data, inp["cls"])
    via = inp["via"]
    f = inp["fields"]
    if via == "model_validate":
        return _canon(cls.model_validate(_py_fields(f, inp.get("seq"))))
    if via == "model_validate_json":
        return _canon(cls.model_validate_json(json.dumps(_py_fields(f, plain=True))))
    if via == "model_validate_strict_json":     # strict JSON: lists of JSON numbers, ints allowed for floats
        return _canon(cls.model_validate_json(json.dumps(_py_fields(f, plain=True)), strict=True))
    if via == "from_attributes":
        return _canon(cls.model_validate(_attr_obj(inp.get("carrier"), _py_fields(f, inp.get("seq"))), from_attributes=True))
    if via == "from_attributes_dict":
        return _canon(cls.model_validate(_py_fields(f, inp.get("seq")), from_attributes=True))
    if via == "no_from_attributes":
        return _canon(cls.model_validate(_attr_obj(inp.get("carrier"), _py_fields(f, inp.get("seq")))))
    raise ValueError(via)


def _model_class(inp):
    via = inp["via"]
    d = _doc(inp["fields"])
    if via in ("from_attributes", "no_from_attributes"):
        # whatever the carrier, `getattr` finds (type, coordinates) (C03_carrier_get); a geometry instance of the
        # class itself is passed through with the normalised coordinates (C03_instance_of_constructed)
        return {"cls": inp["cls"], "fa": via == "from_attributes", "src": {"kind": "object", **d}}
    return {"cls": inp["cls"], "fa": via == "from_attributes_dict", "src": {"kind": "mapping", **d}}


def _model_union(inp):
    o = inp["obj"]
    k = o["kind"]
    if k in ("dict", "attrs"):
        d = _doc(o["fields"])
        if k == "attrs" and _eff_carrier(o.get("carrier"), {**{x: 1 for x in o["fields"] if x != "extra"},
                                                              "type": o["fields"].get("type"),
                                                              **({"__extra__": True} if o["fields"].get("extra") else {})}).startswith("geom"):
            # a geometry object that came out of a construction is kept by the union - what validating its content
            # gives (C03_union_instance_of_constructed); where no such object exists a namespace was handed over,
            # refused like the content
            return {"src": {"kind": "mapping", **d}}
        return {"src": {"kind": "mapping" if k == "dict" else "object", **d}}
    return {"src": {"kind": "unusable"}}


def _make_instance(inp):
    """an existing object of class `cls` whose fields were assigned after construction (or, should the
    classes become frozen, built with model_construct): what a caller who mutated a geometry holds"""
    from soundevent import data
    cls = getattr(data, inp["cls"])
    inst = cls(coordinates=to_py(inp["base"]))
    try:
        inst.coordinates = to_py(inp["coordinates"])
        inst.type = inp["type"]
        if inst.coordinates != to_py(inp["coordinates"]) or inst.type != inp["type"]:
            raise ValueError("assignment was intercepted")
    except Exception:  # noqa: BLE001
        inst = cls.model_construct(type=inp["type"], coordinates=to_py(inp["coordinates"]))
    return inst


def _impl_instance(inp):
    from soundevent import data
    g = data.geometry_validate(_make_instance(inp), mode=inp["mode"])
    return {"val": {"type": g.type, "cls": type(g).__name__, "coordinates": enc_out(g.coordinates)}}


def _model_instance(inp):
    return {"mode": inp["mode"], "cls": inp["cls"], "type": inp["type"], "coordinates": to_model_raw(inp["coordinates"])}


def _compare_instance(inp, io, mo):
    a = {k: v for k, v in io.items() if k not in ("mon", "trace")} if isinstance(io, dict) else io
    if a == mo.get("demand"):
        return None
    if a == mo.get("asis"):
        return ("an existing instance is handed back without validation: the attribute object's coordinates are "
                "neither checked nor normalised (instance pass-through)")
    return "implementation agrees neither with the model of the code as it is nor with the property"


def _doc(fields):
    return {"type": fields.get("type"), "coordinates": to_model_raw(fields["coordinates"]) if "coordinates" in fields else None}


def _model_construct(inp):
    kw = inp["kw"]
    m = {"cls": inp["cls"], "type": kw.get("type"),
         "coordinates": to_model_raw(kw["coordinates"]) if "coordinates" in kw else None}
    if inp.get("call"):
        m["call"] = inp["call"]
    return m


def _is_numeric(x):
    if isinstance(x, list):
        return all(_is_numeric(y) for y in x)
    return isinstance(x, (int, float)) and not isinstance(x, bool) and x == x and abs(x) != float("inf")


def _model_gv(inp):
    o = inp["obj"]
    k = o["kind"]
    if k == "dict":
        mo = {"kind": "val", "doc": _doc(o["fields"])}
    elif k == "json":
        mo = {"kind": "str", "parsed": _doc(o["fields"])}
    elif k == "attrs":
        lay = _layout(o.get("carrier"), o["fields"]) if o.get("carrier") else None
        mo = {"kind": "attrobj", **lay} if lay is not None else {"kind": "attrs", **_doc(o["fields"])}
    elif k == "list":
        mo = {"kind": "val", "doc": "other"}
    elif k == "text":
        # what json.loads makes of the text (trusted library): not JSON / not a dict / a dict
        try:
            v = json.loads(o["text"])
        except ValueError:
            mo = {"kind": "str", "parsed": None}
        else:
            if not isinstance(v, dict):
                mo = {"kind": "str", "parsed": "other"}
            else:
                t = v.get("type")
                c = v.get("coordinates")
                if ("type" in v and not isinstance(t, str)) or ("coordinates" in v and not _is_numeric(c)):
                    raise InfraError("text case outside the numeric scope")
                mo = {"kind": "str", "parsed": {"type": t, "coordinates": enc_out(c) if "coordinates" in v else None}}
    else:
        raise ValueError(k)
    m = {"mode": inp["mode"], "obj": mo}
    if inp.get("call"):
        m["call"] = inp["call"]
    return m


def _seen(inp):
    """(class name, raw coordinates) the entry point reads off its input, or None (Lean: `view`)"""
    if "kw" in inp:
        kw = inp["kw"]
        if "coordinates" in kw and kw.get("type", inp["cls"]) == inp["cls"]:
            return inp["cls"], kw["coordinates"]
        return None
    if "via" in inp and "fields" in inp:        # class-level entry points
        f = inp["fields"]
        reads = inp["via"] != "no_from_attributes"
        if reads and "coordinates" in f and f.get("type", inp["cls"]) == inp["cls"]:
            return inp["cls"], f["coordinates"]
        return None
    if "mode" not in inp:        # the union path reads plain mappings only
        o, mode = inp["obj"], "dict"
    else:
        o, mode = inp["obj"], _eff_mode(inp)
    ok = (mode, o["kind"]) in (("dict", "dict"), ("json", "json"), ("attributes", "attrs"))
    if ok and o["fields"].get("type") in TYPES and "coordinates" in o["fields"]:
        return o["fields"]["type"], o["fields"]["coordinates"]
    return None


def _lenient(inp):
    return isinstance(inp.get("obj"), dict) and bool(inp["obj"].get("other_kind"))


def _compare(inp, io, mo):
    a = {k: v for k, v in io.items() if k not in ("mon", "trace")} if isinstance(io, dict) else io
    if a != mo and _lenient(inp) and isinstance(a, dict) and "val" in a:
        # a mode that is handed the kind of object of another mode refuses it today (so does the model); the
        # property does not demand the refusal: were it to read the object after all, the object built must be
        # the one the tagged coordinates determine (judged by `_holds`: monitor + holdsB), nothing else
        return None
    return None if a == mo else "implementation and model disagree"


def _holds(ctx, inp, io):
    """monitor on the real object; the declarative Lean-side test (`holdsB`) is queued and run in a batch"""
    seen = _seen(inp)
    if seen is None and _lenient(inp) and isinstance(io, dict) and "val" in io:
        f = inp["obj"].get("fields", {})
        if f.get("type") in TYPES and "coordinates" in f:
            seen = (f["type"], f["coordinates"])
    if seen is not None and isinstance(io, dict) and not str(io.get("raise", "")).startswith("crash"):
        out = {"raise": io["raise"]} if "raise" in io else {"val": {"cls": io["val"]["cls"], "coordinates": io["val"]["coordinates"]}}
        q = getattr(ctx, "_c03_queue", None)
        if q is not None:
            q.append((inp, io, {"cls": seen[0], "coordinates": to_model_raw(seen[1]), "out": out}))
    if isinstance(io, dict) and "val" in io:
        bad = [k for k, v in io.get("mon", {}).items() if v is not True]
        if bad:
            return "accepted object fails: " + ", ".join(f"{k}={io['mon'][k]}" for k in bad)
        if seen is not None and io["val"]["type"] != seen[0]:
            return f"object's type field {io['val']['type']!r} is not the tag asked for"
    return None


def _flush(ctx, opname):
    q = getattr(ctx, "_c03_queue", None)
    if not q:
        return
    res = ctx.model_many("holds", [a for _i, _o, a in q])
    for (inp, io, _a), ok in zip(q, res):
        if ok is not True:
            # the operation the input belongs to (the corpus stage flushes several operations at once)
            opname = ("construct" if "kw" in inp else "class_validate" if "fields" in inp else
                      "geometry_validate" if "mode" in inp else "union_validate")
            ctx.fail("property", opname, inp=inp, impl={k: v for k, v in io.items() if k != "trace"},
                     detail="the declarative statement of the property (holdsB) rejects this observed input/output pair")
    ctx.tally("declarative-monitor", len(q))
    q.clear()


def _nontrivial(inp, out):
    return isinstance(out, dict) and "val" in out


OPS = {
    "construct": Op("construct", _impl_construct, to_model=_model_construct, compare=_compare, holds=_holds,
                    nontrivial=_nontrivial, shrink=True),
    "geometry_validate": Op("geometry_validate", _impl_gv, to_model=_model_gv, compare=_compare, holds=_holds,
                            nontrivial=_nontrivial, shrink=True),
    "union_validate": Op("union_validate", _impl_union, to_model=_model_union, compare=_compare, holds=_holds,
                         nontrivial=_nontrivial, shrink=True),
    "class_validate": Op("class_validate", _impl_class, to_model=_model_class, compare=_compare, holds=_holds,
                         nontrivial=_nontrivial, shrink=True),
    "instance_validate": Op("instance_validate", _impl_instance, to_model=_model_instance, compare=_compare_instance,
                            nontrivial=_nontrivial),
}


def _match_instance_passthrough(f, m):
    """known finding C03-2: only the pass-through itself (the object that went in comes out unchanged)"""
    if f.op != "instance_validate" or not isinstance(f.impl, dict) or "val" not in f.impl:
        return False
    v, inp = f.impl["val"], f.inp
    return (isinstance(f.model, dict) and f.impl == f.model.get("asis") and v["cls"] == inp["cls"]
            and v["type"] == inp["type"] == inp["cls"]
            and v["coordinates"] == enc_out_frac_raw(inp["coordinates"]))


def _has_nonfinite(x):
    if isinstance(x, list):
        return any(_has_nonfinite(y) for y in x)
    return x in ("nan", "inf", "-inf", "1e400")


def _match_nonfinite(f, m):
    """known finding C03-1: a non-finite number among the coordinates and the code built an object"""
    return (f.op == "nonfinite" and isinstance(f.inp, dict) and _has_nonfinite(f.inp.get("coordinates"))
            and isinstance(f.impl, dict) and "accepted" in f.impl)


FINDING_MATCHERS = {"instance_passthrough": _match_instance_passthrough, "nonfinite_accepted": _match_nonfinite}


def _run(ctx, batch):
    """batch: list of (op name, input)"""
    ctx._c03_queue = []
    for name in ("construct", "geometry_validate", "union_validate", "class_validate", "instance_validate"):
        inputs = [i for n, i in batch if n == name]
        if inputs:
            ctx.run_cases(OPS[name], inputs)
            _flush(ctx, name)
    ctx._c03_queue = None


ALL_ENTRIES = ("construct",) + tuple(MODES) + ("union",)


def entries(cls, raw, which=ALL_ENTRIES):
    """the same tagged coordinates through the entry points"""
    out = []
    if "construct" in which:
        out.append(("construct", {"cls": cls, "kw": {"coordinates": raw}}))
    f = {"type": cls, "coordinates": raw}
    if "dict" in which:
        out.append(("geometry_validate", {"mode": "dict", "obj": {"kind": "dict", "fields": f}}))
    if "json" in which:
        out.append(("geometry_validate", {"mode": "json", "obj": {"kind": "json", "fields": f}}))
    if "attributes" in which:
        out.append(("geometry_validate", {"mode": "attributes", "obj": {"kind": "attrs", "fields": f}}))
    if "union" in which:
        out.append(("union_validate", {"obj": {"kind": "dict", "fields": f}}))
    return out


# ---------------------------------------------------------------- tie 1: tables
def _code_maxf():
    from soundevent.data import geometries as G
    m = getattr(G, "MAX_FREQUENCY", None)
    if isinstance(m, bool) or not isinstance(m, (int, float)) or m != m or abs(m) == float("inf"):
        return None
    return Fraction(m)


def _tables(ctx):
    from soundevent import data
    from soundevent.data import geometries as G
    # MAX_FREQUENCY
    m = _code_maxf()
    if m is None:
        ctx.pre_failed.append("MAX_FREQUENCY")
        ctx.fail("obligation", "MAX_FREQUENCY", detail="soundevent.data.geometries.MAX_FREQUENCY is missing or not a finite number",
                 extra={"table": "MAX_FREQUENCY"})
    else:
        ctx.obligation("MAX_FREQUENCY",
                       f"theorem extracted_max_frequency : {st.lit(m)} = SE.MAXF := by decide +kernel\n",
                       {"table": "MAX_FREQUENCY", "value": str(m)})
    # GEOMETRY_MAPPING: key -> class (name, identity with the exported class, Literal and default of `type`)
    mapping = getattr(G, "GEOMETRY_MAPPING", None)
    if not isinstance(mapping, dict):
        ctx.pre_failed.append("GEOMETRY_MAPPING")
        ctx.fail("obligation", "GEOMETRY_MAPPING", detail="soundevent.data.geometries.GEOMETRY_MAPPING is missing or not a dict",
                 extra={"table": "GEOMETRY_MAPPING"})
        return
    rows, shown = [], []
    for key, cls in mapping.items():
        name = getattr(cls, "__name__", repr(cls))
        try:
            fld = cls.model_fields["type"]
            default = fld.default
            lits = typing.get_args(fld.annotation)
        except Exception:  # noqa: BLE001
            default, lits = None, ()
        literal = lits[0] if len(lits) == 1 and isinstance(lits[0], str) else None
        same = getattr(G, name, None) is cls and getattr(data, name, None) is cls
        # `cls.geom_type()` (what the table is keyed by; other modules dispatch on it) is observed by calling it
        gt = default
        if callable(getattr(cls, "geom_type", None)):
            try:
                gt = cls.geom_type()
            except Exception as e:  # noqa: BLE001
                gt = repr(e)[:80]
        shown.append({"key": key, "class": name, "default": default, "literal": list(lits), "exported_class": same,
                      "geom_type()": gt})
        if gt != default:
            default = None
        if not isinstance(key, str) or name not in CTOR or not same or not isinstance(default, str) or literal is None:
            ctor = f"(by exact not_a_geometry_class_of_the_model : SE.Validate.GType)  /- {name} -/"
            default, literal = str(default), str(literal)
        else:
            ctor = CTOR[name]
        rows.append(f"({json.dumps(str(key))}, ⟨{ctor}, {json.dumps(literal)}, {json.dumps(default)}⟩)")
    src = ("def extracted_table : SE.Validate.Table :=\n  [" + ",\n   ".join(rows) + "]\n"
           "theorem extracted_table_wf : SE.Validate.wellFormedB extracted_table = true := by decide\n"
           "-- the generic entry-point theorems, instantiated at the table the code has now\n"
           "def extracted_entrypoints_agree := SE.Proofs.C03.C03_entrypoints_agree extracted_table\n"
           "  (SE.Proofs.C03.C03_wellFormedB_sound _ extracted_table_wf)\n"
           "def extracted_dispatch := SE.Proofs.C03.C03_geometryValidate_eq extracted_table\n"
           "  (SE.Proofs.C03.C03_wellFormedB_sound _ extracted_table_wf)\n")
    ctx.obligation("GEOMETRY_MAPPING", src, {"table": "GEOMETRY_MAPPING", "rows": shown})

    def cls_row(cls):
        name = getattr(cls, "__name__", repr(cls))
        try:
            fld = cls.model_fields["type"]
            default = cls.geom_type() if callable(getattr(cls, "geom_type", None)) else fld.default
            lits = typing.get_args(fld.annotation)
        except Exception:  # noqa: BLE001
            default, lits = None, ()
        literal = lits[0] if len(lits) == 1 and isinstance(lits[0], str) else None
        if name not in CTOR or getattr(data, name, None) is not cls or not isinstance(default, str) or literal is None:
            return (f"⟨(by exact not_a_geometry_class_of_the_model : SE.Validate.GType)  /- {name} -/, "
                    f"{json.dumps(str(literal))}, {json.dumps(str(default))}⟩"), name
        return f"⟨{CTOR[name]}, {json.dumps(literal)}, {json.dumps(default)}⟩", name
    # the `Geometry` union (public: the annotation of every field that holds a geometry)
    union = getattr(G, "Geometry", None)
    members = typing.get_args(union) if union is not None else ()
    if not members:
        ctx.pre_failed.append("Geometry-union")
        ctx.fail("obligation", "Geometry-union", detail="soundevent.data.geometries.Geometry is missing or not a Union of classes",
                 extra={"table": "Geometry"})
    else:
        rows = [cls_row(c) for c in members]
        usrc = ("def extracted_union : List SE.Validate.Cls :=\n  [" + ",\n   ".join(r for r, _ in rows) + "]\n"
                "theorem extracted_union_ok : SE.Validate.membersOkB extracted_union = true := by decide\n"
                "-- a tagged mapping validated against the union = geometry_validate in dict mode, at the extracted members\n"
                "def extracted_union_agrees := SE.Proofs.C03.C03_union_agrees SE.Validate.table\n"
                "  SE.Proofs.C03.C03_table_wellFormed extracted_union\n"
                "  (SE.Proofs.C03.C03_membersOkB_sound _ extracted_union_ok)\n")
        ctx.obligation("Geometry-union", usrc, {"table": "Geometry", "members": [n for _, n in rows]})
    _signature_tables(ctx, G, mapping)
    # how the table is built: {geom.geom_type(): geom for geom in ALL_GEOMETRY_TYPES}.  The list is a private
    # detail: if it is gone nothing is demanded (the table itself is tied above).
    all_types = getattr(G, "ALL_GEOMETRY_TYPES", None)
    if isinstance(all_types, (list, tuple)) and all_types:
        rows = [cls_row(c) for c in all_types]
        asrc = ("def extracted_all_types : List SE.Validate.Cls :=\n  [" + ",\n   ".join(r for r, _ in rows) + "]\n"
                "theorem extracted_all_types_ok : SE.Validate.membersOkB extracted_all_types = true := by decide\n"
                "def extracted_built_table_wf := SE.Proofs.C03.C03_buildTable_wellFormed extracted_all_types\n"
                "  (SE.Proofs.C03.C03_membersOkB_sound _ extracted_all_types_ok)\n")
        ctx.obligation("ALL_GEOMETRY_TYPES", asrc, {"table": "ALL_GEOMETRY_TYPES", "classes": [n for _, n in rows]})
    else:
        ctx.note("ALL_GEOMETRY_TYPES is not a list any more: the construction of the table is not tied (the table itself is)")


def _lean_sig(fn):
    """inspect.signature as a Lean `SE.Validate.Sig` literal (+ a printable form)"""
    import inspect
    rows, shown = [], []
    for prm in inspect.signature(fn).parameters.values():
        kind = {prm.POSITIONAL_ONLY: ".posOnly", prm.POSITIONAL_OR_KEYWORD: ".posOrKw", prm.KEYWORD_ONLY: ".kwOnly"}.get(prm.kind)
        name = prm.name
        if kind is None:        # *args / **kwargs: can be left out of every call
            kind, name, dflt = ".kwOnly", ("*" if prm.kind == prm.VAR_POSITIONAL else "**") + prm.name, 'some "()"'
        elif prm.default is prm.empty:
            dflt = "none"
        else:
            dflt = "some " + json.dumps(prm.default if isinstance(prm.default, str) else "<" + repr(prm.default)[:40] + ">")
        rows.append(f"⟨{json.dumps(name)}, {kind}, {dflt}⟩")
        shown.append(f"{name}:{kind[1:]}" + ("" if dflt == "none" else "=" + dflt[5:]))
    return "[" + ", ".join(rows) + "]", shown


def _signature_tables(ctx, G, mapping):
    """Tie 1 for the way arguments are passed: the signature of geometry_validate must start `(obj, mode="json")`,
    both passable by position or by name (C03_call_styles: every style of call then runs the body on the same
    (obj, mode)); every geometry class takes keyword-only `type` (default: its tag) and `coordinates`, in either
    order (C03_ctor_keyword_order)."""
    fn = getattr(G, "geometry_validate", None)
    try:
        sig, shown = _lean_sig(fn)
    except Exception as e:  # noqa: BLE001
        ctx.pre_failed.append("geometry_validate-signature")
        ctx.fail("obligation", "geometry_validate-signature", detail=f"signature of geometry_validate cannot be read: {e!r}",
                 extra={"table": "signature"})
    else:
        ctx.obligation("geometry_validate-signature",
                       f"def extracted_gv_sig : SE.Validate.Sig := {sig}\n"
                       "theorem extracted_gv_sig_ok : SE.Validate.gvSigOkB extracted_gv_sig = true := by decide\n"
                       "def extracted_call_styles := SE.Proofs.C03.C03_call_styles SE.Validate.table extracted_gv_sig extracted_gv_sig_ok\n",
                       {"table": "signature", "op": "geometry_validate", "parameters": shown})
    src, shown_all = [], {}
    for key, cls in mapping.items():
        name = getattr(cls, "__name__", repr(cls))
        if name not in CTOR:
            continue        # reported by the GEOMETRY_MAPPING obligation
        try:
            sig, shown = _lean_sig(cls)
        except Exception as e:  # noqa: BLE001
            sig, shown = f"[⟨{json.dumps(repr(e)[:60])}, .posOnly, none⟩]", [repr(e)[:60]]
        shown_all[name] = shown
        src.append(f"def extracted_ctor_{name} : SE.Validate.Sig := {sig}\n"
                   f"theorem extracted_ctor_{name}_ok : SE.Validate.ctorSigOkB (SE.Validate.GType.tag {CTOR[name]}) extracted_ctor_{name} = true := by decide\n"
                   f"def extracted_ctor_{name}_order := SE.Proofs.C03.C03_ctor_keyword_order {CTOR[name]} extracted_ctor_{name} extracted_ctor_{name}_ok\n")
    if src:
        ctx.obligation("constructor-signatures", "".join(src), {"table": "signature", "op": "construct", "parameters": shown_all})


# ---------------------------------------------------------------- tie 1b: validator chains at fixed shapes
P = [None, None]          # a point: two coordinates


def _shapes(thorough):
    pts = lambda n: [P] * n  # noqa: E731
    sh = {
        "TimeStamp": [None],
        "TimeInterval": [[None] * n for n in range(0, 4)],
        "Point": [[None] * n for n in range(0, 4)],
        "BoundingBox": [[None] * n for n in range(0, 6)],
        "LineString": [pts(n) for n in range(0, 5)] + [[P, [None]], [[None] * 3, P], [P, P, []]],
        "MultiPoint": [pts(n) for n in range(0, 5)] + [[P, [None]], [[None] * 3, P], [[]], [P, [None] * 3]],
        "Polygon": [[], [[]], [pts(2)], [pts(3)], [pts(4)], [pts(3), pts(3)], [pts(3), pts(2)], [pts(4), pts(3)],
                    [[P, P, [None] * 3]], [[P, P, [None]]]],
        "MultiLineString": [[], [[]], [pts(1)], [pts(2)], [pts(3)], [pts(2), pts(2)], [pts(2), pts(1)],
                            [pts(4), pts(3)], [[P, [None]]], [[P, [None] * 3]]],
        "MultiPolygon": [[], [[]], [[[]]], [[pts(3)]], [[pts(2)]], [[pts(3)], [pts(3)]], [[pts(3), pts(3)]],
                         [[pts(3), pts(3)], [pts(4)]], [[pts(4), pts(3)], [pts(3), pts(3)]], [[[P, P, [None] * 3]]]],
    }
    if thorough:
        sh["LineString"] += [pts(5), pts(6)]
        sh["MultiPoint"] += [pts(5), pts(6)]
        sh["Polygon"] += [[pts(4), pts(4)], [pts(3), pts(3), pts(3)], [pts(5)]]
        sh["MultiLineString"] += [[pts(4), pts(4)], [pts(2), pts(2), pts(2)], [pts(5)]]
        sh["MultiPolygon"] += [[[pts(4), pts(4)], [pts(4), pts(4)]], [[pts(3)], [pts(3)], [pts(3)]]]
    return sh


def _build(shape, names):
    if shape is None:
        n = f"x{len(names)}"
        names.append(n)
        return Sym.var(n)
    return [_build(s, names) for s in shape]


def _lean_val(v):
    if isinstance(v, Sym):
        return v.e
    if isinstance(v, (list, tuple)):
        return "[" + ", ".join(_lean_val(x) for x in v) + "]"
    if isinstance(v, bool) or not isinstance(v, (int, float, Fraction)):
        raise st.Untraceable(f"cannot emit {type(v).__name__}")
    return st.lit(v)


def _lean_ty(depth):
    t = "Rat"
    for _ in range(depth):
        t = f"List ({t})"
    return t


def _leaf_lean(leaf):
    if leaf[0] == "ok":
        return f".ok {_lean_val(leaf[1])}"
    # pydantic turns ValueError / AssertionError inside a validator into a ValidationError;
    # anything else escapes as it is
    return ".error .invalid" if leaf[1] in ("ValueError", "AssertionError", "ValidationError") else ".error .crash"


def _tree_lean(tree, indent):
    if tree[0] == "ite":
        pad = " " * indent
        return (f"if {tree[1][0]} then\n{pad}{_tree_lean(tree[2], indent + 2)}\n"
                f"{' ' * (indent - 2)}else\n{pad}{_tree_lean(tree[3], indent + 2)}")
    return _leaf_lean(tree[1])


def _script(tree, ind, ctr):
    """case analysis following the extracted tree; `se_val` evaluates the model at each leaf"""
    pad = " " * ind
    if tree[0] != "ite":
        return pad + "se_val"
    k = ctr[0]
    ctr[0] += 1
    t = _script(tree[2], ind + 2, ctr)
    f = _script(tree[3], ind + 2, ctr)
    return f"{pad}by_cases h{k} : {tree[1][0]}\n{pad}· {t.lstrip()}\n{pad}· {f.lstrip()}"


def _chain(cls):
    """the after-validators of `coordinates`, in the order pydantic runs them"""
    out = []
    for d in cls.__pydantic_decorators__.field_validators.values():
        if "coordinates" in d.info.fields:
            if d.info.mode != "after":
                raise st.Untraceable(f"{cls.__name__}: a {d.info.mode}-validator on coordinates is not modelled")
            out.append(d.func)
    return out


def _shape_str(shape):
    return json.dumps(shape).replace("null", "x")


def _symbolic_ties(ctx):
    from soundevent.data import geometries as G
    ctx._c03_trees = {}
    mapping = getattr(G, "GEOMETRY_MAPPING", None) or {}
    for cls_name, shapes in _shapes(ctx.thorough()).items():
        for idx, shape in enumerate(shapes):
            name = f"ext_{cls_name}_{idx}"
            meta = {"op": "construct", "cls": cls_name, "shape": _shape_str(shape)}
            try:
                cls = mapping.get(cls_name) or getattr(G, cls_name)
                fns = _chain(cls)
                names = []
                v0 = _build(shape, names)

                def run(v0=v0, fns=fns):
                    v = v0
                    for f in fns:
                        v = f(v)
                    return v
                res = st.trace(run, catch=(Exception,))
                tree = st.to_tree(res)
                args = " ".join(names)
                binder = f"({args} : Rat) " if names else ""
                d = DEPTH[cls_name]
                arg = _lean_val(v0)
                if d >= 1:
                    arg = f"({arg} : {_lean_ty(d)})"
                src = ("set_option linter.unusedVariables false\n"
                       f"def {name} {binder}: SE.Validate.R ({_lean_ty(d)}) :=\n  {_tree_lean(tree, 4)}\n"
                       f"theorem {name}_tie {binder}: {name} {args} = SE.Validate.{MODEL_FN[cls_name]} {arg} := by\n"
                       f"  unfold {name}\n" + _script(tree, 2, [0]) + "\n")
            except Exception as e:  # noqa: BLE001 - the code changed shape: the tie is not re-established
                ctx.symbolic_ties[name] = {"error": repr(e)[:300], "shape": _shape_str(shape)}
                ctx.pre_failed.append(name)
                ctx.fail("obligation", name, detail=f"symbolic trace of the current source failed: {e!r}", extra=meta)
                continue
            ctx.symbolic_ties[name] = {"paths": len(res), "shape": _shape_str(shape)}
            ctx._c03_trees[name] = (cls_name, shape, names, tree)
            ctx.obligation(name, src, meta)


# ---------------------------------------------------------------- generators (tie 2)
def _pool(ctx=None):
    """boundary values: around 0, ordinary, around MAX_FREQUENCY (the model's and, should it differ, the code's)"""
    vals = set()
    for m in {Fraction(MODEL_MAXF), _code_maxf() or Fraction(MODEL_MAXF)}:
        vals |= {Fraction(-1), Fraction(-1, 8), Fraction(0), Fraction(1, 8), Fraction(1), Fraction(2), m - 1, m, m + 1}
    return sorted(vals)


def _trees(depth, maxlen, leaves):
    """every raw structure of nesting depth <= depth with list lengths <= maxlen"""
    if depth == 0:
        return list(leaves)
    sub = _trees(depth - 1, maxlen, leaves)
    out = list(leaves)
    for n in range(maxlen + 1):
        for combo in itertools.product(sub, repeat=n):
            out.append(list(combo))
    return out


def _leaf_paths(x, pre=()):
    if isinstance(x, list):
        for i, y in enumerate(x):
            yield from _leaf_paths(y, pre + (i,))
    else:
        yield pre


def _node_paths(x, pre=()):
    yield pre
    if isinstance(x, list):
        for i, y in enumerate(x):
            yield from _node_paths(y, pre + (i,))


def _get(x, path):
    for i in path:
        x = x[i]
    return x


def _set(x, path, v):
    if not path:
        return v
    y = list(x)
    y[path[0]] = _set(x[path[0]], path[1:], v)
    return y


def _delete(x, path):
    y = list(x)
    if len(path) == 1:
        del y[path[0]]
    else:
        y[path[0]] = _delete(x[path[0]], path[1:])
    return y


F = Fraction


def _bases(maxf):
    """valid structures whose every leaf is then replaced by every pool value, every node mutated"""
    a, b, c, d = [F(0), F(0)], [F(1), maxf], [F(2), F(1)], [F(1, 8), maxf - 1]
    return {
        "TimeStamp": [F(1)],
        "TimeInterval": [[F(0), F(1)], [F(1), F(1)]],
        "Point": [[F(0), F(0)], [F(1), maxf]],
        "BoundingBox": [[F(0), F(0), F(1), maxf], [F(2), F(1), F(1), F(0)]],
        "LineString": [[a, b], [c, b, a], [a, d, b, c]],
        "MultiPoint": [[a], [c, b, a, d]],
        "Polygon": [[[a, b, c]], [[a, b, c, d], [a, d, b]]],
        "MultiLineString": [[[a, b]], [[a, d, c], [b, c]], [[a, c, b, c]]],
        "MultiPolygon": [[[[a, b, c]]], [[[a, b, c], [a, d, b]], [[a, b, c, d]]], [[[a, b, c]], [[c, b, a]]]],
    }


def _mutations(base, pool):
    """single-site mutations of a valid structure: every leaf <- every pool value; every node deleted,
    duplicated, wrapped, replaced by a number / by an empty list / by its first item; lists reversed"""
    seen = set()

    def emit(x):
        k = json.dumps(enc(x))
        if k not in seen:
            seen.add(k)
            return True
        return False
    if emit(base):
        yield base
    for p in _leaf_paths(base):
        for v in pool:
            x = _set(base, p, v)
            if emit(x):
                yield x
    for p in _node_paths(base):
        node = _get(base, p)
        cands = [[node], F(1), []]
        if isinstance(node, list):
            cands.append(list(reversed(node)))
            cands.append(node + node[-1:] if node else node)
            if node:
                cands.append(node[0])
                cands.append(node[:-1])
                cands.append(node[1:])
            if len(node) >= 2:
                cands.append([node[-1]] + node[1:-1] + [node[0]])
        for cnd in cands:
            x = _set(base, p, cnd)
            if emit(x):
                yield x
        if p:
            x = _delete(base, p)
            if emit(x):
                yield x


def _ints_variant(x, rng):
    """the same values with some integral leaves given as Python ints"""
    if isinstance(x, list):
        return [_ints_variant(y, rng) for y in x]
    if isinstance(x, Fraction) and x.denominator == 1 and rng.random() < 0.5:
        return int(x)
    if isinstance(x, Fraction) and rng.random() < 0.1:
        return NpF(x)               # numpy.float64: a float like any other
    return x


def _rand_num(rng, kind, maxf):
    r = rng.random()
    if kind == "t":
        if r < 0.15:
            return F(0)
        return F(rng.randint(0, 1 << 12), 1 << rng.choice([0, 3, 10]))
    if r < 0.12:
        return F(0)
    if r < 0.24:
        return maxf
    if r < 0.3:
        return maxf - F(1, 1 << rng.choice([0, 3, 10]))
    return F(rng.randint(0, int(maxf) << 3), 1 << 3)


def _rand_bad(rng, maxf):
    return rng.choice([F(-1, 1 << 10), F(-1), F(-rng.randint(1, 10 ** 6), 8), maxf + F(1, 1 << 10), maxf + 1,
                       maxf * 2, F(-0.0)])


def _rand_valid(rng, cls, maxf):
    t = lambda: _rand_num(rng, "t", maxf)  # noqa: E731
    f = lambda: _rand_num(rng, "f", maxf)  # noqa: E731
    pt = lambda: [t(), f()]  # noqa: E731
    ring = lambda: [pt() for _ in range(rng.randint(3, 6))]  # noqa: E731

    def line(strict):
        pts = [pt() for _ in range(rng.randint(2, 5))]
        if strict:
            a, b = sorted([pts[0][0], pts[-1][0]])
            if a == b:
                b = a + F(1, 8)
            pts[0][0], pts[-1][0] = a, b
        return pts
    if cls == "TimeStamp":
        return t()
    if cls == "TimeInterval":
        return sorted([t(), t()])
    if cls == "Point":
        return pt()
    if cls == "BoundingBox":
        return [t(), f(), t(), f()]
    if cls == "LineString":
        return line(False)
    if cls == "MultiPoint":
        return [pt() for _ in range(rng.randint(1, 5))]
    if cls == "Polygon":
        return [ring() for _ in range(rng.randint(1, 3))]
    if cls == "MultiLineString":
        return [line(True) for _ in range(rng.randint(1, 3))]
    if cls == "MultiPolygon":
        return [[ring() for _ in range(rng.randint(1, 2))] for _ in range(rng.randint(1, 3))]
    raise ValueError(cls)


def _rand_case(ctx, cls, maxf):
    rng = ctx.rng
    x = _rand_valid(rng, cls, maxf)
    kind = rng.choice(["valid", "valid", "out_of_range", "out_of_range", "arity", "nesting", "reversed", "count", "equal_ends"])
    leaves = list(_leaf_paths(x))
    nodes = [p for p in _node_paths(x) if isinstance(_get(x, p), list)]
    if kind == "out_of_range" and leaves:
        x = _set(x, rng.choice(leaves), _rand_bad(rng, maxf))
    elif kind == "arity" and leaves:
        p = rng.choice(leaves)
        if p:
            par = _get(x, p[:-1])
            x = _set(x, p[:-1], rng.choice([par[:-1], par + [par[-1]], par + [F(0)]]))
        else:
            x = [x]
    elif kind == "nesting":
        p = rng.choice(list(_node_paths(x)))
        node = _get(x, p)
        x = _set(x, p, rng.choice([[node], F(1), node[0] if isinstance(node, list) and node else [node, node]]))
    elif kind == "reversed" and nodes:
        p = rng.choice(nodes)
        x = _set(x, p, list(reversed(_get(x, p))))
    elif kind == "count" and nodes:
        p = rng.choice(nodes)
        node = _get(x, p)
        x = _set(x, p, node[:rng.randint(0, max(0, len(node) - 1))])
    elif kind == "equal_ends" and cls in ("LineString", "MultiLineString", "TimeInterval", "BoundingBox"):
        if cls == "TimeInterval":
            x = [x[0], x[0]]
        elif cls == "BoundingBox":
            x = [x[0], x[1], x[0], x[1]]
        elif cls == "LineString":
            x[-1] = [x[0][0], x[-1][1]]
        else:
            ln = rng.choice(x)
            ln[-1] = [ln[0][0], ln[-1][1]]
    ctx.tally(f"random:{kind}")
    return _ints_variant(x, rng)


def _exhaustive(ctx, maxf):
    """small-scope exhaustive sets, each through all four entry points"""
    pool = _pool()
    batch = []
    thorough = ctx.thorough()
    # (a) every nesting: all raw structures to depth 3 (lengths <= 2), for every class
    leaves = [F(1), 0] if thorough else [F(1)]
    uni = _trees(3, 2, leaves)
    for cls in TYPES:
        for x in uni:
            batch += entries(cls, enc(x))
    ctx.exhaustive["shape universe"] = (f"all raw structures of nesting depth <= 3, list lengths 0..2, leaves {[str(v) for v in leaves]}: "
                                        f"{len(uni)} structures x 9 classes x 4 entry points")
    ctx.tally("exhaustive:shape-universe", len(uni) * 9)
    # (b) flat classes: every tuple over the boundary pool
    n = 0
    for v in pool:
        batch += entries("TimeStamp", enc(v))
        if v.denominator == 1:
            batch += entries("TimeStamp", enc(int(v)))
        n += 1
    for cls in ("TimeInterval", "Point"):
        for k in range(0, 4):
            for tup in itertools.product(pool, repeat=k):
                batch += entries(cls, enc(list(tup)))
                n += 1
    small = [F(-1, 8), F(0), F(1), maxf, maxf + 1]
    for tup in itertools.product(pool if thorough else small + [F(2), F(1, 8)], repeat=4):
        batch += entries("BoundingBox", enc(list(tup)))
        n += 1
    for k in (3, 5):
        for tup in itertools.product([F(0), F(1), maxf + 1], repeat=k):
            batch += entries("BoundingBox", enc(list(tup)))
            n += 1
    ctx.exhaustive["flat classes"] = (f"TimeStamp: pool of {len(pool)} values (float and int); TimeInterval, Point: every tuple of length 0..3 "
                                      f"over the pool; BoundingBox: every 4-tuple over {len(pool) if thorough else 7} values, 3- and 5-tuples over 3")
    ctx.tally("exhaustive:flat", n)
    # (c) point sequences: LineString / MultiPoint, every sequence of length 0..3 (4 in thorough) over a point pool
    tv = [F(-1, 8), F(0), F(1), F(2)] if thorough else [F(-1, 8), F(0), F(1)]
    fv = [F(-1, 8), F(0), maxf, maxf + 1] if thorough else [F(0), maxf, maxf + 1]
    ppool = [[t, f] for t in tv for f in fv]
    n = 0
    for cls in ("LineString", "MultiPoint"):
        for k in range(0, 4):
            for seq in itertools.product(ppool, repeat=k):
                batch += entries(cls, enc([list(p) for p in seq]))
                n += 1
        four = [[F(0), F(0)], [F(1), maxf], [F(2), F(0)], [F(-1, 8), F(0)], [F(1), maxf + 1]]
        for seq in itertools.product(four if thorough else four[:4], repeat=4):
            batch += entries(cls, enc([list(p) for p in seq]))
            n += 1
    ctx.exhaustive["point sequences"] = f"LineString, MultiPoint: every sequence of length 0..3 over {len(ppool)} points, length 4 over 4-5 points"
    ctx.tally("exhaustive:point-sequences", n)
    # (d) lines of a multi-line: first/last times over {0,1,2} (strictness), 1..2 lines of 2..3 points
    n = 0
    tt = [F(0), F(1), F(2)]
    lines = [[[a, F(1)], [b, F(2)]] for a in tt for b in tt] + [[[a, F(1)], [F(5), F(1)], [b, F(2)]] for a in tt for b in tt]
    for l1 in lines:
        batch += entries("MultiLineString", enc([l1]))
        batch += entries("LineString", enc(l1))
        n += 2
        for l2 in lines:
            batch += entries("MultiLineString", enc([l1, l2]))
            n += 1
    ctx.exhaustive["line ordering"] = "MultiLineString with 1..2 lines of 2..3 points, end-point times over {0,1,2}^2 per line (all equal / forward / backward cases)"
    ctx.tally("exhaustive:line-ordering", n)
    # (e) one site changed, everywhere: every leaf of nested bases <- every pool value; every node mutated
    n = 0
    for cls, bases in _bases(maxf).items():
        for base in bases:
            for x in _mutations(base, pool):
                batch += entries(cls, enc(x))
                n += 1
    ctx.exhaustive["single-site mutations"] = ("for 2-3 valid bases per class (up to 2 polygons x 2 rings x 4 points): every leaf replaced by every pool "
                                               "value; every node deleted, duplicated-last, wrapped, emptied, replaced by a number, by its first item, "
                                               "truncated, reversed, ends swapped")
    ctx.tally("exhaustive:single-site", n)
    # (f) rings and lines over a pool of three points, repetitions included (a ring of three equal points is a ring)
    n = 0
    three = [[F(0), F(0)], [F(1), maxf], [F(2), F(1)]]
    for k in (2, 3, 4):
        for seq in itertools.product(three, repeat=k):
            ring = [list(p) for p in seq]
            batch += entries("Polygon", enc([ring]))
            batch += entries("MultiPolygon", enc([[three, ring]]), which=("construct", "json", "union"))
            batch += entries("MultiLineString", enc([ring]), which=("construct", "attributes"))
            n += 3
    ctx.exhaustive["rings with repeated points"] = ("Polygon / MultiPolygon (as a hole) / MultiLineString: every point sequence of length 2..4 over "
                                                    "3 points, repetitions included")
    ctx.tally("exhaustive:repeated-points", n)
    return batch


def _dispatch_cases(ctx, maxf):
    """tags (known, unknown, missing), missing coordinates, text that is not JSON / not an object, explicit
    `type` keyword.  Only each mode with the kind of object it is meant for: what a mode does with another
    kind of object, with extra keys or with an unknown mode string is not pinned by the property."""
    batch = []
    good = {"TimeStamp": enc(F(1)), "BoundingBox": enc([F(3), F(5), F(1), F(2)]), "Point": enc([F(1), 2]),
            "LineString": enc([[F(1), F(2)], [F(0), F(5)]]), "TimeInterval": enc([F(2), F(1)]),
            "MultiPolygon": enc([[[[F(0), F(0)], [F(1), F(0)], [F(1), maxf + 1]]]])}
    tags = TYPES + ["", "Box", "timestamp", "TIMESTAMP", "Geometry", "BaseGeometry", "Point ", "MultiPoints"]
    for mode, kind in (("dict", "dict"), ("json", "json"), ("attributes", "attrs")):
        for tag in tags:
            for cls, raw in good.items():
                batch.append(("geometry_validate", {"mode": mode, "obj": {"kind": kind, "fields": {"type": tag, "coordinates": raw}}}))
        for cls, raw in good.items():
            batch.append(("geometry_validate", {"mode": mode, "obj": {"kind": kind, "fields": {"coordinates": raw}}}))
            batch.append(("geometry_validate", {"mode": mode, "obj": {"kind": kind, "fields": {"type": cls}}}))
        batch.append(("geometry_validate", {"mode": mode, "obj": {"kind": kind, "fields": {}}}))
    # keys / attributes the classes do not declare are ignored: the tagged coordinates decide alone
    for mode, kind in (("dict", "dict"), ("json", "json"), ("attributes", "attrs")):
        for cls, raw in good.items():
            batch.append(("geometry_validate", {"mode": mode, "obj": {"kind": kind, "fields": {"type": cls, "coordinates": raw, "extra": True}}}))
    for cls, raw in good.items():
        batch.append(("union_validate", {"obj": {"kind": "dict", "fields": {"type": cls, "coordinates": raw, "extra": True}}}))
    # a mode handed the kind of object of another mode (json text / dict / attribute object / list): a validation
    # error, never a TypeError / AttributeError
    for mode in MODES:
        for kind in ("dict", "json", "attrs"):
            if (mode, kind) in (("dict", "dict"), ("json", "json"), ("attributes", "attrs")):
                continue
            for cls in ("TimeStamp", "BoundingBox"):
                batch.append(("geometry_validate", {"mode": mode, "obj": {"kind": kind, "other_kind": True,
                                                                          "fields": {"type": cls, "coordinates": good[cls]}}}))
        batch.append(("geometry_validate", {"mode": mode, "obj": {"kind": "list", "items": enc([F(1)])}}))
    # the union path: tags, missing parts, attribute objects (python mode does not read attributes), non-mappings
    for tag in tags:
        for cls, raw in good.items():
            batch.append(("union_validate", {"obj": {"kind": "dict", "fields": {"type": tag, "coordinates": raw}}}))
    for cls, raw in good.items():
        batch.append(("union_validate", {"obj": {"kind": "dict", "fields": {"type": cls}}}))
        batch.append(("union_validate", {"obj": {"kind": "attrs", "fields": {"type": cls, "coordinates": raw}}}))
    batch.append(("union_validate", {"obj": {"kind": "list", "items": enc([F(1)])}}))
    for items in ([], [F(1)], [[F(1), F(2)]]):
        batch.append(("geometry_validate", {"mode": "dict", "obj": {"kind": "list", "items": enc(items)}}))
    for text in TEXTS:
        batch.append(("geometry_validate", {"mode": "json", "obj": {"kind": "text", "text": text}}))
    for cls in TYPES:
        for ty in TYPES + ["Box", ""]:
            for c2, raw in good.items():
                if c2 == cls or c2 in ("TimeStamp", "Point"):
                    batch.append(("construct", {"cls": cls, "kw": {"type": ty, "coordinates": raw}}))
        batch.append(("construct", {"cls": cls, "kw": {}}))
        batch.append(("construct", {"cls": cls, "kw": {"type": cls}}))
    ctx.exhaustive["dispatch"] = (f"each mode with its kind of object (dict / JSON text of a dict / attribute object) x {len(tags)} tags "
                                  "(9 valid, 8 unknown) x 6 coordinate values, missing type, missing coordinates, empty object; dict mode "
                                  f"given a list; json mode given {len(TEXTS)} raw texts (not JSON, JSON of a non-object, JSON objects); "
                                  "constructor with explicit type keyword (own, foreign, unknown) and without coordinates")
    ctx.tally("exhaustive:dispatch", len(batch))
    return batch


TEXTS = ["", "{", "[1, 2]", "1", "null", "\"TimeStamp\"", "{\"type\": \"TimeStamp\", \"coordinates\": 1",
         "{\"type\": \"TimeStamp\", \"coordinates\": 1}", "{\"type\": \"TimeStamp\", \"coordinates\": -1}",
         "{\"coordinates\": 1, \"type\": \"BoundingBox\"}", "{\"type\": \"Point\", \"coordinates\": [1, 5000000]}",
         "{\"type\": \"Point\", \"coordinates\": [1, 5000000.5]}", "{\"type\":\"TimeStamp\"}", "{}",
         "{\"type\": \"BoundingBox\", \"coordinates\": [3, 5, 1e0, 2.0]}"]


def _spice(rng, name, inp):
    """the same case passed in a less usual way (positional / keyword, another carrier, another container)"""
    import copy
    inp = copy.deepcopy(inp)
    if name == "construct":
        inp["call"] = rng.choice(("kw", "kwrev"))
        inp["seq"] = rng.choice(SEQS)
    elif name == "geometry_validate":
        kind = inp["obj"]["kind"]
        inp["call"] = rng.choice(CALLS if inp["mode"] == "json" else CALLS[:4])
        inp["fn"] = rng.choice(("data", "top", "geometries"))
        if kind == "attrs":
            inp["obj"]["carrier"] = rng.choice(CARRIERS)
        if kind in ("attrs", "dict"):
            inp["obj"]["seq"] = rng.choice(SEQS)
    elif name == "union_validate":
        inp["via"] = rng.choice(("json", "soundevent", "soundevent_json"))
    return name, inp


def _random(ctx, maxf, n):
    batch = []
    for i in range(n):
        cls = TYPES[i % 9]
        x = _rand_case(ctx, cls, maxf)
        es = entries(cls, enc(x))
        batch += es
        if i % 4 == 0:
            batch.append(_spice(ctx.rng, *ctx.rng.choice(es)))
            batch.append(("class_validate", {"cls": cls, "via": ctx.rng.choice(VIAS[:4]), "fields": {"coordinates": enc(x)},
                                             "carrier": ctx.rng.choice(CARRIERS[:15])}))
            ctx.tally("random:unusual-passing", 2)
    return batch


# ---------------------------------------------------------------- stages
def _stage_corpus(ctx):
    ctx._c03_queue = []
    ctx.run_corpus(OPS)
    _flush(ctx, "construct")
    ctx._c03_queue = None


def _stage_exhaustive(ctx):
    maxf = Fraction(MODEL_MAXF)
    _run(ctx, _exhaustive(ctx, maxf))
    _run(ctx, _dispatch_cases(ctx, maxf))


def _stage_random(ctx):
    _run(ctx, _random(ctx, Fraction(MODEL_MAXF), ctx.budget(10000, 200000)))


def _has_shape(cls, x):
    """x is the coordinates of *some* value of the class (Lean: decode)"""
    num = lambda v: not isinstance(v, list)  # noqa: E731
    flat = lambda v, n: isinstance(v, list) and len(v) == n and all(num(y) for y in v)  # noqa: E731
    pts = lambda v: isinstance(v, list) and all(flat(p, 2) for p in v)  # noqa: E731
    rings = lambda v: isinstance(v, list) and all(pts(r) for r in v)  # noqa: E731
    return {"TimeStamp": num, "TimeInterval": lambda v: flat(v, 2), "Point": lambda v: flat(v, 2),
            "BoundingBox": lambda v: flat(v, 4), "LineString": pts, "MultiPoint": pts, "Polygon": rings,
            "MultiLineString": rings, "MultiPolygon": lambda v: isinstance(v, list) and all(rings(q) for q in v)}[cls](x)


def _instance_cases(ctx, maxf):
    """an existing geometry object whose fields were assigned after construction, handed to geometry_validate"""
    pool = _pool()
    batch = []
    retag = {"LineString": "MultiPoint", "MultiPoint": "LineString", "Polygon": "MultiLineString",
             "MultiLineString": "Polygon", "TimeInterval": "Point", "Point": "TimeInterval"}
    for cls, bases in _bases(maxf).items():
        base = bases[-1]
        assigned = [x for b in bases for x in _mutations(b, pool) if _has_shape(cls, x)]
        if len(assigned) > 160:
            assigned = assigned[:80] + ctx.rng.sample(assigned[80:], 80)
        for x in assigned:
            batch.append(("instance_validate", {"mode": "attributes", "cls": cls, "base": enc(base), "type": cls,
                                                "coordinates": enc(x)}))
        for x in assigned[:12]:
            for mode in ("json", "dict"):
                batch.append(("instance_validate", {"mode": mode, "cls": cls, "base": enc(base), "type": cls,
                                                    "coordinates": enc(x)}))
            if cls in retag:        # the tag names another class of the same shape: read as an attribute object
                batch.append(("instance_validate", {"mode": "attributes", "cls": cls, "base": enc(base),
                                                    "type": retag[cls], "coordinates": enc(x)}))
    ctx.exhaustive["existing instances"] = ("for every class: an object built from a valid base, then `coordinates` assigned every single-site "
                                            "mutation that keeps the shape of the class (in and out of range, reversed, too few members), "
                                            "handed to geometry_validate in attributes / json / dict mode; `type` re-assigned to another class "
                                            "of the same shape")
    ctx.tally("exhaustive:instances", len(batch))
    return batch


def _stage_instances(ctx):
    _run(ctx, _instance_cases(ctx, Fraction(MODEL_MAXF)))


# ---------------------------------------------------------------- construction paths (HISTORIES.md section 2, 3)
def _samples(ctx, maxf, per_class):
    """per class: the valid bases, a reversed / un-normalised one and single-site mutations spread over the kinds
    (out of range, arity, nesting, count, order)"""
    pool = _pool()
    out = {}
    for cls, bases in _bases(maxf).items():
        muts = []
        for b in bases:
            muts += list(_mutations(b, pool))[1:]
        step = max(1, len(muts) // max(1, per_class - len(bases)))
        picked = list(bases) + muts[ctx.rng.randrange(step)::step][:per_class - len(bases)]
        out[cls] = picked
    return out


def _num_variants(x):
    """the same values as ints / numpy scalars / negative zero where the value allows"""
    import numpy

    def conv(v, kind):
        if isinstance(v, list):
            return [conv(y, kind) for y in v]
        v = Fraction(v)
        if kind == "int":
            return int(v) if v.denominator == 1 else v
        if kind == "np.int64":
            return NpI(int(v)) if v.denominator == 1 else v
        if kind == "np.float64":
            return NpF(v)
        if kind == "np.float32":
            return Np32(v) if Fraction(float(numpy.float32(float(v)))) == v else v
        if kind == "negzero":
            return NegZero(0) if v == 0 else v
        raise ValueError(kind)
    return {k: conv(x, k) for k in ("int", "np.int64", "np.float64", "np.float32", "negzero")}


def _path_cases(ctx, maxf):
    """every sample through every way of constructing / passing it: attribute objects of every kind, positional and
    keyword calls, the three exported names of the function, the class-level entry points, tuples / arrays / deques
    for lists, ints and numpy scalars for floats, the union through SoundEvent and through JSON"""
    batch = []
    rng = ctx.rng
    samples = _samples(ctx, maxf, ctx.budget(10, 40))
    n = {"carriers": 0, "calls": 0, "class": 0, "containers": 0, "numbers": 0, "union": 0}
    for cls, xs in samples.items():
        for x in xs:
            raw = enc(x)
            f = {"type": cls, "coordinates": raw}
            # (a) attribute objects: where the attributes live x (valid, invalid) x nine classes
            for carrier in CARRIERS:
                o = {"kind": "attrs", "fields": f, "carrier": carrier}
                batch.append(("geometry_validate", {"mode": "attributes", "obj": o, "call": rng.choice(("pos", "kw", "allkw", "kwrev"))}))
                n["carriers"] += 1
            for carrier in ("cls_type", "props", "slots", "namedtuple", "dc_slots", "geom_copy"):
                batch.append(("class_validate", {"cls": cls, "via": "from_attributes", "fields": f, "carrier": carrier}))
                batch.append(("union_validate", {"obj": {"kind": "attrs", "fields": f, "carrier": carrier}}))
                n["carriers"] += 2
            # (b) every style of call x every mode with its kind of object; the three exported names
            for mode, kind in (("dict", "dict"), ("json", "json"), ("attributes", "attrs")):
                for call in CALLS:
                    m = "json" if call in ("default", "objkw") else mode
                    o = {"kind": kind, "fields": f}
                    if m != mode:       # the default mode handed a dict / an attribute object: refusal not demanded
                        o["other_kind"] = True
                    batch.append(("geometry_validate", {"mode": m, "call": call, "fn": rng.choice(("data", "top", "geometries")),
                                                        "obj": o}))
                    n["calls"] += 1
            for call in ("kw", "kwrev"):
                batch.append(("construct", {"cls": cls, "call": call, "kw": {"type": cls, "coordinates": raw}}))
            batch.append(("construct", {"cls": cls, "call": "kwrev", "kw": {"coordinates": raw}}))
            batch.append(("geometry_validate", {"mode": "dict", "obj": {"kind": "dict", "fields": f, "mapping": "ordered"}}))
            n["calls"] += 4
            # (c) class-level entry points
            for via in VIAS:
                for ff in (f, {"coordinates": raw}):
                    batch.append(("class_validate", {"cls": cls, "via": via, "fields": ff}))
                    n["class"] += 1
            # (d) containers other than lists
            for seq in SEQS[1:]:
                batch.append(("construct", {"cls": cls, "seq": seq, "kw": {"coordinates": raw}}))
                batch.append(("geometry_validate", {"mode": "dict", "obj": {"kind": "dict", "fields": f, "seq": seq}}))
                batch.append(("geometry_validate", {"mode": "attributes", "obj": {"kind": "attrs", "fields": f, "seq": seq,
                                                                                  "carrier": rng.choice(CARRIERS[:15])}}))
                batch.append(("union_validate", {"obj": {"kind": "dict", "fields": f, "seq": seq}}))
                batch.append(("class_validate", {"cls": cls, "via": "model_validate", "fields": f, "seq": seq}))
                n["containers"] += 5
            # (e) the union as the annotation of a real field, in python and JSON mode
            for via in ("json", "soundevent", "soundevent_json"):
                batch.append(("union_validate", {"via": via, "obj": {"kind": "dict", "fields": f}}))
                n["union"] += 1
            batch.append(("union_validate", {"via": "soundevent", "obj": {"kind": "attrs", "fields": f}}))
            n["union"] += 1
        # (f) number kinds on the bases (integral leaves), every entry point
        for b in _bases(maxf)[cls] + [_int_base(cls, maxf)]:
            for kind, y in _num_variants(b).items():
                batch += entries(cls, enc(y))
                batch.append(("class_validate", {"cls": cls, "via": "model_validate", "fields": {"coordinates": enc(y)}}))
                batch.append(("geometry_validate", {"mode": "attributes", "obj": {"kind": "attrs", "carrier": "slots",
                                                                                  "fields": {"type": cls, "coordinates": enc(y)}}}))
                n["numbers"] += 7
    # (g) dispatch through the carriers: missing attribute, unknown tag, another class's tag
    k = 0
    one = {"TimeStamp": enc(F(1)), "Point": enc([F(1), F(2)]), "BoundingBox": enc([F(3), F(5), F(1), F(2)])}
    for carrier in CARRIERS[:15]:
        for cls, raw in one.items():
            for fields in ({"coordinates": raw}, {"type": cls}, {}, {"type": "Box", "coordinates": raw},
                           {"type": cls.lower(), "coordinates": raw}, {"type": "MultiPoint", "coordinates": raw},
                           {"type": cls, "coordinates": raw, "extra": True}):
                batch.append(("geometry_validate", {"mode": "attributes", "obj": {"kind": "attrs", "fields": fields, "carrier": carrier}}))
                k += 1
    for t in sorted(n):
        ctx.tally("paths:" + t, n[t])
    ctx.tally("paths:carrier-dispatch", k)
    ctx.exhaustive["construction paths"] = (
        f"{sum(len(v) for v in samples.values())} samples (valid bases and single-site mutations of all nine classes) x "
        f"{len(CARRIERS)} kinds of attribute object (namespace, plain class, dataclass plain / with default / frozen / slots, "
        "class-level type, class-level both, read-only properties, __slots__, namedtuple, typing.NamedTuple, __getattr__, "
        "class attribute shadowed by the instance, property shadowing the instance __dict__, geometry instances from the "
        "constructor / model_copy / deepcopy / model_validate / model_validate_json / pickle); x 6 call styles (positional, "
        "keyword, all keywords, keywords reversed, default mode, obj= alone) x 3 modes x the 3 exported names; constructor "
        "keywords in both orders; OrderedDict; class-level model_validate / model_validate_json (lax, strict) / "
        "from_attributes (object, dict) / without from_attributes; tuples, tuple/list mixes, numpy arrays, deques for lists; "
        "ints, numpy.int64 / float64 / float32, -0.0 for floats; the union as SoundEvent.geometry in python and JSON mode; "
        "missing / unknown / foreign tags through 15 carriers")
    return batch


def _int_base(cls, maxf):
    """a valid structure with integral leaves only (so that every leaf can be an int / numpy.int64 / float32)"""
    a, b, c = [F(0), F(0)], [F(1), F(4096)], [F(2), F(1)]
    return {"TimeStamp": F(3), "TimeInterval": [F(0), F(2)], "Point": [F(0), F(4096)], "BoundingBox": [F(2), F(4096), F(0), F(0)],
            "LineString": [c, b, a], "MultiPoint": [a, b], "Polygon": [[a, b, c]], "MultiLineString": [[a, b, c]],
            "MultiPolygon": [[[a, b, c]], [[c, b, a], [a, c, b]]]}[cls]


def _stage_paths(ctx):
    _run(ctx, _path_cases(ctx, Fraction(MODEL_MAXF)))


# ---------------------------------------------------------------- boundaries inside the domain (HISTORIES.md section 4)
def _fl(x):
    """the binary64 value nearest to x, exactly"""
    return Fraction(float(x))


def _around(c, scale_hint=None):
    """binary64 values at tolerance-sized distances on both sides of c: one ulp, 1e-12 ... 1e-6 relative (absolute
    around 0, down to the smallest denormal), and c itself"""
    import math
    c = Fraction(c)
    out = {c}
    cf = float(c)
    out.add(Fraction(math.nextafter(cf, math.inf)))
    out.add(Fraction(math.nextafter(cf, -math.inf)))
    base = abs(c) if c != 0 else Fraction(scale_hint or 1)
    for e in (6, 8, 9, 10, 12):
        d = base / 10 ** e
        for v in (c + d, c - d):
            v = _fl(v)
            if v != c:
                out.add(v)
    for k in (20, 30, 40):
        out.add(c + Fraction(1, 1 << k) if _fl(c + Fraction(1, 1 << k)) == c + Fraction(1, 1 << k) else c)
        out.add(c - Fraction(1, 1 << k) if _fl(c - Fraction(1, 1 << k)) == c - Fraction(1, 1 << k) else c)
    return sorted(out)


def _boundary_cases(ctx, maxf):
    """every comparison the property pins (t >= 0, 0 <= f <= MAX, interval start <= end, box and line-string
    normalisation `start > end`, strict `start < end` of a multi-line) with operands a tolerance apart, equal, and at
    small and large magnitudes"""
    batch = []
    n = 0
    zero = _around(0) + [NegZero(0)]
    top = _around(maxf)
    mags = [F(0), F(1), F(1000), F(10) ** 6, F(2) ** 40]            # times
    fmags = [F(0), F(1), F(1000), maxf - 1]                         # frequencies
    for v in zero:
        for x in (v,):
            batch += entries("TimeStamp", enc(x))
        batch += entries("TimeInterval", enc([v, F(1)]))
        batch += entries("TimeInterval", enc([v, v]))
        batch += entries("Point", enc([v, F(1)]))
        batch += entries("Point", enc([F(1), v]))
        for i in range(4):
            box = [F(1), F(1), F(2), F(2)]
            box[i] = v
            batch += entries("BoundingBox", enc(box))
        batch += entries("LineString", enc([[F(1), F(1)], [v, F(2)]]))
        batch += entries("LineString", enc([[F(0), v], [F(1), F(2)]]))
        batch += entries("MultiPoint", enc([[F(1), F(1)], [v, v]]))
        batch += entries("Polygon", enc([[[F(0), F(0)], [F(1), v], [v, F(1)]]]))
        batch += entries("MultiLineString", enc([[[v, F(0)], [F(1), v]]]))
        batch += entries("MultiPolygon", enc([[[[F(0), F(0)], [F(1), F(0)], [F(1), F(1)]]], [[[F(0), F(0)], [v, F(1)], [F(1), v]]]]))
        n += 16
    for v in top:
        batch += entries("Point", enc([F(0), v]))
        batch += entries("BoundingBox", enc([F(0), v, F(1), F(0)]))
        batch += entries("BoundingBox", enc([F(0), F(0), F(1), v]))
        batch += entries("LineString", enc([[F(0), F(0)], [F(1), v]]))
        batch += entries("MultiPoint", enc([[F(0), v]]))
        batch += entries("Polygon", enc([[[F(0), F(0)], [F(1), v], [F(2), F(1)]], [[F(0), F(0)], [F(1), F(0)], [F(1), v]]]))
        batch += entries("MultiLineString", enc([[[F(0), F(0)], [F(1), v]], [[F(0), v], [F(1), F(0)]]]))
        batch += entries("MultiPolygon", enc([[[[F(0), F(0)], [F(1), F(0)], [F(1), v]]]]))
        n += 8
    # two operands compared with each other
    for a in mags:
        for b in _around(a, 1):
            if b < 0:
                continue
            batch += entries("TimeInterval", enc([a, b]))
            batch += entries("TimeInterval", enc([b, a]))
            batch += entries("BoundingBox", enc([a, F(1), b, F(2)]))
            batch += entries("BoundingBox", enc([b, F(2), a, F(1)]))
            batch += entries("LineString", enc([[a, F(1)], [a + 5, F(3)], [b, F(2)]]))
            batch += entries("LineString", enc([[b, F(1)], [a, F(2)]]))
            batch += entries("MultiLineString", enc([[[a, F(1)], [b, F(2)]]]))
            batch += entries("MultiLineString", enc([[[F(0), F(1)], [a + 7, F(1)]], [[b, F(1)], [F(0), F(3)], [a, F(2)]]]))
            n += 8
    for a in fmags:
        for b in _around(a, 1):
            if b < 0 or b > maxf:
                continue
            batch += entries("BoundingBox", enc([F(0), a, F(1), b]))
            batch += entries("BoundingBox", enc([F(1), b, F(0), a]))
            n += 2
    ctx.tally("boundaries:tolerance-offsets", n)
    # every lattice point of non-dyadic axes: k/100 (times) and MAX - k/100 (frequencies), as the nearest float
    m = 0
    for k in range(0, 101):
        t = _fl(Fraction(k, 100))
        fq = _fl(maxf - Fraction(k, 100))
        batch += entries("TimeStamp", enc(t), which=("construct", "json"))
        batch += entries("Point", enc([t, fq]), which=("dict", "json", "union"))
        batch.append(("geometry_validate", {"mode": "json", "obj": {"kind": "text", "text":
                     '{"type": "TimeInterval", "coordinates": [%s, %s]}' % (k / 100, 1 + k / 100)}}))
        m += 3
    ctx.tally("boundaries:lattice", m)
    # sizes at which an implementation could switch strategy: > 16, > 256, >= 1024 members
    sizes = [16, 17, 256, 257, 1023, 1024, 1025] if ctx.thorough() else [17, 257, 1024, 1025]
    q = 0
    bads = ([F(-1, 1024), F(0)], [F(0), maxf + F(1, 1024)], [F(1), F(1), F(1)])
    for sz in sizes:
        # times are not monotone (odd points run three steps ahead): reversing is not sorting
        pts = [[F(i + (3 if i % 2 else 0), 8), F((i * 37) % 4096)] for i in range(sz)]
        bad_at = sorted({0, 16, sz // 2, sz - 1} & set(range(sz)))
        variants = [("valid", pts), ("reversed", list(reversed(pts)))]
        for n_i, i in enumerate(bad_at):
            for n_b, bad in enumerate(bads):
                if ctx.thorough() or (n_i + n_b) % 3 == 0:
                    y = list(pts)
                    y[i] = bad
                    variants.append((f"bad@{i}", y))
        variants.append(("tie", pts[:-1] + [[pts[0][0], F(1)]]))
        for j, (label, y) in enumerate(variants):
            one = ("construct", MODES[j % 3], "union", "dict", "attributes")[j % 5]
            which = ("construct", one) if label.startswith("bad") else ("construct", MODES[j % 3], "union")
            batch += entries("LineString", enc(y), which=which)
            batch += entries("MultiPoint", enc(y), which=(one,))
            batch += entries("Polygon", enc([y]), which=(MODES[(j + 1) % 3],))
            batch += entries("MultiLineString", enc([y]), which=(one,))
            if ctx.thorough() or j % 2 == 0:
                batch += entries("MultiPolygon", enc([[pts[:3], y]]), which=("construct",))
            q += 5
        # many members rather than many points
        tri = [[F(0), F(0)], [F(1), F(0)], [F(1), F(1)]]
        for i in (None, 0, sz - 1):
            polys = [[tri] for _ in range(sz)]
            lines = [[[F(0), F(0)], [F(1), F(k % 7)]] for k in range(sz)]
            if i is not None:
                polys[i] = [tri[:2]]
                lines[i] = [[F(1), F(0)], [F(1), F(1)]]
            batch += entries("MultiPolygon", enc(polys), which=("construct", "json"))
            batch += entries("MultiLineString", enc(lines), which=("construct", "attributes"))
            batch += entries("Polygon", enc([tri] * sz if i is None else [tri] * i + [tri[:2]] + [tri] * (sz - i - 1)), which=("dict",))
            q += 3
    ctx.tally("boundaries:sizes", q)
    ctx.exhaustive["boundaries"] = (
        "every pinned comparison with operands one ulp / 2^-20..2^-40 / 1e-6..1e-12 (relative; absolute around 0, down to "
        "the smallest denormal) apart on both sides, exactly equal and -0.0: t >= 0 and 0 <= f <= MAX in every position "
        "of every class, interval start <= end, box swap and line reversal (start > end), strict multi-line order, at "
        f"magnitudes 0, 1, 1e3, 1e6, 2^40 (times) and 0, 1, 1e3, MAX-1 (frequencies); every k/100 and MAX - k/100, k = 0..100; "
        f"point / member counts {sizes} (valid, reversed, one bad member first / 16th / middle / last, tie)")
    return batch


def _stage_boundaries(ctx):
    _run(ctx, _boundary_cases(ctx, Fraction(MODEL_MAXF)))


# ---------------------------------------------------------------- histories (HISTORIES.md section 1)
# A step is {"inp": {"op": <entry point>, "inp": <its input>}, "reuse": how | absent, "poison": bool}.  The model of a
# history is `SE.Validate.history`: the list of the models of its calls (C03_history_stateless /
# C03_history_prefix_independent: no call depends on what was called before).
H_OPS = ("construct", "geometry_validate", "union_validate", "class_validate")
H_REUSE = ("mutate", "rebind")
H_GEOM_REUSE = ("geom_assign", "geom_copy_update", "geom_deepcopy_assign", "geom_copy_assign")


def _h_build(step):
    """live argument objects of one call"""
    op, inp = step["op"], step["inp"]
    from soundevent import data
    if op == "construct":
        kw = {}
        if "type" in inp["kw"]:
            kw["type"] = inp["kw"]["type"]
        if "coordinates" in inp["kw"]:
            kw["coordinates"] = to_py(inp["kw"]["coordinates"])
        return {"op": op, "cls": getattr(data, inp["cls"]), "obj": kw, "kind": "kw"}
    if op == "class_validate":
        return {"op": op, "cls": getattr(data, inp["cls"]), "via": inp["via"], "obj": _py_fields(inp["fields"]), "kind": "dict"}
    o = inp["obj"]
    return {"op": op, "mode": inp.get("mode"), "call": inp.get("call"), "obj": _py_obj(o),
            "kind": o["kind"] + ":" + str(o.get("carrier") or "")}


def _h_call(a):
    from soundevent import data
    if a["op"] == "construct":
        return a["cls"](**a["obj"])
    if a["op"] == "class_validate":
        if a["via"] == "model_validate_json":
            return a["cls"].model_validate_json(json.dumps(a["obj"]))
        return a["cls"].model_validate(a["obj"])
    if a["op"] == "union_validate":
        return _union_adapter().validate_python(a["obj"])
    return _call_gv(data.geometry_validate, a["obj"], a["mode"], a["call"])


def _h_canon(step, a, g):
    return {"val": {"type": g.type, "cls": type(g).__name__, "coordinates": enc_out(g.coordinates)}}


def _h_snapshot(a):
    o = a["obj"]
    if isinstance(o, (dict, str, list)):
        return repr(o)
    if isinstance(o, types.SimpleNamespace):
        return repr(sorted(vars(o).items()))
    return repr((type(o).__name__, getattr(o, "type", None), getattr(o, "coordinates", None)))


def _h_fields(step):
    op, inp = step["op"], step["inp"]
    if op == "construct":
        f = inp["kw"]
    elif op == "class_validate":
        f = inp["fields"]
    else:
        f = inp["obj"].get("fields")
    if f is None:
        return None
    d = {}
    if "type" in f:
        d["type"] = f["type"]
    if "coordinates" in f:
        d["coordinates"] = to_py(f["coordinates"])
    return d


def _h_modify(a, step, how):
    """the argument object of the previous step, changed in place to carry this step's content: the same dict /
    namespace (and, with `mutate`, the same coordinates list object) - nothing remembered about it may survive"""
    if how in H_GEOM_REUSE:
        return _h_modify_geom(a, step, how)
    new = _h_build(step)
    if new["kind"] != a["kind"] or new["op"] != a["op"] or a["kind"] not in ("kw", "dict", "dict:", "attrs:", "attrs:ns"):
        return None
    d = _h_fields(step)
    if d is None:
        return None
    old = a["obj"]
    get = (lambda k: getattr(old, k, None)) if isinstance(old, types.SimpleNamespace) else (lambda k: old.get(k))
    if how == "mutate" and isinstance(get("coordinates"), list) and isinstance(d.get("coordinates"), list):
        lst = get("coordinates")
        lst[:] = d["coordinates"]
        d["coordinates"] = lst
    if isinstance(old, types.SimpleNamespace):
        for k in list(vars(old)):
            delattr(old, k)
        for k, v in d.items():
            setattr(old, k, v)
    else:
        old.clear()
        old.update(d)
    new["obj"] = old
    return new


def _h_modify_geom(a, step, how):
    """the geometry object handed over at the previous step, given this step's (valid, normal-form) coordinates by
    assignment / model_copy(update=...) / a copy that is then assigned to - and handed over again.  (Should the classes
    become frozen the assignment is refused: a fresh object then.)"""
    import copy
    g = a.get("obj")
    inp = step["inp"]
    o = inp.get("obj") or {}
    f = o.get("fields") or {}
    if (step["op"] not in ("geometry_validate", "union_validate") or not str(o.get("carrier", "")).startswith("geom")
            or not o.get("normal") or not hasattr(g, "model_copy") or getattr(g, "type", None) != f.get("type")):
        return None
    c = to_py(f["coordinates"])
    try:
        if how == "geom_assign":
            g.coordinates = c
        elif how == "geom_copy_update":
            g = g.model_copy(update={"coordinates": c})
        elif how == "geom_deepcopy_assign":
            g = copy.deepcopy(g)
            g.coordinates = c
        else:
            g = copy.copy(g)
            g.coordinates = c
        if g.coordinates != c:
            return None
    except Exception:  # noqa: BLE001
        return None
    return {"op": step["op"], "mode": inp.get("mode"), "call": inp.get("call"), "obj": g, "kind": "attrs:geom"}


def _normal_valid(rng, cls, maxf):
    """valid coordinates already in normal form (box corners sorted, line string forward)"""
    x = _rand_valid(rng, cls, maxf)
    if cls == "BoundingBox":
        x = [min(x[0], x[2]), min(x[1], x[3]), max(x[0], x[2]), max(x[1], x[3])]
    if cls == "LineString" and x[0][0] > x[-1][0]:
        x = list(reversed(x))
    return x


def _geom_histories(ctx, maxf, n):
    """a geometry object as the argument: validated, changed (assignment, model_copy(update=...), copies), validated
    again through the attributes mode and the union - the answer is the one for the coordinates it has now"""
    rng = ctx.rng
    hs = []
    for i in range(n):
        cls = TYPES[i % 9]
        seq = []
        for k in range(rng.randint(3, 5)):
            f = {"type": cls, "coordinates": enc(_normal_valid(rng, cls, maxf))}
            o = {"kind": "attrs", "carrier": "geom", "normal": True, "fields": f}
            if rng.random() < 0.7:
                st = {"inp": {"op": "geometry_validate", "inp": {"mode": "attributes", "obj": o}}}
            else:
                st = {"inp": {"op": "union_validate", "inp": {"obj": o}}}
            if k:
                st["reuse"] = rng.choice(H_GEOM_REUSE)
            if rng.random() < 0.25:
                st["poison"] = True
            seq.append(st)
        hs.append({"seq": seq})
    return hs


def _h_poison(g):
    """the caller edits the geometry it got back: later calls must not see it"""
    c = g.coordinates

    def wreck(x):
        if isinstance(x, list):
            for y in x:
                wreck(y)
            x.append(-1.0)
    if isinstance(c, list):
        wreck(c)
    try:
        g.coordinates = -7.0 if not isinstance(c, list) else c
        g.type = "Poisoned"
    except Exception:  # noqa: BLE001 - a frozen class: nothing to assign
        pass
    return True


def _h_holds(ctx, h, io):
    if not isinstance(io, dict) or "steps" not in io:
        return f"the history driver raised {io.get('raise') if isinstance(io, dict) else io}"
    for nt in io.get("notes", []):
        if nt["what"] == "argument-mutated":
            return (f"step {nt['step']}: the call changed one of its arguments in place "
                    f"(before {str(nt['before'])[:160]} after {str(nt['after'])[:160]})")
        if nt["what"] == "result-changed-later":
            nxt = h["seq"][nt["step"] + 1] if nt["step"] + 1 < len(h["seq"]) else {}
            if nxt.get("reuse") == "geom_assign":
                continue        # the harness itself assigned to that very object (the attributes mode hands an instance back)
            return (f"the geometry returned at step {nt['step']} changed after later calls "
                    f"(was {json.dumps(nt['first'])[:160]} now {json.dumps(nt['now'])[:160]})")
    calls = [{"op": st["inp"]["op"], "args": OPS[st["inp"]["op"]].to_model(st["inp"]["inp"])} for st in h["seq"]]
    mos = ctx.model("history", {"calls": calls})
    trail = []
    for k, (st, out, mo) in enumerate(zip(h["seq"], io["steps"], mos)):
        base = OPS[st["inp"]["op"]]
        trail.append(st["inp"]["op"] + (":reuse-" + str(st["reuse"]) if st.get("reuse") else "") + ("+poison" if st.get("poison") else ""))
        msg = base.holds(ctx, st["inp"]["inp"], out) or base.compare(st["inp"]["inp"], out, mo)
        if msg:
            return (f"history step {k} ({' -> '.join(trail)}): {msg}: impl {json.dumps(out)[:200]} model {json.dumps(mo)[:200]}")
    return None


def _make_history_op():
    from .. import history
    hop = history.history_op("history", Op("call", None), _h_build, _h_call, _h_canon, snapshot=_h_snapshot,
                             modify=_h_modify, poison=_h_poison)
    return Op("history", hop.impl, holds=_h_holds, compare=lambda inp, io, mo: None, determined=True, no_model=True,
              nontrivial=hop.nontrivial)


OPS["history"] = _make_history_op()


def _h_variants(x, rng):
    """neighbours of a call: the same content through another entry point; the same class with one leaf out of range /
    another valid value (same length, same first member); the same coordinates under another class of that shape;
    the members reversed"""
    op, inp = x["op"], x["inp"]
    maxf = Fraction(MODEL_MAXF)
    if op == "construct":
        cls, raw = inp["cls"], inp["kw"].get("coordinates")
    elif op == "class_validate":
        cls, raw = inp["cls"], inp["fields"].get("coordinates")
    else:
        f = inp["obj"].get("fields") or {}
        cls, raw = f.get("type"), f.get("coordinates")
    if cls not in TYPES or raw is None:
        return []
    out = [{"op": o, "inp": i} for o, i in entries(cls, raw)]
    out.append({"op": "class_validate", "inp": {"cls": cls, "via": "model_validate", "fields": {"coordinates": raw}}})
    # a call that relies on the default mode, after calls that named one (an option must not leak into module state)
    for call in ("default", "objkw", "pos"):
        out.append({"op": "geometry_validate", "inp": {"mode": "json", "call": call,
                                                       "obj": {"kind": "json", "fields": {"type": cls, "coordinates": raw}}}})
    leaves = list(_leaf_paths(raw))
    for _ in range(3):
        if leaves:
            p = rng.choice(leaves)
            bad = _set(raw, p, enc(_rand_bad(rng, maxf)))
            good = _set(raw, p, enc(F(rng.randint(0, 64), 8)))
            for y in (bad, good):
                out += [{"op": o, "inp": i} for o, i in entries(cls, y, which=(rng.choice(ALL_ENTRIES),))]
    same_shape = {"LineString": "MultiPoint", "MultiPoint": "LineString", "Polygon": "MultiLineString",
                  "MultiLineString": "Polygon", "TimeInterval": "Point", "Point": "TimeInterval"}
    if cls in same_shape:
        out += [{"op": o, "inp": i} for o, i in entries(same_shape[cls], raw, which=(rng.choice(ALL_ENTRIES),))]
    if isinstance(raw, list) and len(raw) > 1:
        out += [{"op": o, "inp": i} for o, i in entries(cls, list(reversed(raw)), which=(rng.choice(ALL_ENTRIES),))]
    return out


def _stage_histories(ctx):
    """consecutive calls in one process on shared identities: x, a neighbour of x, x again; argument objects that are
    changed in place and used again; returned geometries edited by the caller; earlier results read again after later
    calls; every step judged by the model of its call alone"""
    from .. import history
    rng = ctx.rng
    maxf = Fraction(MODEL_MAXF)
    cases = []
    for cls in TYPES:
        xs = list(_bases(maxf)[cls]) + [_rand_valid(rng, cls, maxf) for _ in range(ctx.budget(3, 12))]
        for x in xs:
            for o, i in entries(cls, enc(_ints_variant(x, rng))):
                cases.append({"op": o, "inp": i})
    rng.shuffle(cases)
    hs = history.sequences(rng, cases, ctx.budget(260, 2600), variants=_h_variants, reuse_hows=H_REUSE, poison=True)
    # the C03-7 kind written out: a rejected member first, then valid ones of the same class, for every class and entry
    for cls in TYPES:
        good = _bases(maxf)[cls][0]
        bad = enc(_set(good, next(iter(_leaf_paths(good))), F(-1))) if isinstance(good, list) else enc(F(-1))
        for which in ALL_ENTRIES:
            seq = [{"inp": {"op": o, "inp": i}} for o, i in entries(cls, bad, which=(which,)) + entries(cls, enc(good), which=(which,)) * 2]
            hs.append({"seq": seq})
    hs += _geom_histories(ctx, maxf, ctx.budget(90, 900))
    for h in hs:
        for st in h["seq"]:
            ctx.tally("history:" + (("reuse-" + st["reuse"]) if st.get("reuse") else "fresh") + ("+poison" if st.get("poison") else ""))
    ctx.run_cases(OPS["history"], hs)
    ctx.exhaustive["histories"] = (f"{len(hs)} sequences of 3-5 calls (constructor, three modes, union, class-level) in one process: x, a "
                                   "neighbour (other entry point / one leaf out of range or changed / another class of the same shape / "
                                   "reversed), x again; dict / keyword / namespace arguments reused after in-place change (same container "
                                   "and same coordinates list object); returned geometries poisoned in place; every live result "
                                   "canonicalised again at the end; arguments snapshotted around every call; geometry objects as arguments changed by "
                                   "assignment / model_copy(update=...) / copy + assignment between calls (valid normal-form coordinates)")


def _nf(x):
    if isinstance(x, list):
        return [_nf(y) for y in x]
    return {"nan": float("nan"), "inf": float("inf"), "-inf": float("-inf"), "1e400": float("inf")}.get(x, x)


def _nf_text(x):
    if isinstance(x, list):
        return "[" + ", ".join(_nf_text(y) for y in x) + "]"
    return {"nan": "NaN", "inf": "Infinity", "-inf": "-Infinity"}.get(x, repr(x) if not isinstance(x, str) else x)


def _stage_nonfinite_judged(ctx):
    """Non-finite numbers (known finding C03-1).  The rational model has no value for them; what the property
    asks is evaluated directly on the real objects: an object may exist only if every coordinate is >= 0 (NaN is
    not) and its JSON dump re-validates to an equal geometry (the dump of inf / NaN is `null`)."""
    from soundevent import data
    import math
    shapes = [("TimeStamp", lambda v: v), ("TimeInterval", lambda v: [0.0, v]), ("Point", lambda v: [v, 1.0]),
              ("Point", lambda v: [1.0, v]), ("BoundingBox", lambda v: [0.0, 0.0, v, 1.0]),
              ("LineString", lambda v: [[0.0, 1.0], [v, 1.0]]), ("MultiPoint", lambda v: [[v, 1.0]]),
              ("Polygon", lambda v: [[[0.0, 0.0], [v, 0.0], [1.0, 1.0]]]),
              ("MultiLineString", lambda v: [[[0.0, 0.0], [v, 0.0]]]),
              ("MultiPolygon", lambda v: [[[[0.0, 0.0], [1.0, v], [1.0, 1.0]]]])]
    n = 0
    for label in ("nan", "inf", "-inf", "1e400"):
        for cls, mk in shapes:
            coords = mk(label)
            for entry in (("json",) if label == "1e400" else ("construct", "dict", "json", "attributes")):
                inp = {"cls": cls, "entry": entry, "coordinates": coords}
                n += 1
                try:
                    if entry == "construct":
                        g = getattr(data, cls)(coordinates=_nf(coords))
                    elif entry == "dict":
                        g = data.geometry_validate({"type": cls, "coordinates": _nf(coords)}, mode="dict")
                    elif entry == "attributes":
                        g = data.geometry_validate(types.SimpleNamespace(type=cls, coordinates=_nf(coords)), mode="attributes")
                    else:       # JSON text: Python's json reads NaN / Infinity, and 1e400 overflows to inf
                        g = data.geometry_validate('{"type": "%s", "coordinates": %s}' % (cls, _nf_text(coords)), mode="json")
                except Exception as e:  # noqa: BLE001
                    from ..core import canon_exc
                    c = canon_exc(e)
                    ctx.tally("nonfinite:rejected")
                    if c["raise"] != "invalid":
                        ctx.fail("property", "nonfinite", inp=inp, impl=c, detail="a non-finite coordinate is rejected with something "
                                 "other than a validation error")
                    continue
                flat = []

                def walk(v):
                    if isinstance(v, (list, tuple)):
                        for y in v:
                            walk(y)
                    else:
                        flat.append(v)
                walk(g.coordinates)
                why = []
                if any(isinstance(v, float) and math.isnan(v) for v in flat):
                    why.append("a NaN coordinate is neither >= 0 nor within [0, MAX_FREQUENCY]")
                try:
                    dumped = g.model_dump_json()
                    r = data.geometry_validate(dumped, mode="json")
                    if not (type(r) is type(g) and r.coordinates == g.coordinates):
                        why.append(f"its JSON dump {dumped} re-validates to a different geometry")
                except Exception:  # noqa: BLE001
                    why.append("its JSON dump does not re-validate")
                if why:
                    ctx.tally("nonfinite:accepted-in-violation")
                    ctx.fail("property", "nonfinite", inp=inp, impl={"accepted": repr(g.coordinates)[:200]},
                             detail="object built from a non-finite coordinate: " + "; ".join(why))
                else:
                    ctx.tally("nonfinite:accepted-consistently")
    ctx.tally("probe:non-finite", n)
    ctx.note(f"non-finite coordinates (NaN, inf, -inf, JSON text 1e400) in {n} (class, position, entry point) combinations: "
             f"{ctx.tallies.get('nonfinite:rejected', 0)} rejected, {ctx.tallies.get('nonfinite:accepted-in-violation', 0)} "
             "accepted although NaN is not >= 0 / the JSON dump (null) does not re-validate (known finding C03-1)")


_CONFIRM = r"""
import json, os, sys, warnings
warnings.filterwarnings("ignore")
sys.path.insert(0, os.environ["C03_VERIF"]); sys.path.insert(0, os.environ.get("SOUNDEVENT_SRC", "/repo/src"))
from harness.props import c03
from harness.core import canon_exc
for op, inp in json.load(sys.stdin):
    try:
        out = c03.OPS[op].impl(inp)
    except Exception as e:
        out = canon_exc(e)
    print(json.dumps(out, default=str))
"""


def _stage_confirm(ctx):
    """Every failure found (smallest first) is run once more as the only thing a fresh process does.  One that does not
    fail there exists only because of *other* earlier calls in this process (state carried between calls): it is
    labelled as such and, when failures that do reproduce on their own were found as well (typically `history`
    failures, whose replay is the whole sequence), those are reported instead."""
    import os
    import subprocess
    import sys
    from ..leanio import VERIF
    def judged(f):      # not the known finding C03-2 (matched and reported by the framework afterwards)
        return f.kind == "property" and f.op in OPS and isinstance(f.impl, dict) and not _match_instance_passthrough(f, None)
    cands = [f for f in ctx.failures if judged(f)]
    if not cands:
        return

    def strip(o):
        if isinstance(o, dict):
            return {k: strip(v) for k, v in o.items() if k != "trace"}
        if isinstance(o, list):
            return [strip(v) for v in o]
        return o
    single = sorted([f for f in cands if f.op != "history"], key=lambda f: f.size())[:12]
    hist = sorted([f for f in cands if f.op == "history"], key=lambda f: f.size())[:12]
    same, dependent = [], []
    for f in single + hist:
        try:
            p = subprocess.run([sys.executable, "-c", _CONFIRM], input=json.dumps([[f.op, f.inp]]), text=True,
                               stdout=subprocess.PIPE, stderr=subprocess.DEVNULL, timeout=120,
                               env={**os.environ, "C03_VERIF": VERIF})
            fresh = json.loads(p.stdout.strip().splitlines()[-1])
        except Exception:  # noqa: BLE001 - no verdict on this one
            continue
        if strip(fresh) == strip(f.impl):
            same.append(f)
        else:
            f.detail += (" [state carried between calls: run alone in a fresh process the same input gives "
                         + json.dumps(strip(fresh))[:160] + "]")
            dependent.append(f)
    ctx.tally("confirm:fresh-process", len(single) + len(hist))
    if dependent and same:
        # the failures that were not re-run share the state of the process with those that were: keep only what is
        # known to reproduce on its own
        keep_ids = {id(f) for f in same}
        dropped = [f for f in ctx.failures if id(f) not in keep_ids and judged(f)]
        ctx.note(f"{len(dropped)} failures are not reported on their own: {len(dependent)} of the {len(single) + len(hist)} smallest "
                 "exist only after other earlier calls in the same process (e.g. " + json.dumps(dependent[0].inp)[:200]
                 + "); the replays reported reproduce in a fresh process")
        drop_ids = {id(f) for f in dropped}
        ctx.failures[:] = [f for f in ctx.failures if id(f) not in drop_ids]


def run(ctx):
    # The differential stages come first and the symbolic tracing last: tracing runs the validators on symbolic
    # values, and code that keeps state between calls (a cache, a "last result") would keep *those* - the later
    # differential runs would then observe crashes that no caller can reproduce.  Histories come last among the
    # differential stages for the same reason (they poison returned objects on purpose): a failure that only
    # shows after earlier calls is then reported with its history as the replay.
    ctx.stage("tables", _tables, ctx)
    ctx.stage("corpus", _stage_corpus, ctx)
    ctx.stage("exhaustive", _stage_exhaustive, ctx)
    ctx.stage("instances", _stage_instances, ctx)
    ctx.stage("paths", _stage_paths, ctx)
    ctx.stage("boundaries", _stage_boundaries, ctx)
    ctx.stage("random", _stage_random, ctx)
    ctx.stage("non-finite", _stage_nonfinite_judged, ctx)
    ctx.stage("histories", _stage_histories, ctx)
    ctx.stage("fresh-process-confirmation", _stage_confirm, ctx)
    ctx.stage("symbolic-ties", _symbolic_ties, ctx)
    ctx.stage("discharge", ctx.discharge, ["Proofs.C03", "SoundeventModel.ValidateTactics", "SoundeventModel.Tactics"])


# ---------------------------------------------------------------- directed search after a broken tie
def _assign(shape, it):
    if shape is None:
        return next(it)
    return [_assign(s, it) for s in shape]


_LIT_RE = None


def _tree_consts(tree, acc):
    """the numeric literals the traced code compares against"""
    import re
    global _LIT_RE
    if _LIT_RE is None:
        _LIT_RE = re.compile(r"\(\((-?\d+) : Rat\) / (\d+)\)|\((-?\d+) : Rat\)")
    if tree[0] == "ite":
        for m in _LIT_RE.finditer(tree[1][0]):
            acc.add(Fraction(int(m.group(1)), int(m.group(2))) if m.group(1) else Fraction(int(m.group(3))))
        _tree_consts(tree[2], acc)
        _tree_consts(tree[3], acc)
    return acc


def _float_between(a, b):
    q = Fraction(float((a + b) / 2))
    return q if a < q < b else None


def _boundary_pool(consts, pool):
    """pool values, every constant of the code, and a binary64 value strictly between neighbours"""
    pts = sorted(set(pool) | set(consts))
    out = set(pts)
    for a, b in zip(pts, pts[1:]):
        q = _float_between(a, b)
        if q is not None:
            out.add(q)
    return sorted(v for v in out if Fraction(float(v)) == v)


def search(ctx, failures):
    """A tie broke (an obligation no longer elaborates, a stage crashed): look for a concrete input on
    which the property fails.  (1) where an extracted decision tree exists, evaluate it against the
    model on value grids and run the differing assignments on the real code; (2) value pools built
    around the code's own MAX_FREQUENCY; (3) wider exhaustive / random differential runs."""
    maxf_code = _code_maxf() or Fraction(MODEL_MAXF)
    pool = _pool()
    trees = getattr(ctx, "_c03_trees", {})
    batch = []
    for f in failures:
        t = trees.get(f.op)
        if t is None:
            continue
        cls, shape, names, tree = t
        vals = _boundary_pool(_tree_consts(tree, set()), pool)
        envs = list(st.grid_envs(names, vals, limit=8000, rng=ctx.rng)) if names else [{}]
        cands = []
        for env in envs:
            r = st.tree_eval(tree, env)
            x = _assign(shape, iter([env[n] for n in names]))
            cands.append((x, r))
        outs = ctx.model_many("construct", [{"cls": cls, "type": None, "coordinates": to_model_raw(enc(x))} for x, _ in cands])
        k = 0
        for (x, r), mo in zip(cands, outs):
            ext_ok = r[0] == "ok"
            same = (ext_ok == ("val" in mo)) and (not ext_ok or enc_out_frac(r[1]) == mo["val"]["coordinates"])
            if not same:
                batch += entries(cls, enc(x))
                k += 1
                if k >= 40:
                    break
        ctx.tally("search:tree-vs-model-differences", k)
    if batch:
        _run(ctx, batch)
    if any(f.kind == "property" for f in ctx.failures):
        return
    # the code's own boundary
    for m in {maxf_code, Fraction(MODEL_MAXF)}:
        b = []
        for cls, bases in _bases(m).items():
            for base in bases:
                for x in _mutations(base, pool):
                    b += entries(cls, enc(x))
        _run(ctx, b)
    if any(f.kind == "property" for f in ctx.failures):
        return
    _run(ctx, _dispatch_cases(ctx, maxf_code))
    _run(ctx, _random(ctx, maxf_code, 20000))


def enc_out_frac(v):
    if isinstance(v, list):
        return [enc_out_frac(x) for x in v]
    return rat(Fraction(v))


def enc_out_frac_raw(raw):
    """raw input coordinates (with int / numpy markers) as the canonical output would show them"""
    if isinstance(raw, list):
        return [enc_out_frac_raw(x) for x in raw]
    return rat(Fraction(raw[1:] if raw[:1] in MARKS else raw))
