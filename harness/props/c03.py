"""C03 — Geometry validation accepts exactly the valid geometries and normalises them."""
import itertools
import json
import types
import typing
from fractions import Fraction

from ..core import Op
from ..leanio import InfraError
from ..rat import rat
from .. import symtrace as st
from ..symtrace import Sym

PROPERTY = "C03"
LEAN_MODULE = "Proofs.C03"
_T = "SE.Proofs.C03."
THEOREMS = [_T + n for n in [
    "C03_result", "C03_accept_iff", "C03_no_crash", "C03_reject", "C03_validate_eq", "C03_specB_iff",
    "C03_normal", "C03_valid", "C03_valid_iff_constructible", "C03_coordinates_kept", "C03_box_swapped",
    "C03_line_reversed", "C03_interval_reversed_rejected", "C03_multiline_strict", "C03_normalise_idempotent",
    "C03_fixpoint", "C03_dump_injective",
    "C03_table_wellFormed", "C03_wellFormedB_sound", "C03_geometryValidate_eq", "C03_construct_eq",
    "C03_entrypoints_agree", "C03_bad_tag_rejected", "C03_class_of_tag", "C03_dump_roundtrip",
    "C03_construct_roundtrip",
    "C03_point_boundary", "C03_accept_zero", "C03_accept_max_frequency", "C03_reject_above_max",
    "C03_reject_negative", "C03_reject_deep_inside", "C03_reject_deep_inside_line",
    "C03_reject_wrong_arity", "C03_reject_wrong_nesting",
    "C03_holds_complete", "C03_holds_sound",
    # review additions: every rule of the wording per class in elementary terms; geom_type() / the construction
    # of GEOMETRY_MAPPING; the `Geometry` union (the construction path of every model holding a geometry);
    # an existing instance handed to geometry_validate (known finding C03-2)
    "C03_accept_dump_iff", "C03_shape_required", "C03_timestamp_iff", "C03_interval_iff", "C03_box_iff",
    "C03_linestring_iff", "C03_multipoint_iff", "C03_polygon_iff", "C03_multilinestring_iff",
    "C03_multipolygon_iff",
    "C03_membersOkB_sound", "C03_buildTable_wellFormed", "C03_union_unique", "C03_union_eq", "C03_union_agrees",
    "C03_union_rejects", "C03_union_valid",
    "C03_instance_passthrough", "C03_instance_revalidate_partial", "C03_instance_wrong_mode"]]
LEVEL_TEXT = ("Lean theorems over an executable model of the nine geometry classes (pydantic's typed parse of the "
              "annotated shape, then the class's field validators in the code's order and control flow) and of "
              "geometry_validate's mode/tag dispatch: for all rational coordinate structures, construction succeeds iff "
              "the declarative wording accepts (and otherwise fails with a validation error, never a crash), the result "
              "is the input normalised (box swapped, backwards line string reversed), is in normal form, valid, of the "
              "class named by its tag, and a fixpoint of dump/re-validate; the constructor and the three modes agree, and "
              "so does validation against the `Geometry` union (the path by which geometries enter SoundEvent and AOEF "
              "objects); per class the acceptance condition is proved in elementary terms; the table built from "
              "geom_type() over the class list is well formed. "
              "Every class's validator chain is re-derived from the source on each run by path-exhaustive symbolic "
              "tracing at fixed shapes and proved equal to the model for all coordinate values; GEOMETRY_MAPPING and "
              "MAX_FREQUENCY are re-extracted and discharged as obligations; exhaustive small structures and random "
              "structures are run differentially through all four entry points.")
LEVEL_NOTE = ("Trusted: Lean kernel; symbolic tracer (ordered-field semantics); pydantic-core's typed parsing of "
              "numbers and lists, its handling of `from_attributes`, of Literal/default fields, of unions, of existing "
              "instances and of ValueError inside validators (modelled, and exercised un-stubbed by the differential "
              "runs); CPython json and float repr round trip. Model tied to the code by regenerated obligations (fixed "
              "shapes up to 4 points / 2 rings / 2 parts; GEOMETRY_MAPPING, geom_type(), ALL_GEOMETRY_TYPES, the members "
              "of the Geometry union, MAX_FREQUENCY) and generator-bounded correspondence. Unmodelled: non-numeric "
              "inputs (strings, booleans, tuples: pydantic's lax coercions); tag-less inputs of the union; integers "
              "beyond 2^53 (rounded by int->float). Non-finite floats have no rational value: the property is evaluated "
              "on them directly on the real objects (known finding C03-1: NaN / +inf times accepted, dumped as null). "
              "Known finding C03-2: an existing instance is handed back unvalidated by the attributes mode "
              "(C03_instance_passthrough; C03_instance_revalidate_partial holds for valid instances).")
TECHNIQUE = ("Lean 4 proof over model; per-class validator chains symbolically traced and proved equal to the model; "
             "table obligations by decide; exhaustive small-structure and random correspondence through four entry points")
RULE = ("exhaustive shape universes (all nestings to depth 3), exhaustive value tuples over the boundary pool for the "
        "flat classes, exhaustive point sequences, every leaf of nested bases replaced by every pool value, arity / "
        "nesting / count / order mutations, random structures; each through constructor and geometry_validate in "
        "dict / json / attributes mode; non-trivial = the implementation accepted the input (an object exists); "
        "distinct = distinct (operation, input)")
TRUSTED = ["pydantic-core: typed parse of float / List[...] in python and attribute mode, Literal + default handling, "
           "ValueError inside a field validator becomes ValidationError, other exceptions propagate; smart-mode unions "
           "try every member; an instance of the requested class is returned as it is",
           "CPython json.dumps/json.loads and float repr round trip (json mode)",
           "symbolic tracer: the validator chain is taken from cls.__pydantic_decorators__.field_validators (order, mode)"]
ASSUMPTIONS = ["model inputs are finite numbers: ints with |n| <= 2^53, binary64 floats and numpy.float64, in (nested) lists",
               "ordered-field semantics for the symbolic tie (validators only compare, no arithmetic)"]
NOT_COMPARED = ["error messages (only the error class)", "python type of the stored numbers (int inputs become floats)",
                "non-numeric inputs (strings, booleans, tuples) and tag-less union inputs: not generated",
                "non-finite floats: no model value; judged by the property's own clauses on the real objects"]

TYPES = ["TimeStamp", "TimeInterval", "Point", "LineString", "Polygon", "BoundingBox",
         "MultiPoint", "MultiLineString", "MultiPolygon"]
DEPTH = {"TimeStamp": 0, "TimeInterval": 1, "Point": 1, "BoundingBox": 1, "LineString": 2, "MultiPoint": 2,
         "Polygon": 3, "MultiLineString": 3, "MultiPolygon": 4}
CTOR = {"TimeStamp": ".timeStamp", "TimeInterval": ".timeInterval", "Point": ".point", "LineString": ".lineString",
        "Polygon": ".polygon", "BoundingBox": ".boundingBox", "MultiPoint": ".multiPoint",
        "MultiLineString": ".multiLineString", "MultiPolygon": ".multiPolygon"}
MODEL_FN = {"TimeStamp": "vTimeStamp", "TimeInterval": "fvTimeInterval", "Point": "vPoint",
            "LineString": "fvLineString", "Polygon": "vPolygon", "BoundingBox": "vBoundingBox",
            "MultiPoint": "vMultiPoint", "MultiLineString": "fvMultiLineString", "MultiPolygon": "vMultiPolygon"}
MODEL_MAXF = 5_000_000
MODES = ["dict", "json", "attributes"]


# ---------------------------------------------------------------- raw coordinate structures
# leaves: "n/d" (a binary64 float with exactly that value), "i<n>" (a Python int) or "f<n/d>" (a numpy.float64
# with that value - a subclass of float); lists nest freely
class NpF(Fraction):
    """marks a leaf that is handed to the code as numpy.float64"""


def enc(x):
    if isinstance(x, list):
        return [enc(y) for y in x]
    if isinstance(x, bool):
        raise TypeError("bool")
    if isinstance(x, int):
        return f"i{x}"
    if isinstance(x, NpF):
        return "f" + rat(Fraction(x))
    return rat(x)


def to_py(raw):
    if isinstance(raw, list):
        return [to_py(x) for x in raw]
    if isinstance(raw, str) and raw.startswith("i"):
        return int(raw[1:])
    np64 = isinstance(raw, str) and raw.startswith("f")
    q = Fraction(raw[1:] if np64 else raw)
    f = float(q)
    if Fraction(f) != q:
        raise InfraError(f"generator produced {raw}, which is not a binary64 value")
    if np64:
        import numpy
        return numpy.float64(f)
    return f


def to_model_raw(raw):
    if isinstance(raw, list):
        return [to_model_raw(x) for x in raw]
    if isinstance(raw, str) and raw[:1] in ("i", "f"):
        return raw[1:]
    return raw


def enc_out(v):
    if isinstance(v, (list, tuple)):
        return [enc_out(x) for x in v]
    return rat(v)


# ---------------------------------------------------------------- the implementation, four entry points
def _monitor(g):
    """facts about an accepted object that only the real code can show: class identity and the
    re-validation of its own dumps"""
    from soundevent import data
    mon = {}
    try:
        cls = getattr(data, g.type, None)
        mon["instance_of_class_named_by_tag"] = bool(isinstance(cls, type) and isinstance(g, cls)
                                                     and type(g).__name__ == g.type)
    except Exception as e:  # noqa: BLE001
        mon["instance_of_class_named_by_tag"] = repr(e)[:120]
    checks = [("json_dump_revalidates_equal", lambda: data.geometry_validate(g.model_dump_json(), mode="json")),
              ("dict_dump_revalidates_equal", lambda: data.geometry_validate(g.model_dump(), mode="dict")),
              ("object_revalidates_equal", lambda: data.geometry_validate(g, mode="attributes"))]
    ta = _union_adapter()
    if ta is not None:      # the `Geometry` union: the path by which a geometry enters SoundEvent / AOEF objects
        checks.append(("union_dump_revalidates_equal", lambda: ta.validate_python(g.model_dump())))
    for name, thunk in checks:
        try:
            r = thunk()
            mon[name] = bool(type(r) is type(g) and r.type == g.type and r.coordinates == g.coordinates)
        except Exception as e:  # noqa: BLE001
            mon[name] = repr(e)[:120]
    return mon


def _canon(g):
    return {"val": {"type": g.type, "cls": type(g).__name__, "coordinates": enc_out(g.coordinates)},
            "mon": _monitor(g)}


def _impl_construct(inp):
    from soundevent import data
    cls = getattr(data, inp["cls"])
    kw = {}
    if "type" in inp["kw"]:
        kw["type"] = inp["kw"]["type"]
    if "coordinates" in inp["kw"]:
        kw["coordinates"] = to_py(inp["kw"]["coordinates"])
    return _canon(cls(**kw))


EXTRA = {"id": "7", "coordinate": [1.0, 2.0], "Type": "Point", "uuid": None}


def _py_fields(fields):
    d = {}
    if fields.get("extra"):          # keys / attributes the classes do not declare: ignored
        d.update(EXTRA)
    if "type" in fields:
        d["type"] = fields["type"]
    if "coordinates" in fields:
        d["coordinates"] = to_py(fields["coordinates"])
    return d


_ADAPTER = {}


def _union_adapter():
    """pydantic's validator of the `Geometry` union (None if the code no longer has one)"""
    from soundevent.data import geometries as G
    u = getattr(G, "Geometry", None)
    if u is None:
        return None
    if _ADAPTER.get("u") is not u:
        import pydantic
        _ADAPTER["u"] = u
        _ADAPTER["ta"] = pydantic.TypeAdapter(u)
    return _ADAPTER["ta"]


def _py_obj(o):
    k = o["kind"]
    if k == "dict":
        return _py_fields(o["fields"])
    if k == "json":
        return json.dumps(_py_fields(o["fields"]))
    if k == "attrs":
        return types.SimpleNamespace(**_py_fields(o["fields"]))
    if k == "text":
        return o["text"]
    if k == "list":
        return to_py(o["items"])
    raise ValueError(k)


def _impl_gv(inp):
    from soundevent import data
    return _canon(data.geometry_validate(_py_obj(inp["obj"]), mode=inp["mode"]))


def _impl_union(inp):
    ta = _union_adapter()
    if ta is None:
        raise AttributeError("soundevent.data.geometries.Geometry is gone")
    return _canon(ta.validate_python(_py_obj(inp["obj"])))


def _model_union(inp):
    o = inp["obj"]
    k = o["kind"]
    if k in ("dict", "attrs"):
        d = _doc(o["fields"])
        return {"src": {"kind": "mapping" if k == "dict" else "object", **d}}
    return {"src": {"kind": "unusable"}}


def _make_instance(inp):
    """an existing object of class `cls` whose fields were assigned after construction (or, should the
    classes become frozen, built with model_construct): what a caller who mutated a geometry holds"""
    from soundevent import data
    cls = getattr(data, inp["cls"])
    inst = cls(coordinates=to_py(inp["base"]))
    try:
        inst.coordinates = to_py(inp["coordinates"])
        inst.type = inp["type"]
        if inst.coordinates != to_py(inp["coordinates"]) or inst.type != inp["type"]:
            raise ValueError("assignment was intercepted")
    except Exception:  # noqa: BLE001
        inst = cls.model_construct(type=inp["type"], coordinates=to_py(inp["coordinates"]))
    return inst


def _impl_instance(inp):
    from soundevent import data
    g = data.geometry_validate(_make_instance(inp), mode=inp["mode"])
    return {"val": {"type": g.type, "cls": type(g).__name__, "coordinates": enc_out(g.coordinates)}}


def _model_instance(inp):
    return {"mode": inp["mode"], "cls": inp["cls"], "type": inp["type"], "coordinates": to_model_raw(inp["coordinates"])}


def _compare_instance(inp, io, mo):
    a = {k: v for k, v in io.items() if k not in ("mon", "trace")} if isinstance(io, dict) else io
    if a == mo.get("demand"):
        return None
    if a == mo.get("asis"):
        return ("an existing instance is handed back without validation: the attribute object's coordinates are "
                "neither checked nor normalised (instance pass-through)")
    return "implementation agrees neither with the model of the code as it is nor with the property"


def _doc(fields):
    return {"type": fields.get("type"), "coordinates": to_model_raw(fields["coordinates"]) if "coordinates" in fields else None}


def _model_construct(inp):
    kw = inp["kw"]
    return {"cls": inp["cls"], "type": kw.get("type"),
            "coordinates": to_model_raw(kw["coordinates"]) if "coordinates" in kw else None}


def _is_numeric(x):
    if isinstance(x, list):
        return all(_is_numeric(y) for y in x)
    return isinstance(x, (int, float)) and not isinstance(x, bool) and x == x and abs(x) != float("inf")


def _model_gv(inp):
    o = inp["obj"]
    k = o["kind"]
    if k == "dict":
        mo = {"kind": "val", "doc": _doc(o["fields"])}
    elif k == "json":
        mo = {"kind": "str", "parsed": _doc(o["fields"])}
    elif k == "attrs":
        mo = {"kind": "attrs", **_doc(o["fields"])}
    elif k == "list":
        mo = {"kind": "val", "doc": "other"}
    elif k == "text":
        # what json.loads makes of the text (trusted library): not JSON / not a dict / a dict
        try:
            v = json.loads(o["text"])
        except ValueError:
            mo = {"kind": "str", "parsed": None}
        else:
            if not isinstance(v, dict):
                mo = {"kind": "str", "parsed": "other"}
            else:
                t = v.get("type")
                c = v.get("coordinates")
                if ("type" in v and not isinstance(t, str)) or ("coordinates" in v and not _is_numeric(c)):
                    raise InfraError("text case outside the numeric scope")
                mo = {"kind": "str", "parsed": {"type": t, "coordinates": enc_out(c) if "coordinates" in v else None}}
    else:
        raise ValueError(k)
    return {"mode": inp["mode"], "obj": mo}


def _seen(inp):
    """(class name, raw coordinates) the entry point reads off its input, or None (Lean: `view`)"""
    if "kw" in inp:
        kw = inp["kw"]
        if "coordinates" in kw and kw.get("type", inp["cls"]) == inp["cls"]:
            return inp["cls"], kw["coordinates"]
        return None
    if "mode" not in inp:        # the union path reads plain mappings only
        o, mode = inp["obj"], "dict"
    else:
        o, mode = inp["obj"], inp["mode"]
    ok = (mode, o["kind"]) in (("dict", "dict"), ("json", "json"), ("attributes", "attrs"))
    if ok and o["fields"].get("type") in TYPES and "coordinates" in o["fields"]:
        return o["fields"]["type"], o["fields"]["coordinates"]
    return None


def _lenient(inp):
    return isinstance(inp.get("obj"), dict) and bool(inp["obj"].get("other_kind"))


def _compare(inp, io, mo):
    a = {k: v for k, v in io.items() if k not in ("mon", "trace")} if isinstance(io, dict) else io
    if a != mo and _lenient(inp) and isinstance(a, dict) and "val" in a:
        # a mode that is handed the kind of object of another mode refuses it today (so does the model); the
        # property does not demand the refusal: were it to read the object after all, the object built must be
        # the one the tagged coordinates determine (judged by `_holds`: monitor + holdsB), nothing else
        return None
    return None if a == mo else "implementation and model disagree"


def _holds(ctx, inp, io):
    """monitor on the real object; the declarative Lean-side test (`holdsB`) is queued and run in a batch"""
    seen = _seen(inp)
    if seen is None and _lenient(inp) and isinstance(io, dict) and "val" in io:
        f = inp["obj"].get("fields", {})
        if f.get("type") in TYPES and "coordinates" in f:
            seen = (f["type"], f["coordinates"])
    if seen is not None and isinstance(io, dict) and not str(io.get("raise", "")).startswith("crash"):
        out = {"raise": io["raise"]} if "raise" in io else {"val": {"cls": io["val"]["cls"], "coordinates": io["val"]["coordinates"]}}
        q = getattr(ctx, "_c03_queue", None)
        if q is not None:
            q.append((inp, io, {"cls": seen[0], "coordinates": to_model_raw(seen[1]), "out": out}))
    if isinstance(io, dict) and "val" in io:
        bad = [k for k, v in io.get("mon", {}).items() if v is not True]
        if bad:
            return "accepted object fails: " + ", ".join(f"{k}={io['mon'][k]}" for k in bad)
        if seen is not None and io["val"]["type"] != seen[0]:
            return f"object's type field {io['val']['type']!r} is not the tag asked for"
    return None


def _flush(ctx, opname):
    q = getattr(ctx, "_c03_queue", None)
    if not q:
        return
    res = ctx.model_many("holds", [a for _i, _o, a in q])
    for (inp, io, _a), ok in zip(q, res):
        if ok is not True:
            # the operation the input belongs to (the corpus stage flushes several operations at once)
            opname = "construct" if "kw" in inp else ("geometry_validate" if "mode" in inp else "union_validate")
            ctx.fail("property", opname, inp=inp, impl={k: v for k, v in io.items() if k != "trace"},
                     detail="the declarative statement of the property (holdsB) rejects this observed input/output pair")
    ctx.tally("declarative-monitor", len(q))
    q.clear()


def _nontrivial(inp, out):
    return isinstance(out, dict) and "val" in out


OPS = {
    "construct": Op("construct", _impl_construct, to_model=_model_construct, compare=_compare, holds=_holds,
                    nontrivial=_nontrivial, shrink=True),
    "geometry_validate": Op("geometry_validate", _impl_gv, to_model=_model_gv, compare=_compare, holds=_holds,
                            nontrivial=_nontrivial, shrink=True),
    "union_validate": Op("union_validate", _impl_union, to_model=_model_union, compare=_compare, holds=_holds,
                         nontrivial=_nontrivial, shrink=True),
    "instance_validate": Op("instance_validate", _impl_instance, to_model=_model_instance, compare=_compare_instance,
                            nontrivial=_nontrivial),
}


def _match_instance_passthrough(f, m):
    """known finding C03-2: only the pass-through itself (the object that went in comes out unchanged)"""
    if f.op != "instance_validate" or not isinstance(f.impl, dict) or "val" not in f.impl:
        return False
    v, inp = f.impl["val"], f.inp
    return (isinstance(f.model, dict) and f.impl == f.model.get("asis") and v["cls"] == inp["cls"]
            and v["type"] == inp["type"] == inp["cls"]
            and v["coordinates"] == enc_out_frac_raw(inp["coordinates"]))


def _has_nonfinite(x):
    if isinstance(x, list):
        return any(_has_nonfinite(y) for y in x)
    return x in ("nan", "inf", "-inf", "1e400")


def _match_nonfinite(f, m):
    """known finding C03-1: a non-finite number among the coordinates and the code built an object"""
    return (f.op == "nonfinite" and isinstance(f.inp, dict) and _has_nonfinite(f.inp.get("coordinates"))
            and isinstance(f.impl, dict) and "accepted" in f.impl)


FINDING_MATCHERS = {"instance_passthrough": _match_instance_passthrough, "nonfinite_accepted": _match_nonfinite}


def _run(ctx, batch):
    """batch: list of (op name, input)"""
    ctx._c03_queue = []
    for name in ("construct", "geometry_validate", "union_validate", "instance_validate"):
        inputs = [i for n, i in batch if n == name]
        if inputs:
            ctx.run_cases(OPS[name], inputs)
            _flush(ctx, name)
    ctx._c03_queue = None


ALL_ENTRIES = ("construct",) + tuple(MODES) + ("union",)


def entries(cls, raw, which=ALL_ENTRIES):
    """the same tagged coordinates through the entry points"""
    out = []
    if "construct" in which:
        out.append(("construct", {"cls": cls, "kw": {"coordinates": raw}}))
    f = {"type": cls, "coordinates": raw}
    if "dict" in which:
        out.append(("geometry_validate", {"mode": "dict", "obj": {"kind": "dict", "fields": f}}))
    if "json" in which:
        out.append(("geometry_validate", {"mode": "json", "obj": {"kind": "json", "fields": f}}))
    if "attributes" in which:
        out.append(("geometry_validate", {"mode": "attributes", "obj": {"kind": "attrs", "fields": f}}))
    if "union" in which:
        out.append(("union_validate", {"obj": {"kind": "dict", "fields": f}}))
    return out


# ---------------------------------------------------------------- tie 1: tables
def _code_maxf():
    from soundevent.data import geometries as G
    m = getattr(G, "MAX_FREQUENCY", None)
    if isinstance(m, bool) or not isinstance(m, (int, float)) or m != m or abs(m) == float("inf"):
        return None
    return Fraction(m)


def _tables(ctx):
    from soundevent import data
    from soundevent.data import geometries as G
    # MAX_FREQUENCY
    m = _code_maxf()
    if m is None:
        ctx.pre_failed.append("MAX_FREQUENCY")
        ctx.fail("obligation", "MAX_FREQUENCY", detail="soundevent.data.geometries.MAX_FREQUENCY is missing or not a finite number",
                 extra={"table": "MAX_FREQUENCY"})
    else:
        ctx.obligation("MAX_FREQUENCY",
                       f"theorem extracted_max_frequency : {st.lit(m)} = SE.MAXF := by decide +kernel\n",
                       {"table": "MAX_FREQUENCY", "value": str(m)})
    # GEOMETRY_MAPPING: key -> class (name, identity with the exported class, Literal and default of `type`)
    mapping = getattr(G, "GEOMETRY_MAPPING", None)
    if not isinstance(mapping, dict):
        ctx.pre_failed.append("GEOMETRY_MAPPING")
        ctx.fail("obligation", "GEOMETRY_MAPPING", detail="soundevent.data.geometries.GEOMETRY_MAPPING is missing or not a dict",
                 extra={"table": "GEOMETRY_MAPPING"})
        return
    rows, shown = [], []
    for key, cls in mapping.items():
        name = getattr(cls, "__name__", repr(cls))
        try:
            fld = cls.model_fields["type"]
            default = fld.default
            lits = typing.get_args(fld.annotation)
        except Exception:  # noqa: BLE001
            default, lits = None, ()
        literal = lits[0] if len(lits) == 1 and isinstance(lits[0], str) else None
        same = getattr(G, name, None) is cls and getattr(data, name, None) is cls
        # `cls.geom_type()` (what the table is keyed by; other modules dispatch on it) is observed by calling it
        gt = default
        if callable(getattr(cls, "geom_type", None)):
            try:
                gt = cls.geom_type()
            except Exception as e:  # noqa: BLE001
                gt = repr(e)[:80]
        shown.append({"key": key, "class": name, "default": default, "literal": list(lits), "exported_class": same,
                      "geom_type()": gt})
        if gt != default:
            default = None
        if not isinstance(key, str) or name not in CTOR or not same or not isinstance(default, str) or literal is None:
            ctor = f"(by exact not_a_geometry_class_of_the_model : SE.Validate.GType)  /- {name} -/"
            default, literal = str(default), str(literal)
        else:
            ctor = CTOR[name]
        rows.append(f"({json.dumps(str(key))}, ⟨{ctor}, {json.dumps(literal)}, {json.dumps(default)}⟩)")
    src = ("def extracted_table : SE.Validate.Table :=\n  [" + ",\n   ".join(rows) + "]\n"
           "theorem extracted_table_wf : SE.Validate.wellFormedB extracted_table = true := by decide\n"
           "-- the generic entry-point theorems, instantiated at the table the code has now\n"
           "def extracted_entrypoints_agree := SE.Proofs.C03.C03_entrypoints_agree extracted_table\n"
           "  (SE.Proofs.C03.C03_wellFormedB_sound _ extracted_table_wf)\n"
           "def extracted_dispatch := SE.Proofs.C03.C03_geometryValidate_eq extracted_table\n"
           "  (SE.Proofs.C03.C03_wellFormedB_sound _ extracted_table_wf)\n")
    ctx.obligation("GEOMETRY_MAPPING", src, {"table": "GEOMETRY_MAPPING", "rows": shown})

    def cls_row(cls):
        name = getattr(cls, "__name__", repr(cls))
        try:
            fld = cls.model_fields["type"]
            default = cls.geom_type() if callable(getattr(cls, "geom_type", None)) else fld.default
            lits = typing.get_args(fld.annotation)
        except Exception:  # noqa: BLE001
            default, lits = None, ()
        literal = lits[0] if len(lits) == 1 and isinstance(lits[0], str) else None
        if name not in CTOR or getattr(data, name, None) is not cls or not isinstance(default, str) or literal is None:
            return (f"⟨(by exact not_a_geometry_class_of_the_model : SE.Validate.GType)  /- {name} -/, "
                    f"{json.dumps(str(literal))}, {json.dumps(str(default))}⟩"), name
        return f"⟨{CTOR[name]}, {json.dumps(literal)}, {json.dumps(default)}⟩", name
    # the `Geometry` union (public: the annotation of every field that holds a geometry)
    union = getattr(G, "Geometry", None)
    members = typing.get_args(union) if union is not None else ()
    if not members:
        ctx.pre_failed.append("Geometry-union")
        ctx.fail("obligation", "Geometry-union", detail="soundevent.data.geometries.Geometry is missing or not a Union of classes",
                 extra={"table": "Geometry"})
    else:
        rows = [cls_row(c) for c in members]
        usrc = ("def extracted_union : List SE.Validate.Cls :=\n  [" + ",\n   ".join(r for r, _ in rows) + "]\n"
                "theorem extracted_union_ok : SE.Validate.membersOkB extracted_union = true := by decide\n"
                "-- a tagged mapping validated against the union = geometry_validate in dict mode, at the extracted members\n"
                "def extracted_union_agrees := SE.Proofs.C03.C03_union_agrees SE.Validate.table\n"
                "  SE.Proofs.C03.C03_table_wellFormed extracted_union\n"
                "  (SE.Proofs.C03.C03_membersOkB_sound _ extracted_union_ok)\n")
        ctx.obligation("Geometry-union", usrc, {"table": "Geometry", "members": [n for _, n in rows]})
    # how the table is built: {geom.geom_type(): geom for geom in ALL_GEOMETRY_TYPES}.  The list is a private
    # detail: if it is gone nothing is demanded (the table itself is tied above).
    all_types = getattr(G, "ALL_GEOMETRY_TYPES", None)
    if isinstance(all_types, (list, tuple)) and all_types:
        rows = [cls_row(c) for c in all_types]
        asrc = ("def extracted_all_types : List SE.Validate.Cls :=\n  [" + ",\n   ".join(r for r, _ in rows) + "]\n"
                "theorem extracted_all_types_ok : SE.Validate.membersOkB extracted_all_types = true := by decide\n"
                "def extracted_built_table_wf := SE.Proofs.C03.C03_buildTable_wellFormed extracted_all_types\n"
                "  (SE.Proofs.C03.C03_membersOkB_sound _ extracted_all_types_ok)\n")
        ctx.obligation("ALL_GEOMETRY_TYPES", asrc, {"table": "ALL_GEOMETRY_TYPES", "classes": [n for _, n in rows]})
    else:
        ctx.note("ALL_GEOMETRY_TYPES is not a list any more: the construction of the table is not tied (the table itself is)")


# ---------------------------------------------------------------- tie 1b: validator chains at fixed shapes
P = [None, None]          # a point: two coordinates


def _shapes(thorough):
    pts = lambda n: [P] * n  # noqa: E731
    sh = {
        "TimeStamp": [None],
        "TimeInterval": [[None] * n for n in range(0, 4)],
        "Point": [[None] * n for n in range(0, 4)],
        "BoundingBox": [[None] * n for n in range(0, 6)],
        "LineString": [pts(n) for n in range(0, 5)] + [[P, [None]], [[None] * 3, P], [P, P, []]],
        "MultiPoint": [pts(n) for n in range(0, 5)] + [[P, [None]], [[None] * 3, P], [[]], [P, [None] * 3]],
        "Polygon": [[], [[]], [pts(2)], [pts(3)], [pts(4)], [pts(3), pts(3)], [pts(3), pts(2)], [pts(4), pts(3)],
                    [[P, P, [None] * 3]], [[P, P, [None]]]],
        "MultiLineString": [[], [[]], [pts(1)], [pts(2)], [pts(3)], [pts(2), pts(2)], [pts(2), pts(1)],
                            [pts(4), pts(3)], [[P, [None]]], [[P, [None] * 3]]],
        "MultiPolygon": [[], [[]], [[[]]], [[pts(3)]], [[pts(2)]], [[pts(3)], [pts(3)]], [[pts(3), pts(3)]],
                         [[pts(3), pts(3)], [pts(4)]], [[pts(4), pts(3)], [pts(3), pts(3)]], [[[P, P, [None] * 3]]]],
    }
    if thorough:
        sh["LineString"] += [pts(5), pts(6)]
        sh["MultiPoint"] += [pts(5), pts(6)]
        sh["Polygon"] += [[pts(4), pts(4)], [pts(3), pts(3), pts(3)], [pts(5)]]
        sh["MultiLineString"] += [[pts(4), pts(4)], [pts(2), pts(2), pts(2)], [pts(5)]]
        sh["MultiPolygon"] += [[[pts(4), pts(4)], [pts(4), pts(4)]], [[pts(3)], [pts(3)], [pts(3)]]]
    return sh


def _build(shape, names):
    if shape is None:
        n = f"x{len(names)}"
        names.append(n)
        return Sym.var(n)
    return [_build(s, names) for s in shape]


def _lean_val(v):
    if isinstance(v, Sym):
        return v.e
    if isinstance(v, (list, tuple)):
        return "[" + ", ".join(_lean_val(x) for x in v) + "]"
    if isinstance(v, bool) or not isinstance(v, (int, float, Fraction)):
        raise st.Untraceable(f"cannot emit {type(v).__name__}")
    return st.lit(v)


def _lean_ty(depth):
    t = "Rat"
    for _ in range(depth):
        t = f"List ({t})"
    return t


def _leaf_lean(leaf):
    if leaf[0] == "ok":
        return f".ok {_lean_val(leaf[1])}"
    # pydantic turns ValueError / AssertionError inside a validator into a ValidationError;
    # anything else escapes as it is
    return ".error .invalid" if leaf[1] in ("ValueError", "AssertionError", "ValidationError") else ".error .crash"


def _tree_lean(tree, indent):
    if tree[0] == "ite":
        pad = " " * indent
        return (f"if {tree[1][0]} then\n{pad}{_tree_lean(tree[2], indent + 2)}\n"
                f"{' ' * (indent - 2)}else\n{pad}{_tree_lean(tree[3], indent + 2)}")
    return _leaf_lean(tree[1])


def _script(tree, ind, ctr):
    """case analysis following the extracted tree; `se_val` evaluates the model at each leaf"""
    pad = " " * ind
    if tree[0] != "ite":
        return pad + "se_val"
    k = ctr[0]
    ctr[0] += 1
    t = _script(tree[2], ind + 2, ctr)
    f = _script(tree[3], ind + 2, ctr)
    return f"{pad}by_cases h{k} : {tree[1][0]}\n{pad}· {t.lstrip()}\n{pad}· {f.lstrip()}"


def _chain(cls):
    """the after-validators of `coordinates`, in the order pydantic runs them"""
    out = []
    for d in cls.__pydantic_decorators__.field_validators.values():
        if "coordinates" in d.info.fields:
            if d.info.mode != "after":
                raise st.Untraceable(f"{cls.__name__}: a {d.info.mode}-validator on coordinates is not modelled")
            out.append(d.func)
    return out


def _shape_str(shape):
    return json.dumps(shape).replace("null", "x")


def _symbolic_ties(ctx):
    from soundevent.data import geometries as G
    ctx._c03_trees = {}
    mapping = getattr(G, "GEOMETRY_MAPPING", None) or {}
    for cls_name, shapes in _shapes(ctx.thorough()).items():
        for idx, shape in enumerate(shapes):
            name = f"ext_{cls_name}_{idx}"
            meta = {"op": "construct", "cls": cls_name, "shape": _shape_str(shape)}
            try:
                cls = mapping.get(cls_name) or getattr(G, cls_name)
                fns = _chain(cls)
                names = []
                v0 = _build(shape, names)

                def run(v0=v0, fns=fns):
                    v = v0
                    for f in fns:
                        v = f(v)
                    return v
                res = st.trace(run, catch=(Exception,))
                tree = st.to_tree(res)
                args = " ".join(names)
                binder = f"({args} : Rat) " if names else ""
                d = DEPTH[cls_name]
                arg = _lean_val(v0)
                if d >= 1:
                    arg = f"({arg} : {_lean_ty(d)})"
                src = ("set_option linter.unusedVariables false\n"
                       f"def {name} {binder}: SE.Validate.R ({_lean_ty(d)}) :=\n  {_tree_lean(tree, 4)}\n"
                       f"theorem {name}_tie {binder}: {name} {args} = SE.Validate.{MODEL_FN[cls_name]} {arg} := by\n"
                       f"  unfold {name}\n" + _script(tree, 2, [0]) + "\n")
            except Exception as e:  # noqa: BLE001 - the code changed shape: the tie is not re-established
                ctx.symbolic_ties[name] = {"error": repr(e)[:300], "shape": _shape_str(shape)}
                ctx.pre_failed.append(name)
                ctx.fail("obligation", name, detail=f"symbolic trace of the current source failed: {e!r}", extra=meta)
                continue
            ctx.symbolic_ties[name] = {"paths": len(res), "shape": _shape_str(shape)}
            ctx._c03_trees[name] = (cls_name, shape, names, tree)
            ctx.obligation(name, src, meta)


# ---------------------------------------------------------------- generators (tie 2)
def _pool(ctx=None):
    """boundary values: around 0, ordinary, around MAX_FREQUENCY (the model's and, should it differ, the code's)"""
    vals = set()
    for m in {Fraction(MODEL_MAXF), _code_maxf() or Fraction(MODEL_MAXF)}:
        vals |= {Fraction(-1), Fraction(-1, 8), Fraction(0), Fraction(1, 8), Fraction(1), Fraction(2), m - 1, m, m + 1}
    return sorted(vals)


def _trees(depth, maxlen, leaves):
    """every raw structure of nesting depth <= depth with list lengths <= maxlen"""
    if depth == 0:
        return list(leaves)
    sub = _trees(depth - 1, maxlen, leaves)
    out = list(leaves)
    for n in range(maxlen + 1):
        for combo in itertools.product(sub, repeat=n):
            out.append(list(combo))
    return out


def _leaf_paths(x, pre=()):
    if isinstance(x, list):
        for i, y in enumerate(x):
            yield from _leaf_paths(y, pre + (i,))
    else:
        yield pre


def _node_paths(x, pre=()):
    yield pre
    if isinstance(x, list):
        for i, y in enumerate(x):
            yield from _node_paths(y, pre + (i,))


def _get(x, path):
    for i in path:
        x = x[i]
    return x


def _set(x, path, v):
    if not path:
        return v
    y = list(x)
    y[path[0]] = _set(x[path[0]], path[1:], v)
    return y


def _delete(x, path):
    y = list(x)
    if len(path) == 1:
        del y[path[0]]
    else:
        y[path[0]] = _delete(x[path[0]], path[1:])
    return y


F = Fraction


def _bases(maxf):
    """valid structures whose every leaf is then replaced by every pool value, every node mutated"""
    a, b, c, d = [F(0), F(0)], [F(1), maxf], [F(2), F(1)], [F(1, 8), maxf - 1]
    return {
        "TimeStamp": [F(1)],
        "TimeInterval": [[F(0), F(1)], [F(1), F(1)]],
        "Point": [[F(0), F(0)], [F(1), maxf]],
        "BoundingBox": [[F(0), F(0), F(1), maxf], [F(2), F(1), F(1), F(0)]],
        "LineString": [[a, b], [c, b, a], [a, d, b, c]],
        "MultiPoint": [[a], [c, b, a, d]],
        "Polygon": [[[a, b, c]], [[a, b, c, d], [a, d, b]]],
        "MultiLineString": [[[a, b]], [[a, d, c], [b, c]], [[a, c, b, c]]],
        "MultiPolygon": [[[[a, b, c]]], [[[a, b, c], [a, d, b]], [[a, b, c, d]]], [[[a, b, c]], [[c, b, a]]]],
    }


def _mutations(base, pool):
    """single-site mutations of a valid structure: every leaf <- every pool value; every node deleted,
    duplicated, wrapped, replaced by a number / by an empty list / by its first item; lists reversed"""
    seen = set()

    def emit(x):
        k = json.dumps(enc(x))
        if k not in seen:
            seen.add(k)
            return True
        return False
    if emit(base):
        yield base
    for p in _leaf_paths(base):
        for v in pool:
            x = _set(base, p, v)
            if emit(x):
                yield x
    for p in _node_paths(base):
        node = _get(base, p)
        cands = [[node], F(1), []]
        if isinstance(node, list):
            cands.append(list(reversed(node)))
            cands.append(node + node[-1:] if node else node)
            if node:
                cands.append(node[0])
                cands.append(node[:-1])
                cands.append(node[1:])
            if len(node) >= 2:
                cands.append([node[-1]] + node[1:-1] + [node[0]])
        for cnd in cands:
            x = _set(base, p, cnd)
            if emit(x):
                yield x
        if p:
            x = _delete(base, p)
            if emit(x):
                yield x


def _ints_variant(x, rng):
    """the same values with some integral leaves given as Python ints"""
    if isinstance(x, list):
        return [_ints_variant(y, rng) for y in x]
    if isinstance(x, Fraction) and x.denominator == 1 and rng.random() < 0.5:
        return int(x)
    if isinstance(x, Fraction) and rng.random() < 0.1:
        return NpF(x)               # numpy.float64: a float like any other
    return x


def _rand_num(rng, kind, maxf):
    r = rng.random()
    if kind == "t":
        if r < 0.15:
            return F(0)
        return F(rng.randint(0, 1 << 12), 1 << rng.choice([0, 3, 10]))
    if r < 0.12:
        return F(0)
    if r < 0.24:
        return maxf
    if r < 0.3:
        return maxf - F(1, 1 << rng.choice([0, 3, 10]))
    return F(rng.randint(0, int(maxf) << 3), 1 << 3)


def _rand_bad(rng, maxf):
    return rng.choice([F(-1, 1 << 10), F(-1), F(-rng.randint(1, 10 ** 6), 8), maxf + F(1, 1 << 10), maxf + 1,
                       maxf * 2, F(-0.0)])


def _rand_valid(rng, cls, maxf):
    t = lambda: _rand_num(rng, "t", maxf)  # noqa: E731
    f = lambda: _rand_num(rng, "f", maxf)  # noqa: E731
    pt = lambda: [t(), f()]  # noqa: E731
    ring = lambda: [pt() for _ in range(rng.randint(3, 6))]  # noqa: E731

    def line(strict):
        pts = [pt() for _ in range(rng.randint(2, 5))]
        if strict:
            a, b = sorted([pts[0][0], pts[-1][0]])
            if a == b:
                b = a + F(1, 8)
            pts[0][0], pts[-1][0] = a, b
        return pts
    if cls == "TimeStamp":
        return t()
    if cls == "TimeInterval":
        return sorted([t(), t()])
    if cls == "Point":
        return pt()
    if cls == "BoundingBox":
        return [t(), f(), t(), f()]
    if cls == "LineString":
        return line(False)
    if cls == "MultiPoint":
        return [pt() for _ in range(rng.randint(1, 5))]
    if cls == "Polygon":
        return [ring() for _ in range(rng.randint(1, 3))]
    if cls == "MultiLineString":
        return [line(True) for _ in range(rng.randint(1, 3))]
    if cls == "MultiPolygon":
        return [[ring() for _ in range(rng.randint(1, 2))] for _ in range(rng.randint(1, 3))]
    raise ValueError(cls)


def _rand_case(ctx, cls, maxf):
    rng = ctx.rng
    x = _rand_valid(rng, cls, maxf)
    kind = rng.choice(["valid", "valid", "out_of_range", "out_of_range", "arity", "nesting", "reversed", "count", "equal_ends"])
    leaves = list(_leaf_paths(x))
    nodes = [p for p in _node_paths(x) if isinstance(_get(x, p), list)]
    if kind == "out_of_range" and leaves:
        x = _set(x, rng.choice(leaves), _rand_bad(rng, maxf))
    elif kind == "arity" and leaves:
        p = rng.choice(leaves)
        if p:
            par = _get(x, p[:-1])
            x = _set(x, p[:-1], rng.choice([par[:-1], par + [par[-1]], par + [F(0)]]))
        else:
            x = [x]
    elif kind == "nesting":
        p = rng.choice(list(_node_paths(x)))
        node = _get(x, p)
        x = _set(x, p, rng.choice([[node], F(1), node[0] if isinstance(node, list) and node else [node, node]]))
    elif kind == "reversed" and nodes:
        p = rng.choice(nodes)
        x = _set(x, p, list(reversed(_get(x, p))))
    elif kind == "count" and nodes:
        p = rng.choice(nodes)
        node = _get(x, p)
        x = _set(x, p, node[:rng.randint(0, max(0, len(node) - 1))])
    elif kind == "equal_ends" and cls in ("LineString", "MultiLineString", "TimeInterval", "BoundingBox"):
        if cls == "TimeInterval":
            x = [x[0], x[0]]
        elif cls == "BoundingBox":
            x = [x[0], x[1], x[0], x[1]]
        elif cls == "LineString":
            x[-1] = [x[0][0], x[-1][1]]
        else:
            ln = rng.choice(x)
            ln[-1] = [ln[0][0], ln[-1][1]]
    ctx.tally(f"random:{kind}")
    return _ints_variant(x, rng)


def _exhaustive(ctx, maxf):
    """small-scope exhaustive sets, each through all four entry points"""
    pool = _pool()
    batch = []
    thorough = ctx.thorough()
    # (a) every nesting: all raw structures to depth 3 (lengths <= 2), for every class
    leaves = [F(1), 0] if thorough else [F(1)]
    uni = _trees(3, 2, leaves)
    for cls in TYPES:
        for x in uni:
            batch += entries(cls, enc(x))
    ctx.exhaustive["shape universe"] = (f"all raw structures of nesting depth <= 3, list lengths 0..2, leaves {[str(v) for v in leaves]}: "
                                        f"{len(uni)} structures x 9 classes x 4 entry points")
    ctx.tally("exhaustive:shape-universe", len(uni) * 9)
    # (b) flat classes: every tuple over the boundary pool
    n = 0
    for v in pool:
        batch += entries("TimeStamp", enc(v))
        if v.denominator == 1:
            batch += entries("TimeStamp", enc(int(v)))
        n += 1
    for cls in ("TimeInterval", "Point"):
        for k in range(0, 4):
            for tup in itertools.product(pool, repeat=k):
                batch += entries(cls, enc(list(tup)))
                n += 1
    small = [F(-1, 8), F(0), F(1), maxf, maxf + 1]
    for tup in itertools.product(pool if thorough else small + [F(2), F(1, 8)], repeat=4):
        batch += entries("BoundingBox", enc(list(tup)))
        n += 1
    for k in (3, 5):
        for tup in itertools.product([F(0), F(1), maxf + 1], repeat=k):
            batch += entries("BoundingBox", enc(list(tup)))
            n += 1
    ctx.exhaustive["flat classes"] = (f"TimeStamp: pool of {len(pool)} values (float and int); TimeInterval, Point: every tuple of length 0..3 "
                                      f"over the pool; BoundingBox: every 4-tuple over {len(pool) if thorough else 7} values, 3- and 5-tuples over 3")
    ctx.tally("exhaustive:flat", n)
    # (c) point sequences: LineString / MultiPoint, every sequence of length 0..3 (4 in thorough) over a point pool
    tv = [F(-1, 8), F(0), F(1), F(2)] if thorough else [F(-1, 8), F(0), F(1)]
    fv = [F(-1, 8), F(0), maxf, maxf + 1] if thorough else [F(0), maxf, maxf + 1]
    ppool = [[t, f] for t in tv for f in fv]
    n = 0
    for cls in ("LineString", "MultiPoint"):
        for k in range(0, 4):
            for seq in itertools.product(ppool, repeat=k):
                batch += entries(cls, enc([list(p) for p in seq]))
                n += 1
        four = [[F(0), F(0)], [F(1), maxf], [F(2), F(0)], [F(-1, 8), F(0)], [F(1), maxf + 1]]
        for seq in itertools.product(four if thorough else four[:4], repeat=4):
            batch += entries(cls, enc([list(p) for p in seq]))
            n += 1
    ctx.exhaustive["point sequences"] = f"LineString, MultiPoint: every sequence of length 0..3 over {len(ppool)} points, length 4 over 4-5 points"
    ctx.tally("exhaustive:point-sequences", n)
    # (d) lines of a multi-line: first/last times over {0,1,2} (strictness), 1..2 lines of 2..3 points
    n = 0
    tt = [F(0), F(1), F(2)]
    lines = [[[a, F(1)], [b, F(2)]] for a in tt for b in tt] + [[[a, F(1)], [F(5), F(1)], [b, F(2)]] for a in tt for b in tt]
    for l1 in lines:
        batch += entries("MultiLineString", enc([l1]))
        batch += entries("LineString", enc(l1))
        n += 2
        for l2 in lines:
            batch += entries("MultiLineString", enc([l1, l2]))
            n += 1
    ctx.exhaustive["line ordering"] = "MultiLineString with 1..2 lines of 2..3 points, end-point times over {0,1,2}^2 per line (all equal / forward / backward cases)"
    ctx.tally("exhaustive:line-ordering", n)
    # (e) one site changed, everywhere: every leaf of nested bases <- every pool value; every node mutated
    n = 0
    for cls, bases in _bases(maxf).items():
        for base in bases:
            for x in _mutations(base, pool):
                batch += entries(cls, enc(x))
                n += 1
    ctx.exhaustive["single-site mutations"] = ("for 2-3 valid bases per class (up to 2 polygons x 2 rings x 4 points): every leaf replaced by every pool "
                                               "value; every node deleted, duplicated-last, wrapped, emptied, replaced by a number, by its first item, "
                                               "truncated, reversed, ends swapped")
    ctx.tally("exhaustive:single-site", n)
    # (f) rings and lines over a pool of three points, repetitions included (a ring of three equal points is a ring)
    n = 0
    three = [[F(0), F(0)], [F(1), maxf], [F(2), F(1)]]
    for k in (2, 3, 4):
        for seq in itertools.product(three, repeat=k):
            ring = [list(p) for p in seq]
            batch += entries("Polygon", enc([ring]))
            batch += entries("MultiPolygon", enc([[three, ring]]), which=("construct", "json", "union"))
            batch += entries("MultiLineString", enc([ring]), which=("construct", "attributes"))
            n += 3
    ctx.exhaustive["rings with repeated points"] = ("Polygon / MultiPolygon (as a hole) / MultiLineString: every point sequence of length 2..4 over "
                                                    "3 points, repetitions included")
    ctx.tally("exhaustive:repeated-points", n)
    return batch


def _dispatch_cases(ctx, maxf):
    """tags (known, unknown, missing), missing coordinates, text that is not JSON / not an object, explicit
    `type` keyword.  Only each mode with the kind of object it is meant for: what a mode does with another
    kind of object, with extra keys or with an unknown mode string is not pinned by the property."""
    batch = []
    good = {"TimeStamp": enc(F(1)), "BoundingBox": enc([F(3), F(5), F(1), F(2)]), "Point": enc([F(1), 2]),
            "LineString": enc([[F(1), F(2)], [F(0), F(5)]]), "TimeInterval": enc([F(2), F(1)]),
            "MultiPolygon": enc([[[[F(0), F(0)], [F(1), F(0)], [F(1), maxf + 1]]]])}
    tags = TYPES + ["", "Box", "timestamp", "TIMESTAMP", "Geometry", "BaseGeometry", "Point ", "MultiPoints"]
    for mode, kind in (("dict", "dict"), ("json", "json"), ("attributes", "attrs")):
        for tag in tags:
            for cls, raw in good.items():
                batch.append(("geometry_validate", {"mode": mode, "obj": {"kind": kind, "fields": {"type": tag, "coordinates": raw}}}))
        for cls, raw in good.items():
            batch.append(("geometry_validate", {"mode": mode, "obj": {"kind": kind, "fields": {"coordinates": raw}}}))
            batch.append(("geometry_validate", {"mode": mode, "obj": {"kind": kind, "fields": {"type": cls}}}))
        batch.append(("geometry_validate", {"mode": mode, "obj": {"kind": kind, "fields": {}}}))
    # keys / attributes the classes do not declare are ignored: the tagged coordinates decide alone
    for mode, kind in (("dict", "dict"), ("json", "json"), ("attributes", "attrs")):
        for cls, raw in good.items():
            batch.append(("geometry_validate", {"mode": mode, "obj": {"kind": kind, "fields": {"type": cls, "coordinates": raw, "extra": True}}}))
    for cls, raw in good.items():
        batch.append(("union_validate", {"obj": {"kind": "dict", "fields": {"type": cls, "coordinates": raw, "extra": True}}}))
    # a mode handed the kind of object of another mode (json text / dict / attribute object / list): a validation
    # error, never a TypeError / AttributeError
    for mode in MODES:
        for kind in ("dict", "json", "attrs"):
            if (mode, kind) in (("dict", "dict"), ("json", "json"), ("attributes", "attrs")):
                continue
            for cls in ("TimeStamp", "BoundingBox"):
                batch.append(("geometry_validate", {"mode": mode, "obj": {"kind": kind, "other_kind": True,
                                                                          "fields": {"type": cls, "coordinates": good[cls]}}}))
        batch.append(("geometry_validate", {"mode": mode, "obj": {"kind": "list", "items": enc([F(1)])}}))
    # the union path: tags, missing parts, attribute objects (python mode does not read attributes), non-mappings
    for tag in tags:
        for cls, raw in good.items():
            batch.append(("union_validate", {"obj": {"kind": "dict", "fields": {"type": tag, "coordinates": raw}}}))
    for cls, raw in good.items():
        batch.append(("union_validate", {"obj": {"kind": "dict", "fields": {"type": cls}}}))
        batch.append(("union_validate", {"obj": {"kind": "attrs", "fields": {"type": cls, "coordinates": raw}}}))
    batch.append(("union_validate", {"obj": {"kind": "list", "items": enc([F(1)])}}))
    for items in ([], [F(1)], [[F(1), F(2)]]):
        batch.append(("geometry_validate", {"mode": "dict", "obj": {"kind": "list", "items": enc(items)}}))
    for text in TEXTS:
        batch.append(("geometry_validate", {"mode": "json", "obj": {"kind": "text", "text": text}}))
    for cls in TYPES:
        for ty in TYPES + ["Box", ""]:
            for c2, raw in good.items():
                if c2 == cls or c2 in ("TimeStamp", "Point"):
                    batch.append(("construct", {"cls": cls, "kw": {"type": ty, "coordinates": raw}}))
        batch.append(("construct", {"cls": cls, "kw": {}}))
        batch.append(("construct", {"cls": cls, "kw": {"type": cls}}))
    ctx.exhaustive["dispatch"] = (f"each mode with its kind of object (dict / JSON text of a dict / attribute object) x {len(tags)} tags "
                                  "(9 valid, 8 unknown) x 6 coordinate values, missing type, missing coordinates, empty object; dict mode "
                                  f"given a list; json mode given {len(TEXTS)} raw texts (not JSON, JSON of a non-object, JSON objects); "
                                  "constructor with explicit type keyword (own, foreign, unknown) and without coordinates")
    ctx.tally("exhaustive:dispatch", len(batch))
    return batch


TEXTS = ["", "{", "[1, 2]", "1", "null", "\"TimeStamp\"", "{\"type\": \"TimeStamp\", \"coordinates\": 1",
         "{\"type\": \"TimeStamp\", \"coordinates\": 1}", "{\"type\": \"TimeStamp\", \"coordinates\": -1}",
         "{\"coordinates\": 1, \"type\": \"BoundingBox\"}", "{\"type\": \"Point\", \"coordinates\": [1, 5000000]}",
         "{\"type\": \"Point\", \"coordinates\": [1, 5000000.5]}", "{\"type\":\"TimeStamp\"}", "{}",
         "{\"type\": \"BoundingBox\", \"coordinates\": [3, 5, 1e0, 2.0]}"]


def _random(ctx, maxf, n):
    batch = []
    for i in range(n):
        cls = TYPES[i % 9]
        x = _rand_case(ctx, cls, maxf)
        batch += entries(cls, enc(x))
    return batch


# ---------------------------------------------------------------- stages
def _stage_corpus(ctx):
    ctx._c03_queue = []
    ctx.run_corpus(OPS)
    _flush(ctx, "construct")
    ctx._c03_queue = None


def _stage_exhaustive(ctx):
    maxf = Fraction(MODEL_MAXF)
    _run(ctx, _exhaustive(ctx, maxf))
    _run(ctx, _dispatch_cases(ctx, maxf))


def _stage_random(ctx):
    _run(ctx, _random(ctx, Fraction(MODEL_MAXF), ctx.budget(10000, 200000)))


def _has_shape(cls, x):
    """x is the coordinates of *some* value of the class (Lean: decode)"""
    num = lambda v: not isinstance(v, list)  # noqa: E731
    flat = lambda v, n: isinstance(v, list) and len(v) == n and all(num(y) for y in v)  # noqa: E731
    pts = lambda v: isinstance(v, list) and all(flat(p, 2) for p in v)  # noqa: E731
    rings = lambda v: isinstance(v, list) and all(pts(r) for r in v)  # noqa: E731
    return {"TimeStamp": num, "TimeInterval": lambda v: flat(v, 2), "Point": lambda v: flat(v, 2),
            "BoundingBox": lambda v: flat(v, 4), "LineString": pts, "MultiPoint": pts, "Polygon": rings,
            "MultiLineString": rings, "MultiPolygon": lambda v: isinstance(v, list) and all(rings(q) for q in v)}[cls](x)


def _instance_cases(ctx, maxf):
    """an existing geometry object whose fields were assigned after construction, handed to geometry_validate"""
    pool = _pool()
    batch = []
    retag = {"LineString": "MultiPoint", "MultiPoint": "LineString", "Polygon": "MultiLineString",
             "MultiLineString": "Polygon", "TimeInterval": "Point", "Point": "TimeInterval"}
    for cls, bases in _bases(maxf).items():
        base = bases[-1]
        assigned = [x for b in bases for x in _mutations(b, pool) if _has_shape(cls, x)]
        if len(assigned) > 160:
            assigned = assigned[:80] + ctx.rng.sample(assigned[80:], 80)
        for x in assigned:
            batch.append(("instance_validate", {"mode": "attributes", "cls": cls, "base": enc(base), "type": cls,
                                                "coordinates": enc(x)}))
        for x in assigned[:12]:
            for mode in ("json", "dict"):
                batch.append(("instance_validate", {"mode": mode, "cls": cls, "base": enc(base), "type": cls,
                                                    "coordinates": enc(x)}))
            if cls in retag:        # the tag names another class of the same shape: read as an attribute object
                batch.append(("instance_validate", {"mode": "attributes", "cls": cls, "base": enc(base),
                                                    "type": retag[cls], "coordinates": enc(x)}))
    ctx.exhaustive["existing instances"] = ("for every class: an object built from a valid base, then `coordinates` assigned every single-site "
                                            "mutation that keeps the shape of the class (in and out of range, reversed, too few members), "
                                            "handed to geometry_validate in attributes / json / dict mode; `type` re-assigned to another class "
                                            "of the same shape")
    ctx.tally("exhaustive:instances", len(batch))
    return batch


def _stage_instances(ctx):
    _run(ctx, _instance_cases(ctx, Fraction(MODEL_MAXF)))


def _nf(x):
    if isinstance(x, list):
        return [_nf(y) for y in x]
    return {"nan": float("nan"), "inf": float("inf"), "-inf": float("-inf"), "1e400": float("inf")}.get(x, x)


def _nf_text(x):
    if isinstance(x, list):
        return "[" + ", ".join(_nf_text(y) for y in x) + "]"
    return {"nan": "NaN", "inf": "Infinity", "-inf": "-Infinity"}.get(x, repr(x) if not isinstance(x, str) else x)


def _stage_nonfinite_judged(ctx):
    """Non-finite numbers (known finding C03-1).  The rational model has no value for them; what the property
    asks is evaluated directly on the real objects: an object may exist only if every coordinate is >= 0 (NaN is
    not) and its JSON dump re-validates to an equal geometry (the dump of inf / NaN is `null`)."""
    from soundevent import data
    import math
    shapes = [("TimeStamp", lambda v: v), ("TimeInterval", lambda v: [0.0, v]), ("Point", lambda v: [v, 1.0]),
              ("Point", lambda v: [1.0, v]), ("BoundingBox", lambda v: [0.0, 0.0, v, 1.0]),
              ("LineString", lambda v: [[0.0, 1.0], [v, 1.0]]), ("MultiPoint", lambda v: [[v, 1.0]]),
              ("Polygon", lambda v: [[[0.0, 0.0], [v, 0.0], [1.0, 1.0]]]),
              ("MultiLineString", lambda v: [[[0.0, 0.0], [v, 0.0]]]),
              ("MultiPolygon", lambda v: [[[[0.0, 0.0], [1.0, v], [1.0, 1.0]]]])]
    n = 0
    for label in ("nan", "inf", "-inf", "1e400"):
        for cls, mk in shapes:
            coords = mk(label)
            for entry in (("json",) if label == "1e400" else ("construct", "dict", "json", "attributes")):
                inp = {"cls": cls, "entry": entry, "coordinates": coords}
                n += 1
                try:
                    if entry == "construct":
                        g = getattr(data, cls)(coordinates=_nf(coords))
                    elif entry == "dict":
                        g = data.geometry_validate({"type": cls, "coordinates": _nf(coords)}, mode="dict")
                    elif entry == "attributes":
                        g = data.geometry_validate(types.SimpleNamespace(type=cls, coordinates=_nf(coords)), mode="attributes")
                    else:       # JSON text: Python's json reads NaN / Infinity, and 1e400 overflows to inf
                        g = data.geometry_validate('{"type": "%s", "coordinates": %s}' % (cls, _nf_text(coords)), mode="json")
                except Exception as e:  # noqa: BLE001
                    from ..core import canon_exc
                    c = canon_exc(e)
                    ctx.tally("nonfinite:rejected")
                    if c["raise"] != "invalid":
                        ctx.fail("property", "nonfinite", inp=inp, impl=c, detail="a non-finite coordinate is rejected with something "
                                 "other than a validation error")
                    continue
                flat = []

                def walk(v):
                    if isinstance(v, (list, tuple)):
                        for y in v:
                            walk(y)
                    else:
                        flat.append(v)
                walk(g.coordinates)
                why = []
                if any(isinstance(v, float) and math.isnan(v) for v in flat):
                    why.append("a NaN coordinate is neither >= 0 nor within [0, MAX_FREQUENCY]")
                try:
                    dumped = g.model_dump_json()
                    r = data.geometry_validate(dumped, mode="json")
                    if not (type(r) is type(g) and r.coordinates == g.coordinates):
                        why.append(f"its JSON dump {dumped} re-validates to a different geometry")
                except Exception:  # noqa: BLE001
                    why.append("its JSON dump does not re-validate")
                if why:
                    ctx.tally("nonfinite:accepted-in-violation")
                    ctx.fail("property", "nonfinite", inp=inp, impl={"accepted": repr(g.coordinates)[:200]},
                             detail="object built from a non-finite coordinate: " + "; ".join(why))
                else:
                    ctx.tally("nonfinite:accepted-consistently")
    ctx.tally("probe:non-finite", n)
    ctx.note(f"non-finite coordinates (NaN, inf, -inf, JSON text 1e400) in {n} (class, position, entry point) combinations: "
             f"{ctx.tallies.get('nonfinite:rejected', 0)} rejected, {ctx.tallies.get('nonfinite:accepted-in-violation', 0)} "
             "accepted although NaN is not >= 0 / the JSON dump (null) does not re-validate (known finding C03-1)")


def run(ctx):
    ctx.stage("tables", _tables, ctx)
    ctx.stage("symbolic-ties", _symbolic_ties, ctx)
    ctx.stage("discharge", ctx.discharge, ["Proofs.C03", "SoundeventModel.ValidateTactics", "SoundeventModel.Tactics"])
    ctx.stage("corpus", _stage_corpus, ctx)
    ctx.stage("exhaustive", _stage_exhaustive, ctx)
    ctx.stage("instances", _stage_instances, ctx)
    ctx.stage("random", _stage_random, ctx)
    ctx.stage("non-finite", _stage_nonfinite_judged, ctx)


# ---------------------------------------------------------------- directed search after a broken tie
def _assign(shape, it):
    if shape is None:
        return next(it)
    return [_assign(s, it) for s in shape]


_LIT_RE = None


def _tree_consts(tree, acc):
    """the numeric literals the traced code compares against"""
    import re
    global _LIT_RE
    if _LIT_RE is None:
        _LIT_RE = re.compile(r"\(\((-?\d+) : Rat\) / (\d+)\)|\((-?\d+) : Rat\)")
    if tree[0] == "ite":
        for m in _LIT_RE.finditer(tree[1][0]):
            acc.add(Fraction(int(m.group(1)), int(m.group(2))) if m.group(1) else Fraction(int(m.group(3))))
        _tree_consts(tree[2], acc)
        _tree_consts(tree[3], acc)
    return acc


def _float_between(a, b):
    q = Fraction(float((a + b) / 2))
    return q if a < q < b else None


def _boundary_pool(consts, pool):
    """pool values, every constant of the code, and a binary64 value strictly between neighbours"""
    pts = sorted(set(pool) | set(consts))
    out = set(pts)
    for a, b in zip(pts, pts[1:]):
        q = _float_between(a, b)
        if q is not None:
            out.add(q)
    return sorted(v for v in out if Fraction(float(v)) == v)


def search(ctx, failures):
    """A tie broke (an obligation no longer elaborates, a stage crashed): look for a concrete input on
    which the property fails.  (1) where an extracted decision tree exists, evaluate it against the
    model on value grids and run the differing assignments on the real code; (2) value pools built
    around the code's own MAX_FREQUENCY; (3) wider exhaustive / random differential runs."""
    maxf_code = _code_maxf() or Fraction(MODEL_MAXF)
    pool = _pool()
    trees = getattr(ctx, "_c03_trees", {})
    batch = []
    for f in failures:
        t = trees.get(f.op)
        if t is None:
            continue
        cls, shape, names, tree = t
        vals = _boundary_pool(_tree_consts(tree, set()), pool)
        envs = list(st.grid_envs(names, vals, limit=8000, rng=ctx.rng)) if names else [{}]
        cands = []
        for env in envs:
            r = st.tree_eval(tree, env)
            x = _assign(shape, iter([env[n] for n in names]))
            cands.append((x, r))
        outs = ctx.model_many("construct", [{"cls": cls, "type": None, "coordinates": to_model_raw(enc(x))} for x, _ in cands])
        k = 0
        for (x, r), mo in zip(cands, outs):
            ext_ok = r[0] == "ok"
            same = (ext_ok == ("val" in mo)) and (not ext_ok or enc_out_frac(r[1]) == mo["val"]["coordinates"])
            if not same:
                batch += entries(cls, enc(x))
                k += 1
                if k >= 40:
                    break
        ctx.tally("search:tree-vs-model-differences", k)
    if batch:
        _run(ctx, batch)
    if any(f.kind == "property" for f in ctx.failures):
        return
    # the code's own boundary
    for m in {maxf_code, Fraction(MODEL_MAXF)}:
        b = []
        for cls, bases in _bases(m).items():
            for base in bases:
                for x in _mutations(base, pool):
                    b += entries(cls, enc(x))
        _run(ctx, b)
    if any(f.kind == "property" for f in ctx.failures):
        return
    _run(ctx, _dispatch_cases(ctx, maxf_code))
    _run(ctx, _random(ctx, maxf_code, 20000))


def enc_out_frac(v):
    if isinstance(v, list):
        return [enc_out_frac(x) for x in v]
    return rat(Fraction(v))


def enc_out_frac_raw(raw):
    """raw input coordinates (with int / numpy markers) as the canonical output would show them"""
    if isinstance(raw, list):
        return [enc_out_frac_raw(x) for x in raw]
    return rat(Fraction(raw[1:] if raw[:1] in ("i", "f") else raw))
