"""C01 — AOEF save/load round trip is lossless for every collection type."""
import copy
import random
import time

from ..core import Op
from .. import aoef, aoefgen, aoef_impl, c01_cases, c01_fs, c01_impl

PROPERTY = "C01"
LEAN_MODULE = "Proofs.C01"
_T = "SE.Proofs.C01."
_THEOREM_NAMES = ["C01_roundtrip_general", "C01_save_total", "C01_roundtrip", "C01_roundtrip_dir", "C01_relocate",
                  "C01_fixpoint", "C01_fixpoint_dir", "C01_same_type_save", "C01_same_type_load", "C01_same_type",
                  "C01_type_dispatch", "C01_wf_of_wfB", "C01_wfB_iff", "C01_load_gate_iff", "C01_load_gate_not_found",
                  "C01_load_file_type", "C01_roundtrip_dir_relative", "C01_fixpoint_dir_dot", "C01_cycles_dir_outside",
                  "C01_fixpoint_dir_iff", "C01_save_gate_iff", "C01_save_load_gate",
                  # follow-up: the file system as the state carried between calls
                  "C01_fs_write_read", "C01_fs_write_frame", "C01_fs_save_overwrites", "C01_fs_load_last_save",
                  "C01_fs_save_load", "C01_fs_history_free", "C01_fs_history", "C01_fs_history_roundtrip",
                  "C01_fs_history_fixpoint"]
THEOREMS = [_T + n for n in _THEOREM_NAMES]
LEVEL_TEXT = ("Lean theorems over an executable model of all 26 AOEF adapter modules (data classes, document classes, "
              "save = first-wins tables over the post-order traversal, single-pass loader with lenient / strict "
              "references): load (save c) = c for every collection constructor under the explicit coherence "
              "hypothesis WF, with and without an audio directory (relative or absolute; with a directory the n-cycle "
              "fixpoint holds exactly when every recording lies inside it), and n-cycle fixpoint; the file-level gates "
              "of io.save / io.load; histories over a file-system model path -> content in which save overwrites: a load "
              "returns the collection last saved to that path whatever any path held before and whatever happened at other "
              "paths, and every history of save/load cycles answers step by step as the pure model (history-freedom). "
              "The model is tied to the code on every run by regenerated FieldsAgree obligations "
              "(every data class and every AOEF object class, found by its position in the document; decide +kernel on "
              "the model structures' own field lists), the adapter-table obligation, and differential correspondence "
              "of documents, loads and n-cycle round trips on pool-generated object graphs (in-process and through a "
              "fresh loader process), each round trip also judged after every cycle by a walk over the declared "
              "fields (model_fields) of the real classes, and of histories of saves / loads / foreign writes over shared "
              "real files against the file-system model.")
LEVEL_NOTE = ("Trusted: Lean kernel; the harness' conversion between pydantic objects / JSON documents and the model's "
              "JSON layout; pydantic's parsing of atoms (floats, datetimes, e-mail, uuid) and JSON text encoding, which "
              "the model treats as opaque atoms. Unmodelled: Recording's extra='allow' undeclared fields, non-simple "
              "terms (the property permits reduction of a term to its label), geometry re-validation (C03); of the file "
              "system only path -> content is modelled (no directories, permissions, links, concurrent writers; a path is "
              "a key, distinct names are distinct files). The "
              "strength of the model/code tie is bounded by the generators (distribution in the evidence).")
TECHNIQUE = ("Lean 4 proof (round trip and fixpoint theorems over a hand-written executable model of the AOEF adapters); "
             "regenerated FieldsAgree / adapter-table obligations (decide +kernel); differential correspondence of "
             "documents, loads and n-cycle round trips")
RULE = ("distinct (operation, collection) inputs on which the real save/load ran without error; collections are "
        "pool-generated object graphs of all eight types with shared sub-objects and equal-content twins, optional "
        "fields present/absent (randomly and one declared field at a time), falsy-but-meaningful and extreme atoms, "
        "relative and absolute audio directories in several spellings; objects constructed by the constructors, "
        "model_validate (dict / tuples / JSON), model_copy, deepcopy, with ints and numpy scalars; every spelling of the "
        "calls (keyword / positional, format, type, str / Path, missing parent, pre-existing target, relative file name) "
        "x every type x directory class; every list slot one at a time reordered / with a repeated element; one uuid "
        "shared across kinds; time_expansion at 10^-6..10^-15 around 1.0; near-twins; 17 / 257 / 1025 elements; "
        "histories over shared files (shrink, grow, edit a loaded object and save it back, alternate collections, "
        "change the audio directory, foreign content at the target, interleaved paths, failed saves, poisoned results, "
        "revised content, same-length documents), every step judged on its own")
TRUSTED = ["pydantic-core parsing / dumping of atoms (float repr round trip, datetime, uuid, e-mail) and JSON text",
           "harness/aoef.py: build (model JSON -> pydantic objects), dump (objects -> model JSON), doc_to_model "
           "(dump's field lists are double-checked on every round trip by the declared-field walk of harness/c01_generic.py)"]
ASSUMPTIONS = ["objects with one uuid are one object (sharing by reference) — the model's WF coherence hypothesis, "
               "evaluated by the Lean-side wfB on every generated input",
               "terms are simple-label terms; feature labels are distinct within each feature list; the collection's "
               "own member list has distinct members (needed by the code only for Evaluation.clip_evaluations, which is "
               "written from the de-duplicated adapter table; model and code agree on duplicated members: roundtrip_dup)"]
NOT_COMPARED = ["order of the top-level definition lists of a document and the numbering of tag ids (the property does "
                "not pin them; documents are compared after sorting by uuid and renumbering tags by (label, value))",
                "absent vs empty optional lists in the document (representation, not content)",
                "AOEFObject.created_on / version of the file wrapper", "error messages",
                "the sign of a zero (-0.0 == 0.0; negative zeros are never generated)",
                "a time-zone offset with a seconds part (pydantic drops the seconds; never generated)",
                "what a file holds after a save that raised (the property speaks of saves that succeed): loads of such a "
                "file are run but not compared until the next successful save to it",
                "instances of user-defined subclasses of the data classes (the loader cannot return a class it does not know)"]

HAVE_DISPATCH_THEOREM = True     # set when Proofs/C01.lean provides C01_type_dispatch
_DISPATCH_OBLIGATION = (
    "example : SE.Aoef.MostSpecificFirst adapterOrder adapterSub = true := by decide\n"
    "example : ∀ c ∈ adapterOrder, SE.Aoef.firstMatch adapterOrder adapterSub c = some c :=\n"
    "  fun c hc => SE.Proofs.C01.C01_type_dispatch adapterOrder adapterSub c (by decide) hc\n")

CLASSES_DATA = ["User", "Tag", "Feature", "Note", "Recording", "Clip", "SoundEvent", "Sequence", "SoundEventAnnotation",
                "SequenceAnnotation", "ClipAnnotation", "StatusBadge", "AnnotationTask", "PredictedTag",
                "SoundEventPrediction", "SequencePrediction", "ClipPrediction", "Match", "ClipEvaluation",
                "RecordingSet", "Dataset", "AnnotationSet", "AnnotationProject", "EvaluationSet", "PredictionSet",
                "ModelRun", "Evaluation"]
RENAME = {"Tag": {"term": "key"}, "Feature": {"term": "key"}}


# ------------------------------------------------------------------ operations
def _impl_roundtrip(inp):
    return c01_impl.roundtrip(inp)


def _model_roundtrip(inp):
    return {"collection": inp["collection"], "save_dir": inp.get("save_dir"), "load_dir": inp.get("load_dir"),
            "n": inp.get("n", 1)}


def _holds_roundtrip(ctx, inp, out):
    """the property itself on the real I/O: same type, equal in every declared field, after every one of n cycles
    (judged inside `c01_impl.roundtrip` against the object that was built and saved)"""
    if "unbuildable" in out:
        ctx.tally("generator:unbuildable")
        return None
    if not c01_impl.same_dir(inp.get("save_dir"), inp.get("load_dir")):
        return None          # relocation is C18's statement
    if "built_differs" in out:
        ctx.tally("constructors normalised the input")
    if "property" in out:
        return out["property"]
    if "raise" in out:
        return f"save/load raised {out['raise']} on a collection inside the quantifier"
    return None


def _cmp_roundtrip(inp, io, mo):
    if "unbuildable" in io or "built_differs" in io:
        return None          # the model was given something else than what was saved
    a = {k: v for k, v in io.items() if k in ("val", "raise")}
    if a == mo:
        return None
    if "val" in a and "val" in mo:
        return "implementation and model disagree at " + str(aoef.diff(a["val"], mo["val"]))
    return "implementation and model disagree"


def _impl_save_doc(inp):
    try:
        _obj, path = aoef_impl.save_real(inp["collection"], inp.get("audio_dir"))
    except Exception as e:  # noqa: BLE001
        from ..core import canon_exc
        return canon_exc(e)
    try:
        doc, unknown = aoef_impl.read_doc(path)
    finally:
        aoef_impl.cleanup(path)
    return {"val": aoef.canon_doc(doc), "unknown_keys": unknown}


def _cmp_save_doc(inp, io, mo):
    if "raise" in io or "raise" in mo:
        return None if {k: v for k, v in io.items() if k != "trace"} == mo else "implementation and model disagree (error)"
    if io.get("unknown_keys"):
        return f"the document has keys the model does not know: {io['unknown_keys']}"
    want = aoef.canon_doc(mo["val"])
    d = None if io["val"] == want else aoef.diff(io["val"], want)
    return None if d is None else "document written by the code differs from the model's at " + d


def _impl_load_doc(inp):
    return aoef_impl.load_doc(inp["doc"], inp.get("audio_dir"))


_GATE_DOCS = {}


def _impl_load_gate(inp):
    """io.load on a file with the given suffix / version / collection type, format and type arguments"""
    import json as _json
    import os as _os
    from soundevent import io
    from .. import leanio as _leanio
    ty = inp["doc_type"]
    if ty not in _GATE_DOCS:            # (a replay: `_stage_gate` has not written the model's documents)
        cj = aoefgen.gen_collection(random.Random("gate:" + ty), ty, size=0.5)
        _obj, path = aoef_impl.save_real(cj, None)
        _GATE_DOCS[ty] = _json.load(open(path))
        aoef_impl.cleanup(path)
    doc = dict(_GATE_DOCS[ty], version=inp["version"])
    path = _os.path.join(_leanio.run_dir(), "gate" + (".json" if inp["suffix_json"] else inp.get("suffix", ".txt")))
    if _os.path.exists(path):
        _os.remove(path)
    if inp["exists"]:
        _json.dump(doc, open(path, "w"))
    try:
        obj = io.load(path, format=inp.get("format"), type=inp.get("type"))
        want = dict(aoef.TYPE_OF_CLASS)[type(obj).__name__]
        return {"ok": True} if want == ty else {"ok": False, "loaded_type": want}
    finally:
        aoef_impl.cleanup(path)


def _impl_save_gate(inp):
    """io.save with the given suffix and format argument: is the document written at all?"""
    import os as _os
    from soundevent import io
    from .. import leanio as _leanio
    cj = aoefgen.gen_collection(random.Random("gate:" + inp["doc_type"]), inp["doc_type"], size=0.5)
    obj = aoef.build(cj)
    path = _os.path.join(_leanio.run_dir(), "sgate" + (".json" if inp["suffix_json"] else inp.get("suffix", ".aoef")))
    aoef_impl.cleanup(path)
    try:
        kw = {} if inp.get("format") == "<default>" else {"format": inp.get("format")}
        io.save(obj, path, **kw)
        return {"ok": True} if _os.path.exists(path) else {"ok": False}
    finally:
        aoef_impl.cleanup(path)


def _model_save_gate(inp):
    return dict(inp, format="aoef" if inp.get("format") == "<default>" else inp.get("format"))


def _save_gate_cases():
    return [{"suffix_json": sj, "format": fmt, "doc_type": ty}
            for sj in (True, False) for fmt in (None, "aoef", "other", "<default>", "AOEF", "")
            for ty in ("recording_set", "annotation_project", "evaluation")]


def _gate_cases():
    out = []
    for ex in (True, False):
        for sj in (True, False):
            for fmt in (None, "aoef", "other"):
                for ver in ("1.1.0", "1.0.0", "2"):
                    for ty in ("dataset", "evaluation", "annotation_set"):
                        for rt in (None, ty, "recording_set", "model_run"):
                            out.append({"exists": ex, "suffix_json": sj, "format": fmt, "type": rt, "version": ver,
                                        "doc_type": ty})
    return out


def _impl_history(inp):
    """consecutive round trips in this one process (and one fresh-loader process): nothing may be remembered"""
    return [_impl_roundtrip(st) for st in inp["steps"]]


def _model_history(inp):
    return {"steps": [_model_roundtrip(st) for st in inp["steps"]]}


def _holds_history(ctx, inp, out):
    for i, (st, o) in enumerate(zip(inp["steps"], out)):
        msg = _holds_roundtrip(ctx, st, o)
        if msg:
            return f"step {i + 1} of {len(inp['steps'])} (after earlier saves/loads in the same process): {msg}"
    return None


def _cmp_history(inp, io, mo):
    for i, (st, a, b) in enumerate(zip(inp["steps"], io, mo)):
        msg = _cmp_roundtrip(st, a, b)
        if msg:
            return f"step {i + 1}: {msg}"
    return None


def _impl_roundtrip_dup(inp):
    out = c01_impl.roundtrip(inp)
    return {k: v for k, v in out.items() if k in ("val", "raise", "unbuildable")}


def _impl_fs_history(inp):
    return c01_fs.run(inp)


OPS = {
    # histories over one file system: the same path saved again with a smaller / larger / other / revised collection,
    # a loaded object edited and saved back, foreign content at the target, interleaved paths, poisoned results
    "fs_history": Op("fs_history", _impl_fs_history, holds=c01_fs.holds, compare=c01_fs.compare, to_model=c01_fs.to_model,
                     nontrivial=lambda i, o: isinstance(o, dict) and any("val" in x for x in o.get("steps", []))),
    # the same object listed twice in the collection's own member list (outside WF: only the correspondence is checked)
    "roundtrip_dup": Op("roundtrip_dup", _impl_roundtrip_dup, compare=_cmp_roundtrip, determined=False,
                        to_model=_model_roundtrip, model_op="roundtrip", nontrivial=lambda i, o: "val" in o),
    "history": Op("history", _impl_history, holds=_holds_history, compare=_cmp_history, to_model=_model_history,
                  nontrivial=lambda i, o: all("val" in x for x in o)),
    "load_gate": Op("load_gate", _impl_load_gate, nontrivial=lambda i, o: True),
    "save_gate": Op("save_gate", _impl_save_gate, to_model=_model_save_gate, nontrivial=lambda i, o: True),
    "roundtrip": Op("roundtrip", _impl_roundtrip, holds=_holds_roundtrip, compare=_cmp_roundtrip,
                    to_model=_model_roundtrip, nontrivial=lambda i, o: "val" in o),
    "save_doc": Op("save_doc", _impl_save_doc, compare=_cmp_save_doc, determined=False, model_op="save",
                   nontrivial=lambda i, o: "val" in o),
    "load_doc": Op("load_doc", _impl_load_doc, determined=False, model_op="load_checked",
                   nontrivial=lambda i, o: "val" in o),
}


# ------------------------------------------------------------------ tie 1: tables
def _lean_list(xs):
    return "[" + ", ".join('"%s"' % x for x in xs) + "]"


# document key -> name of the model structure of the objects listed there
POSITION = {"users": "UserObject", "tags": "TagObject", "recordings": "RecordingObject", "clips": "ClipObject",
            "sound_events": "SoundEventObject", "sequences": "SequenceObject",
            "sound_event_annotations": "SoundEventAnnotationObject", "sequence_annotations": "SequenceAnnotationObject",
            "clip_annotations": "ClipAnnotationsObject", "sound_event_predictions": "SoundEventPredictionObject",
            "sequence_predictions": "SequencePredictionObject", "clip_predictions": "ClipPredictionsObject",
            "clip_evaluations": "ClipEvaluationObject", "matches": "MatchObject", "tasks": "AnnotationTaskObject",
            "notes": "NoteObject", "status_badges": "StatusBadgeObject"}
DOC_MODEL = {"recording_set": "RecordingSetObject", "dataset": "DatasetObject", "annotation_set": "AnnotationSetObject",
             "annotation_project": "AnnotationProjectObject", "evaluation_set": "EvaluationSetObject",
             "prediction_set": "PredictionSetObject", "model_run": "ModelRunObject", "evaluation": "EvaluationObject"}


def _models_in(ann):
    """pydantic classes mentioned in a type annotation"""
    import typing
    from pydantic import BaseModel
    out = []
    stack = [ann]
    while stack:
        a = stack.pop()
        if isinstance(a, type) and issubclass(a, BaseModel):
            out.append(a)
        else:
            stack.extend(typing.get_args(a))
    return out


def _classes_by_position(A):
    """(model structure name, class) for the schema of every position of an AOEF document"""
    wrapper = next(c for c in vars(A).values() if isinstance(c, type) and hasattr(c, "model_fields")
                   and {"version", "data"} <= set(c.model_fields))
    out, done = [], set()

    def nested(cls):
        for f, info in cls.model_fields.items():
            for c in _models_in(info.annotation):
                if f in POSITION and c.__module__.startswith("soundevent.io.aoef"):
                    out.append((POSITION[f], c))
                    if id(c) not in done:
                        done.add(id(c))
                        nested(c)
    for c in _models_in(wrapper.model_fields["data"].annotation):
        disc = c.model_fields.get("collection_type")
        if disc is not None and disc.default in DOC_MODEL:
            out.append((DOC_MODEL[disc.default], c))
            nested(c)
    return out


def _tables(ctx):
    from soundevent import data
    import soundevent.io.aoef as A
    import importlib
    import inspect
    import pkgutil
    from pydantic import BaseModel
    # data classes
    for name in CLASSES_DATA:
        cls = getattr(data, name, None)
        if cls is None:
            ctx.fail("obligation", f"fields_{name}", detail=f"soundevent.data.{name} no longer exists")
            continue
        fs = sorted(RENAME.get(name, {}).get(f, f) for f in cls.model_fields)
        ctx.obligation(f"fields_{name}", f'example : SE.Aoef.fieldsOf "{name}" = {_lean_list(fs)} := by decide +kernel',
                       {"class": name, "fields": fs})
    # AOEF object classes.  (a) by *position in the document*: every pydantic class reachable through the field
    # annotations of the members of the `AOEFObject.data` union is the schema of the objects written at that key
    # (`recordings[]`, `recordings[].notes[]`, `tasks[].status_badges[]` …) whatever the class is called;
    # (b) by name, walking every module of the package (catches a class that is defined but no longer referenced).
    seen = {}
    try:
        for model_name, c in _classes_by_position(A):
            if seen.get(model_name, c) is not c:
                model_name = f"{model_name}@{c.__module__}.{c.__name__}"     # two schemas for one position
            seen[model_name] = c
        ctx.tally("object classes found by document position", len(seen))
    except Exception as e:  # noqa: BLE001
        ctx.note("object classes could not be found by document position (%r); falling back to class names" % (e,))
    by_position = set(map(id, seen.values()))
    for m in pkgutil.iter_modules(A.__path__):
        mod = importlib.import_module("soundevent.io.aoef." + m.name)
        for n, c in inspect.getmembers(mod, inspect.isclass):
            if issubclass(c, BaseModel) and c.__module__ == mod.__name__ and n.endswith("Object") and id(c) not in by_position:
                if n != "AOEFObject":
                    seen.setdefault(n, c)
    for n, c in sorted(seen.items()):
        fs = sorted(c.model_fields)
        ctx.obligation(f"fields_{n}", f'example : SE.Aoef.fieldsOf "{n.split("@")[0]}" = {_lean_list(fs)} := by decide +kernel',
                       {"class": f"{c.__module__}.{c.__name__}", "fields": fs})
    ctx.tally("object_classes", len(seen))
    # the adapter table: type names, most specific first, discriminators
    adapters = getattr(A, "ADAPTERS", None)
    if adapters is None:
        ctx.fail("obligation", "adapter_table", detail="soundevent.io.aoef.ADAPTERS no longer exists")
        return
    names = [a[0] for a in adapters]
    classes = [a[1] for a in adapters]
    sub = [(names[i], names[j]) for i in range(len(names)) for j in range(len(names))
           if i != j and issubclass(classes[i], classes[j])]
    disc = {}
    for n, c in seen.items():
        f = c.model_fields.get("collection_type")
        if f is not None:
            disc[n] = f.default
    pairs = "[" + ", ".join(f'("{a}", "{b}")' for a, b in sub) + "]"
    src = (f"def adapterOrder : List String := {_lean_list(names)}\n"
           f"def adapterSub (a b : String) : Bool := a == b || ({pairs} : List (String × String)).contains (a, b)\n"
           + (_DISPATCH_OBLIGATION if HAVE_DISPATCH_THEOREM else "") +
           f"example : adapterOrder.Nodup := by decide\n"
           f"example : (adapterOrder.all fun n => (SE.Aoef.Doc.keys n).length > 0) = true := by decide\n")
    ctx.obligation("adapter_table", src, {"order": names, "subclass_pairs": sub})
    # every collection type's Object class has that type as its discriminator, and the data class matches
    want = {"recording_set": ("RecordingSet", "RecordingSetObject"), "dataset": ("Dataset", "DatasetObject"),
            "annotation_set": ("AnnotationSet", "AnnotationSetObject"),
            "annotation_project": ("AnnotationProject", "AnnotationProjectObject"),
            "evaluation_set": ("EvaluationSet", "EvaluationSetObject"),
            "prediction_set": ("PredictionSet", "PredictionSetObject"), "model_run": ("ModelRun", "ModelRunObject"),
            "evaluation": ("Evaluation", "EvaluationObject")}
    got = {a[0]: (a[1].__name__, next((n for n, d in disc.items() if d == a[0]), None)) for a in adapters}
    if got != want:
        ctx.fail("obligation", "adapter_discriminators",
                 detail=f"(type name -> data class, object class with that discriminator) is {got}, the model has {want}")
    else:
        ctx.obl_results["adapter_discriminators"] = True
        ctx.obligations.append(("adapter_discriminators", "-- compared in the harness: " + str(got), {}))


# ------------------------------------------------------------------ tie 2: generators
def _wf_filter(ctx, cases):
    """keep the inputs inside the quantifier (Lean-side wfB); anything else is a generator fault, tallied"""
    oks = ctx.model_many("wf", [{"collection": c["collection"]} for c in cases])
    out = []
    for c, ok in zip(cases, oks):
        if ok:
            out.append(c)
        else:
            ctx.tally("generator:not-WF")
    return out


def _buildable(ctx, cases):
    """drop inputs the data classes refuse to construct (a variant that violates a schema validator)"""
    out = []
    for c in cases:
        try:
            aoef.build(c["collection"])
            out.append(c)
        except Exception:  # noqa: BLE001
            ctx.tally("generator:unbuildable variant")
    return out


def _gen_cases(ctx, rng, n_per_type, rich=False, size=1.0):
    cases = []
    for ty in aoefgen.TYPES:
        for i in range(n_per_type):
            base = rng.choice(["/data/audio", "/data/audio", "/", "/a b/ünï", None])
            cj = aoefgen.gen_collection(rng, ty, rich=rich, base=base, size=size)
            d = base if (base is not None and rng.random() < 0.5) else None
            cases.append({"collection": cj, "save_dir": d, "load_dir": d, "n": rng.choice([1, 1, 2, 3]),
                          "dir_as": rng.choice(["str", "path"]), "fresh": False})
            ctx.tally("type:" + ty)
            ctx.tally("audio_dir:" + ("given" if d else "none"))
    return _wf_filter(ctx, cases)


def _doc_cases(cases):
    return [{"collection": c["collection"], "audio_dir": c["save_dir"]} for c in cases]


def _mutate_doc(rng, doc):
    """a document outside what `save` writes: dangling / duplicated / reordered entries (lenient vs strict loading)"""
    d = copy.deepcopy(doc)
    if d.get("tasks") and d.get("clips") and rng.random() < 0.35:
        # a clip that only a task refers to disappears: the annotations load, the task must not
        used = {a["clip"] for a in d.get("clip_annotations") or []}
        only = [t["clip"] for t in d["tasks"] if t["clip"] not in used]
        if only:
            k = rng.choice(only)
            d["clips"] = [c for c in d["clips"] if c["uuid"] != k]
            return d, "drop-task-clip:clips"
    lists = [k for k in aoef.DOC_LISTS if d.get(k)]
    if not lists:
        return d, "none"
    k = rng.choice(lists)
    how = rng.choice(["drop", "dup", "reverse", "drop-first", "drop-any"])
    if how == "drop-any":
        i = rng.randrange(len(d[k]))
        d[k] = d[k][:i] + d[k][i + 1:]
    elif how == "drop":
        d[k] = d[k][:-1]
    elif how == "drop-first":
        d[k] = d[k][1:]
    elif how == "dup":
        d[k] = d[k] + [copy.deepcopy(d[k][0])]
    else:
        d[k] = list(reversed(d[k]))
    return d, f"{how}:{k}"


def _load_cases(ctx, rng, cases, n_mut):
    outs = ctx.model_many("save", [{"collection": c["collection"], "audio_dir": c["save_dir"]} for c in cases])
    res = []
    for c, o in zip(cases, outs):
        if "val" not in o:
            continue
        res.append({"doc": o["val"], "audio_dir": c["load_dir"]})
        for _ in range(n_mut):
            d, how = _mutate_doc(rng, o["val"])
            ctx.tally("mutated-doc:" + how.split(":")[0])
            res.append({"doc": d, "audio_dir": c["load_dir"]})
    return res


def _tally_cases(ctx, cases, prefix):
    for c in cases:
        ctx.tally("type:" + c["collection"]["type"])
        t = c.pop("_tally", None)
        d = c.get("save_dir")
        ctx.tally(prefix + ":" + (t or ("audio_dir given" if d is not None else "no audio_dir")))
    return cases


def _rich_cases(ctx):
    """deterministic all-fields corpus: every optional field present, every list with at least two elements, one per
    type; plus the same graphs with every list reversed (one of the two orders is unsorted under any key)"""
    crng = random.Random("C01-all-fields")
    rich = _gen_cases(ctx, crng, 1, rich=True)
    for ty in aoefgen.TYPES:
        for base, d in (("/data/audio", "/data/audio"), ("audio/site a", "./audio/"), (None, None)):
            cj = c01_cases.RichGen(crng, base=base).collection(ty)
            rich.append({"collection": cj, "save_dir": d, "load_dir": d, "n": 3, "dir_as": "str", "fresh": False})
    rich += [dict(c, collection=c01_cases.reverse_lists(c["collection"])) for c in rich[len(aoefgen.TYPES):]]
    for c in rich:
        c["n"] = 3
    return _wf_filter(ctx, rich)


def _stage_rich(ctx, st):
    rich = st["rich"] = _rich_cases(ctx)
    ctx.tally("all-fields collections (incl. list-reversed)", len(rich))
    ctx.run_cases(OPS["roundtrip"], rich)
    ctx.run_cases(OPS["save_doc"], _doc_cases(rich))
    # declared fields the harness does not know (none on the pinned tree) get a non-default value before saving
    ctx.run_cases(OPS["roundtrip"], [dict(c, fill_unknown=True, n=1, fresh=bool(i % 2)) for i, c in enumerate(rich[8:16])])


def _stage_slots(ctx, st):
    """one optional field at a time absent / empty / falsy, for every (class, field) of the declared fields"""
    rich_by_type = {}
    for c in st.get("rich", [])[8:]:
        rich_by_type.setdefault(c["collection"]["type"], c["collection"])
    per = None if ctx.thorough() else 1
    vs = c01_cases.slot_variants(rich_by_type, types_per_slot=per, rng=ctx.rng)
    cases = []
    for label, c in vs:
        cases.append(dict(c, save_dir=None, load_dir=None, n=1, dir_as="str", fresh=False))
    cases = _buildable(ctx, _wf_filter(ctx, cases))
    ctx.tally("slot variants (class.field absent/empty/falsy)", len(cases))
    ctx.exhaustive["optional_slots"] = ("every declared field of every data class that is Optional / a list / str / float / int / "
                                        f"bool (from model_fields, {len(c01_cases.slot_table())} fields), one at a time absent / empty / "
                                        "falsy in an all-fields collection" + ("" if per is None else " (one host type per slot)"))
    ctx.run_cases(OPS["roundtrip"], cases)
    ctx.run_cases(OPS["roundtrip"], [dict(c, fresh=True) for c in cases[::5]])
    ctx.run_cases(OPS["save_doc"], _doc_cases(cases[::3]))


def _stage_random(ctx, st):
    n = ctx.budget(32, 1200)
    cases = st["cases"] = _gen_cases(ctx, ctx.rng, n)
    ctx.run_cases(OPS["roundtrip"], cases)
    ctx.run_cases(OPS["save_doc"], _doc_cases(cases))
    # fresh loader process (nothing can be recovered from memory)
    fresh = [dict(c, fresh=True, n=1) for c in cases[::3]] + [dict(c, fresh=True, n=2) for c in st.get("rich", [])]
    ctx.run_cases(OPS["roundtrip"], fresh)
    ctx.tally("fresh-process loads", len(fresh))


def _stage_dirs(ctx, st):
    """relative recording paths under relative audio directories (and absolute ones), the directory spelled as a
    caller may write it, str and Path, n cycles, in-process and fresh"""
    n = ctx.budget(6, 150)
    cases = _wf_filter(ctx, c01_cases.dir_cases(ctx.rng, n))
    cases += _wf_filter(ctx, c01_cases.recording_is_directory_cases())
    st["dirs"] = _tally_cases(ctx, cases, "dir-spelling")
    ctx.run_cases(OPS["roundtrip"], cases)
    ctx.run_cases(OPS["roundtrip"], [dict(c, fresh=True) for c in cases[::2]])
    ctx.run_cases(OPS["save_doc"], _doc_cases(cases[::2]))


def _stage_wide(ctx, st):
    """atoms at the edge of their types; distinct objects with equal content; ints where floats are declared"""
    n = ctx.budget(5, 120)
    wide, twin = [], []
    for ty in aoefgen.TYPES:
        for i in range(n):
            base = ctx.rng.choice(["/data/audio", "audio", None])
            d = base if (base is not None and ctx.rng.random() < 0.5) else None
            mk = lambda cj: {"collection": cj, "save_dir": d, "load_dir": d, "n": ctx.rng.choice([1, 2, 3]),
                             "dir_as": ctx.rng.choice(["str", "path"]), "fresh": False}
            w = c01_cases.WideGen(ctx.rng, rich=i == 0, base=base, size=0.8).collection(ty)
            wide.append(mk(c01_cases.widen_strings(w, ctx.rng) if i % 3 else w))
            twin.append(mk(c01_cases.TwinGen(ctx.rng, rich=i == 0, base=base, size=0.8).collection(ty)))
    wide = st["wide"] = _tally_cases(ctx, _wf_filter(ctx, wide), "wide-atoms")
    twin = st["twin"] = _tally_cases(ctx, _wf_filter(ctx, twin), "twins")
    for cases in (wide, twin):
        ctx.run_cases(OPS["roundtrip"], cases)
        ctx.run_cases(OPS["roundtrip"], [dict(c, fresh=True) for c in cases[::2]])
        ctx.run_cases(OPS["save_doc"], _doc_cases(cases))
    ints = [dict(c, ints=True, n=1) for c in (st.get("cases", [])[::8] + wide[::4] + st.get("rich", [])[::3])]
    ctx.tally("integral numbers passed as int", len(ints))
    ctx.run_cases(OPS["roundtrip"], ints)


IO_VARIANTS = [{"save_format": None}, {"save_format": "aoef", "load_format": None}, {"load_format": "aoef", "load_type": True},
               {"load_type": True}, {"subdir": True, "path_as": "path"}, {"subdir": True, "save_format": None, "load_format": None,
                                                                          "load_type": True}, {"path_as": "path"},
               # follow-up: positional arguments in the documented order, a target that already holds something,
               # a file name relative to the working directory, the file removed between the cycles
               {"positional": True}, {"positional": True, "load_type": True, "path_as": "path"},
               {"positional": True, "save_format": None, "load_format": None, "subdir": True},
               {"preexisting": "junk-long"}, {"preexisting": "nested-tail", "positional": True}, {"preexisting": "empty"},
               {"preexisting": "spaces", "load_type": True}, {"relname": ""}, {"relname": "./", "path_as": "path"},
               {"remove_between": True}]


def _stage_io(ctx, st):
    """the other spellings of the call: format given / inferred, the type requested on load, a `Path` as file name,
    a parent directory that does not exist yet; and the same member listed twice (model = code outside WF)"""
    src = st.get("rich", [])[:16] + st.get("cases", [])[::10] + st.get("dirs", [])[::7]
    cases = [dict(c, io=IO_VARIANTS[i % len(IO_VARIANTS)], n=1 + i % 2) for i, c in enumerate(src)]
    ctx.tally("call variants (format / type / Path / new directory)", len(cases))
    ctx.run_cases(OPS["roundtrip"], cases)
    dups = []
    for c in st.get("cases", [])[::3] + st.get("rich", [])[8:16]:
        v = c["collection"]["value"]
        for key in ("recordings", "clip_annotations", "clip_predictions", "clip_evaluations", "tasks"):
            if v.get(key):
                w = dict(v, **{key: v[key] + [copy.deepcopy(v[key][0])]})
                dups.append(dict(c, collection={"type": c["collection"]["type"], "value": w}, n=1))
    ctx.tally("duplicated-member inputs (outside WF, correspondence only)", len(dups))
    ctx.run_cases(OPS["roundtrip_dup"], dups)


def _small_cases(ctx, tag):
    """one small and one empty collection of every type, without a directory, under an absolute and under a relative one"""
    rng = random.Random("C01-small:" + tag)
    out = []
    for ty in aoefgen.TYPES:
        for base, d in ((None, None), ("/data/audio", "/data/audio"), ("audio/site a", "./audio/")):
            cj = aoefgen.gen_collection(rng, ty, base=base, size=0.6)
            out.append({"collection": cj, "save_dir": d, "load_dir": d, "n": 2, "dir_as": "str", "fresh": False})
        v = {"uuid": aoefgen.Gen(rng, size=0.3).uid(), "created_on": "2024-02-29T12:00:00"}
        full = aoefgen.gen_collection(rng, ty, size=0.3)["value"]
        for k, x in full.items():
            if k not in v:
                v[k] = [] if isinstance(x, list) else (x if k in ("name", "evaluation_task") else None)
        out.append({"collection": {"type": ty, "value": v}, "save_dir": "/data/audio", "load_dir": "/data/audio", "n": 2,
                    "dir_as": "path", "fresh": False, "_tally": "empty collection"})
    return _wf_filter(ctx, out)


def _stage_products(ctx, st):
    """pairwise products (HISTORIES.md section 3): every spelling of the calls x every collection type x
    {no directory, absolute, relative, empty collection}; every construction path x every collection type"""
    small = _small_cases(ctx, "calls")
    cases = [dict(c, io=v, n=1 + (i + j) % 2) for i, c in enumerate(small) for j, v in enumerate(IO_VARIANTS)]
    for c in cases:
        c.pop("_tally", None)
    ctx.exhaustive["call_spellings"] = (f"{len(IO_VARIANTS)} spellings of save/load (format given / inferred / positional, type requested, "
                                        "str / Path, missing parent, pre-existing target, relative file name) x 8 collection types x "
                                        "{no directory, absolute, relative, empty collection}")
    ctx.tally("call spelling x type x directory class", len(cases))
    ctx.run_cases(OPS["roundtrip"], cases)
    vias = [v for v in c01_impl.VIAS if v != "build"]
    src = st.get("rich", [])[8:16] + _small_cases(ctx, "vias")[::2] + st.get("twin", [])[::6]
    cases = [dict(c, via=v, n=1 + (i + j) % 2, fresh=bool((i + j) % 3 == 0)) for i, c in enumerate(src) for j, v in enumerate(vias)]
    for c in cases:
        c.pop("_tally", None)
        c.pop("ints", None)
    ctx.exhaustive["construction_paths"] = ("constructors / model_validate(dict) / model_validate with tuples / model_validate_json / "
                                            "model_copy deep and shallow / copy.deepcopy / ints / numpy scalars assigned, x all-fields "
                                            "and small collections of every type")
    ctx.tally("construction path x collection", len(cases))
    ctx.run_cases(OPS["roundtrip"], cases)


def _stage_siblings(ctx, st):
    """every list slot of every class one at a time reversed / rotated / with a repeated element; objects of
    different kinds under one uuid"""
    rich_by_type = {}
    for c in st.get("rich", [])[8:]:
        rich_by_type.setdefault(c["collection"]["type"], c["collection"])
    vs = c01_cases.sibling_variants(rich_by_type, ctx.rng, hosts_per_slot=None if ctx.thorough() else 1)
    cases = [dict(c, save_dir=None, load_dir=None, n=1, dir_as="str", fresh=bool(i % 4 == 0)) for i, (label, c) in enumerate(vs)]
    cases = _buildable(ctx, _wf_filter(ctx, cases))
    ctx.tally("sibling list slots (one slot reversed / rotated / repeated)", len(cases))
    ctx.exhaustive["list_slots"] = (f"{len(c01_cases.LIST_SLOTS) + len(c01_cases.COLLECTION_LIST_SLOTS)} (class, list field) slots, one at a "
                                    "time reversed / rotated / with a repeated element in an all-fields collection")
    ctx.run_cases(OPS["roundtrip"], cases)
    ctx.run_cases(OPS["save_doc"], _doc_cases(cases[::3]))
    cross = []
    for i, c in enumerate(st.get("rich", [])[:16] + st.get("cases", [])[::5] + st.get("twin", [])[::4]):
        cross.append(dict(c, collection=c01_cases.share_uuids_across_kinds(c["collection"], ctx.rng), n=1 + i % 2,
                          fresh=bool(i % 3 == 0)))
    cross = _buildable(ctx, _wf_filter(ctx, cross))
    for c in cross:
        c.pop("_tally", None)
    ctx.tally("one uuid shared by objects of different kinds", len(cross))
    ctx.run_cases(OPS["roundtrip"], cross)
    ctx.run_cases(OPS["save_doc"], _doc_cases(cross[::2]))


def _stage_boundaries(ctx, st):
    """tolerance-sized offsets around the comparison the adapters make (time_expansion != 1.0), near-twins (content a
    hair apart), collections at the sizes where an implementation could switch strategy"""
    te = _tally_cases(ctx, _wf_filter(ctx, c01_cases.time_expansion_cases()), "boundary")
    ctx.exhaustive["time_expansion"] = (f"{len(c01_cases.time_expansion_values())} values: 1.0, its two neighbours, 1 +- 10^-6..10^-15, the "
                                        "same offsets around 10, 1e-6, 1e9; 0, 5e-324")
    ctx.run_cases(OPS["roundtrip"], te)
    ctx.run_cases(OPS["save_doc"], _doc_cases(te[::2]))
    near = []
    for ty in aoefgen.TYPES:
        for i in range(ctx.budget(3, 60)):
            base = ctx.rng.choice(["/data/audio", None])
            cj = c01_cases.NearGen(ctx.rng, rich=i == 0, base=base, size=0.8).collection(ty)
            near.append({"collection": cj, "save_dir": base, "load_dir": base, "n": ctx.rng.choice([1, 2]), "dir_as": "str",
                         "fresh": bool(i % 2), "_tally": "near-twins"})
    near = _tally_cases(ctx, _buildable(ctx, _wf_filter(ctx, near)), "boundary")
    ctx.run_cases(OPS["roundtrip"], near)
    ctx.run_cases(OPS["save_doc"], _doc_cases(near[::2]))
    sizes = c01_cases.size_cases(ctx.rng, (17, 257, 1025) if not ctx.thorough() else (17, 33, 257, 1025, 2049))
    if not ctx.thorough():      # quick: the largest size for recordings, tags / features and annotations only
        sizes = [c for c in sizes if not (c["_tally"].startswith("1025") and "predictions" in c["_tally"])]
    sizes = _tally_cases(ctx, _wf_filter(ctx, sizes), "size")
    ctx.exhaustive["sizes"] = "17 / 257 / 1025 recordings, tags, features, notes, sound event annotations, predictions; parent chains of 17 / 257"
    ctx.run_cases(OPS["roundtrip"], sizes)
    ctx.run_cases(OPS["roundtrip"], [dict(c, fresh=True) for c in sizes[::3]])
    ctx.run_cases(OPS["save_doc"], _doc_cases(sizes[::4]))


def _stage_load(ctx, st):
    # the loader on documents, pristine and mutated
    src = st.get("cases", [])[::2] + st.get("dirs", [])[::3] + st.get("wide", [])[::3] + st.get("twin", [])[::3]
    ctx.run_cases(OPS["load_doc"], _load_cases(ctx, ctx.rng, src, 2))


def _stage_history(ctx, st):
    # histories: the same objects (same uuids) with revised content, and other collection types over the same
    # objects, saved / loaded later in the same process - nothing may be remembered from earlier calls
    hist = []
    for c in st.get("cases", [])[::4] + st.get("rich", [])[:8] + st.get("dirs", [])[::6]:
        rev = dict(c, collection=aoefgen.revise(c["collection"]), n=1)
        hist.append({"steps": [dict(c, n=1), rev, dict(rev, fresh=True), dict(c, n=1, fresh=True)]})
    ctx.run_cases(OPS["history"], hist)
    ctx.tally("history cases (4 steps each)", len(hist))
    multi = []
    for i in range(ctx.budget(10, 150)):
        h = c01_cases.multi_history(ctx.rng, gen_cls=[aoefgen.Gen, c01_cases.TwinGen][i % 2],
                                    base=ctx.rng.choice(["/data/audio", "audio", None]))
        oks = ctx.model_many("wf", [{"collection": s["collection"]} for s in h["steps"]])
        if all(oks):
            multi.append(h)
    ctx.run_cases(OPS["history"], multi)
    ctx.tally("multi-collection histories (12 steps each)", len(multi))


def _fs_prepare(ctx, hs):
    """fill the documents of `put` steps from the model's `save`, keep the histories whose collections are all
    inside the quantifier (WF, and constructible where an edit produced them)"""
    puts = [s for h in hs for s in h["steps"] if "doc_of" in s]
    docs = ctx.model_many("save", [{"collection": s["doc_of"], "audio_dir": None} for s in puts])
    for s, d in zip(puts, docs):
        s.pop("doc_of")
        if isinstance(d, dict) and "val" in d:
            s["doc"] = d["val"]
        else:
            s["text"] = "junk-long"
    keep = []
    for h in hs:
        saves = [s for s in h["steps"] if s["cmd"] == "save"]
        oks = ctx.model_many("wf", [{"collection": s["collection"]} for s in saves])
        if not all(oks):
            ctx.tally("generator:not-WF")
            continue
        if len(_buildable(ctx, [s for s in saves if s.get("edit")])) != len([s for s in saves if s.get("edit")]):
            continue
        kind = h.pop("_kind", "?")
        ctx.tally("fs-history:" + kind)
        for s in h["steps"]:
            ctx.tally("fs-step:" + s["cmd"] + (":fresh" if s.get("fresh") else "") + (":edited-loaded" if s.get("edit") else "")
                      + (":poison" if s.get("poison") else ""))
            if s["cmd"] == "save":
                ctx.tally("constructed via:" + str(s.get("via", "loaded" if s.get("source") == "loaded" else "build")))
                ctx.tally("call:" + s.get("call", "kw"))
        keep.append(h)
    return keep


def _stage_fs(ctx, st):
    """the file system is the state between calls: histories of saves and loads over shared paths"""
    hs = _fs_prepare(ctx, c01_fs.histories(ctx.rng, ctx.budget(48, 960)))
    ctx.tally("file-system histories", len(hs))
    ctx.run_cases(OPS["fs_history"], hs)


def _stage_gate(ctx, st):
    # the file-level gate of io.load: every combination of existence / suffix / format / version / type.
    # The documents the loader is shown are the *model's* (not written by the `io.save` under test).
    tys = sorted({c["doc_type"] for c in _gate_cases()})
    docs = ctx.model_many("save", [{"collection": aoefgen.gen_collection(random.Random("gate:" + ty), ty, size=0.5), "audio_dir": None}
                                   for ty in tys])
    for ty, d in zip(tys, docs):
        if isinstance(d, dict) and "val" in d:
            _GATE_DOCS[ty] = aoef.aoef_file(aoef.model_to_doc(d["val"]))
    ctx.run_cases(OPS["load_gate"], _gate_cases())
    ctx.exhaustive["load_gate"] = "exists x suffix x format{None,aoef,other} x version{3} x doc type{3} x requested type{4}"
    ctx.run_cases(OPS["save_gate"], _save_gate_cases())
    ctx.exhaustive["save_gate"] = "suffix{.json,other} x format{None,aoef,other,default,AOEF,''} x doc type{3}"


def _stage_big(ctx, st):
    big = _gen_cases(ctx, ctx.rng, ctx.budget(1, 8), size=2.5)
    ctx.run_cases(OPS["roundtrip"], big)
    ctx.run_cases(OPS["save_doc"], _doc_cases(big))


def _correspondence(ctx):
    ctx.run_corpus(OPS)
    st = {}
    for name, fn in (("all-fields", _stage_rich), ("optional-slots", _stage_slots), ("random", _stage_random),
                     ("directories", _stage_dirs), ("wide-atoms-twins", _stage_wide), ("call-variants", _stage_io), ("call-and-construction-products", _stage_products),
                     ("sibling-slots", _stage_siblings), ("boundaries-sizes", _stage_boundaries), ("loader", _stage_load),
                     ("histories", _stage_history), ("file-system-histories", _stage_fs), ("load-gate", _stage_gate),
                     ("large", _stage_big)):
        t0 = time.time()
        ctx.stage("correspondence:" + name, fn, ctx, st)
        ctx.tally("seconds in stage " + name, round(time.time() - t0, 1))


def _close():
    aoef_impl.FRESH.close()
    c01_impl.FRESH.close()


def run(ctx):
    try:
        ctx.stage("tables", _tables, ctx)
        ctx.stage("discharge", ctx.discharge, ["SoundeventModel.Aoef.Fields", "Proofs.C01"])
        ctx.stage("correspondence", _correspondence, ctx)
    finally:
        _close()


def search(ctx, failures):
    """a table obligation or the document correspondence broke: look for a collection on which the round trip
    itself fails (all-fields objects first, with every declared field the harness does not know set to a
    non-default value: an omitted field or list shows there)"""
    try:
        rich = _rich_cases(ctx)
        ctx.run_cases(OPS["roundtrip"], [dict(c, fill_unknown=True, n=1) for c in rich])
        ctx.run_cases(OPS["roundtrip"], [dict(c, fill_unknown=True, n=1, fresh=True) for c in rich[::2]])
        crng = random.Random("C01-search")
        for rich in (True, False):
            cases = _gen_cases(ctx, crng, 6 if rich else 30, rich=rich)
            for c in cases:
                c["n"] = 1
            ctx.run_cases(OPS["roundtrip"], cases)
            ctx.run_cases(OPS["roundtrip"], [dict(c, fresh=True) for c in cases[::2]])
    finally:
        _close()
