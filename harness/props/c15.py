"""C15 — Audio-derived arrays are sample-accurate and their axes tell the truth.

Real WAV files are written with soundfile into `<run dir>/c15_wav` (removed afterwards), loaded
through `soundevent.audio.load_clip / load_recording / resample / compute_spectrogram`, and
compared with the Lean model of the frame / axis arithmetic (`SoundeventModel/Audio.lean`).

Comparison modes
  * exact       frame count, frame content (PCM codes), axis lengths, nperseg / noverlap,
                time stamps when the samplerate is a power of two
  * round-once  first time stamp (`offset / samplerate`), every advertised `step`
  * tolerance   time stamps off the power-of-two rates, everything scipy computed

The rational model is applicable to an input only when the few float operations in front of an
`int()` / `floor` provably land in the same integer cell as the exact product (`_same_cell`);
on the remaining ("float-unsafe") inputs only the property monitor runs.
"""
import atexit
import inspect
import math
import os
import shutil
from fractions import Fraction

import traceback

from ..core import Op, canon_exc, InfraError, jkey
from .. import history
from ..rat import rat, frac, tol_eq, round_once_eq
from .. import leanio

PROPERTY = "C15"
LEAN_MODULE = "Proofs.C15"
_T = "SE.Proofs.C15."
THEOREMS = [_T + n for n in [
    "C15_offset_is_floor", "C15_clip_loads", "C15_clip_length", "C15_clip_frames", "C15_clip_times",
    "C15_clip_start_snapped", "C15_clip_end", "C15_recording_loads", "C15_recording_of_file",
    "C15_clip_agrees_with_recording", "C15_time_expansion",
    "C15_resample_length", "C15_resample_within_one_step", "C15_resample_span",
    "C15_stft_step_truthful", "C15_stft_freq_truthful", "C15_stft_hop_within_one_sample",
    "C15_stft_step_pinned_untruthful",
    "C15_monitor_meaning", "C15_axis_ok_clip", "C15_axis_ok_recording", "C15_axis_ok_resample",
    "C15_axis_ok_stft", "C15_axes_increasing",
    # review: the model factors through the symbolically traced plans; channels; resample outside `hdt`
    "C15_range_factors", "C15_clip_factors", "C15_recording_factors", "C15_resample_factors", "C15_stft_factors",
    "C15_clip_channels", "C15_resample_drift", "C15_resample_within_one_step_iff", "C15_resample_chain_untruthful",
    # fix C15-3 (nperseg clamped to the audio): the spectrogram theorems hold for every window length; the traced
    # (rational) form of the plan is the model's plan; the pre-repair (un-clamped) behaviour, clearly named
    "C15_stft_long_window", "C15_stft_plan_tuple",
    "C15_stft_unclamped_factors", "C15_stft_unclamped_long_window", "C15_stft_unclamped_long_window_untruthful",
    # follow-up (histories and construction paths): options of compute_spectrogram, positional calls, sessions
    "C15_stft_options_default", "C15_stft_options_truthful", "C15_stft_options_same_steps",
    "C15_positional_binding", "C15_signatures_wellformed",
    "C15_session_length", "C15_session_prefix", "C15_session_step", "C15_session_look",
    "C15_loaded_exact", "C15_resample_exact_iff", "C15_session_truthful",
    # follow-up (wave 5): the file system is state - the WAV file under a path is rewritten between loads
    "C15_fs_reads_never_write", "C15_fs_load_after_rewrite", "C15_fs_take", "C15_fs_history_free", "C15_fs_history",
    "C15_fs_history_recording"]]
LEVEL_TEXT = ("Lean theorems over the integer/rational model of load_clip, load_recording, resample and "
              "compute_spectrogram: a clip has exactly floor(duration x samplerate) frames, frame i is file frame "
              "floor(start x samplerate)+i (zero past the end) at time (offset+i)/samplerate and equals that frame and "
              "time stamp of the loaded recording; time expansion enters only through the recording's samplerate; "
              "create_range_dim yields the N-point lattice whenever the span rounds to N; all four producers' axes are "
              "strictly increasing, start at the source's start and lie within one advertised step of first + i x step "
              "(resample: drift k x frac/(num x target) < 1/target; repaired spectrogram: exactly first + k x step for "
              "every window length - a window longer than the audio is clamped to it, fix C15-3, and both advertised "
              "steps are those of the window actually used; realised hop within one sample of the requested one "
              "whenever the requested window fits); the pinned spectrogram step and the un-clamped (pre-repair) steps "
              "of a long window are proved untruthful on concrete witnesses; without the assumption that the input "
              "axis is truthful the resampled drift is characterised exactly (within one step iff "
              "k x |n x target x spacing - num| < num; a resampled resampled array is proved untruthful on a witness = "
              "known finding C15-2). The model "
              "is proved to be the composition of `plans` (offset / frame count / axis start, spacing, count / nperseg, "
              "noverlap, fs / advertised steps) with the library contracts; the plans are tied to the code for all "
              "rational inputs by symbolic traces of the real load_clip, load_recording, create_time_range, "
              "create_range_dim, resample and compute_spectrogram regenerated and proved on every run (Tie 1b), the "
              "composition by differential runs on real WAV files and by the theorem-backed monitor `axisOk` evaluated "
              "on the implementation's own coordinates. Follow-up (histories and construction paths): the options of "
              "compute_spectrogram are modelled (padded / boundary change only the number of segments and, without a "
              "boundary extension, the first centre; both axes are exactly first + k x step, the steps / window / overlap / "
              "frequency axis are those of the default call - C15_stft_options_default / _truthful / _same_steps); "
              "positional calls bind as the documented signature table says (C15_positional_binding, "
              "C15_signatures_wellformed; the table is tied to inspect.signature of the current source on every run); "
              "sessions - arrays derived from one another in one process - have a Lean semantics (runSession): every "
              "step is the base operation's model on the value its source had when it was produced, later steps never "
              "change earlier values (C15_session_step, _prefix, _look, _length), and in every session in which resample "
              "is applied only to arrays whose spacing is their advertised step (arrays from a file always are, "
              "C15_loaded_exact; resampled ones iff nothing was truncated, C15_resample_exact_iff) every array produced - "
              "loaded, resampled, sliced, looked at again, both axes of every spectrogram for every padded / boundary - "
              "is truthful (C15_session_truthful). Follow-up (wave 5, the file system is state): a one-cell-per-path "
              "file system of WAV files (frames, channels, header rate) with the calls put (the file is rewritten), rm, "
              "Recording.from_file, load_clip, load_recording (SoundeventModel/Audio/FileSys.lean): after any history, once "
              "the file under a path has been rewritten - longer, shorter, another samplerate or channel count, other "
              "samples of equal length - every read of that path answers for the new content, whatever was loaded before "
              "and whatever other paths were written since (C15_fs_load_after_rewrite; reads never write, "
              "C15_fs_reads_never_write); a take (rewrite, from_file, load_clip, load_recording) is history-free "
              "(C15_fs_take, C15_fs_history_free) and therefore every history of takes answers step by step as the pure "
              "model on the content of that step (C15_fs_history, an instance of History.historyFree_iff), the loaded "
              "recording being exactly the frames written at that step (C15_fs_history_recording); an implementation that "
              "keeps sound files open per path is proved not history-free on a concrete history.")
LEVEL_NOTE = ("Unmodelled: soundfile I/O, scipy's STFT / resample numerics, numpy `arange` in floats (their contracts - "
              "seek+read with zero fill, segment count and times of stft, `t0 + dt*n/num*k` of resample - are formulas of "
              "the model and are compared on every run); binary64 rounding in front of `int()`/`floor` (inputs whose "
              "float products may fall into another integer cell than the exact ones are only monitored). The symbolic "
              "ties hold in ordered-field semantics (no rounding) and replace soundfile, np.arange, scipy.signal and "
              "xarray constructors by recorders; the library part is tied by generator-bounded correspondence. "
              "Histories are generator-bounded too: the Lean session semantics says what every array of a session must "
              "be and that it never changes; that the code has no state between calls (caches, memos on Clip / array "
              "objects, options kept in module state, arguments written to, results sharing buffers) is observed on "
              "generated sessions / call sequences (every array handed out earlier is looked at again after every later "
              "call: values, coordinates, attrs of the array and of its coordinates) and, for the four functions' own "
              "statements, by the symbolic traces (which also check that the traced function wrote nothing into its "
              "argument). That every load opens the file as it is on disk now (no handle, header or content kept per "
              "path) is likewise observed, on generated histories in which the harness rewrites the file between loads "
              "(operation file_history, judged by the Lean file-system model). Slices / copies are xarray's (`isel`, `copy`), modelled as the corresponding part of the axis. "
              "Arrays whose time coordinate has no 'step' attribute (hand-built, assign_coords, arithmetic on the "
              "coordinate) are modelled as copies of their source (the code estimates the mean spacing; the model is "
              "compared where that float product lies in the exact product's integer cell); strided selections of them "
              "and `filter` calls have no Lean step: they and what is derived from them are monitored only (axisOk on "
              "resampled results, `filter`: output axis = input axis, no call writes into its argument). "
              "Numeric argument types (int, float, numpy float64 / float32 / int64 / int32) and construction paths "
              "(constructor, model_validate, JSON, model_copy, assignment) are exercised, not modelled: the model sees "
              "the value.")
TECHNIQUE = ("Lean 4 proof over model; symbolic traces of the audio functions' own arithmetic (floor / int / arange count "
             "symbolic) proved equal to the model's plans for all inputs on every run; signature table tied to "
             "inspect.signature (Tie 1); differential correspondence on real WAV files (exact / round-once / tolerance) "
             "for single calls, call sequences on shared objects and sessions of derived arrays judged by the Lean "
             "session model, and histories in which the WAV file under a path is rewritten between loads judged by the Lean "
             "file-system model; theorem-backed axis monitor on implementation output")
RULE = ("clips x files (1-3 channels, 15 file rates incl. odd and power-of-two ones, expansion 1/2/10) on and off sample "
        "boundaries, past the end of file, zero length; exhaustive small scope; recordings; spectrogram and resample "
        "pipelines with whole and fractional numbers of samples, windows shorter than, as long as and longer than the "
        "audio (exhaustive small scope around the clamp); recordings built directly whose expansion factor does not "
        "divide the samplerate (44100/8, 22050/20, 96000/7, 48000/7, 8000/3, 16384/3; header = floor(samplerate/factor)); "
        "tolerance-sized offsets (2^-10 .. 2^-40 of a sample) around floor(start x samplerate), floor(duration x "
        "samplerate), the two int() of compute_spectrogram, scipy's noverlap >= nperseg and the trailing-point rule of "
        "create_range_dim, at small and large offsets (20 000-frame files); sizes 15-17, 255-257, 1023-1025, 4095-4097; "
        "every lattice point of non-dyadic axes (clip starts on every 0.01 s / 0.001 s, every hop 0.0001 .. 0.01 s, every "
        "input length 2 .. 300 of 44100 -> 16000); options of compute_spectrogram (padded x boundary x window x detrend, "
        "pairwise) x window shorter / as long as / longer than the audio x whole / fractional hops; every public function "
        "called by keyword, positionally in the documented order and mixed; numbers as int / float / numpy float64 / "
        "float32 / int64 / int32; Clip / Recording from the constructor, model_validate, JSON, model_copy(update), "
        "assignment; audio_dir as str / Path; arrays with coordinates registered in another order, transposed and "
        "one-dimensional arrays (resample); histories: load_clip call sequences on shared / changed / copied Clip objects "
        "with results edited by the caller and re-read after later calls (harness/history.py), sessions of derived arrays "
        "(load -> spectrogram -> look again -> resample -> resample -> spectrogram, options followed by plain calls, a "
        "result edited then the same call again, slices, copies; skeletons + random derivation graphs), every array "
        "produced judged by the Lean session model and re-read after every later call; file histories: the WAV file "
        "under a path rewritten between loads (longer, much longer, shorter, other samplerate, other channel count, other "
        "samples of equal length, the same content, another expansion factor; in place / renamed over / unlinked first; "
        "2-4 contents per path, one or two paths), the Recording re-made by from_file / the constructor or the earlier "
        "object brought up to date by assignment / model_copy(update), before and after every rewrite the same clips, a "
        "clip of frames that exist only now, a clip around the old end, the whole file, load_recording; arrays loaded "
        "before a rewrite re-read after it; non-trivial = the implementation "
        "returned an array with at least one frame / coordinate (a session: at least one step did); distinct = distinct "
        "(operation, input)")
TRUSTED = ["soundfile / libsndfile: `seek` + `read(frames, always_2d, fill_value=0)`; PCM_16 codes read back as code/32768",
           "scipy.signal.stft (segment count, `arange(nperseg/2, ...)/fs - (nperseg/2)/fs`, rfftfreq) and "
           "scipy.signal.resample (`t[0] + (t[1]-t[0]) * n/num * arange(num)`): formulas restated in the model, compared each run",
           "xarray: a coordinate whose length differs from the data raises ValueError",
           "Recording.from_file: samplerate = int(file rate x expansion), duration = frames / file rate / expansion (monitored contract)",
           "fix C16-1 (guard for an empty range in create_range_dim) is assumed present: a zero-length clip loads as an empty array",
           "scipy.signal.stft raises ValueError for noverlap >= nperseg (also for the window shortened to the audio): both sides raise",
           "scipy.signal.stft with padded=False / boundary in (even, odd, constant, None): segment count "
           "(len [+ 2 (nperseg//2)] [+ padding] - noverlap) // (nperseg - noverlap), first centre nperseg/2 samples after "
           "the start when there is no boundary extension (formulas of the model, compared each run)",
           "xarray: `isel(time=slice(a, b))` keeps that part of the coordinate and its attrs; `copy(deep=True)` copies; "
           "DataArray / Variable constructors copy the attrs dict they are given",
           "the file system: soundfile.write(path) / os.replace / os.remove replace the content of exactly that path "
           "(the harness reads nothing back: it judges by the PCM codes it wrote)",
           "pydantic: Clip / Recording accept int, numpy scalars for float fields; model_validate / model_validate_json / "
           "model_copy give equal objects"]
ASSUMPTIONS = ["binary64 arithmetic is exact on the grids used (dyadic times with <= 24 fractional bits, integer rates < 2^22)",
               "float-safety classification `_same_cell`: model applied only where float and exact products share an integer cell",
               "truthfulness theorems of resample assume an input whose spacing is its advertised step (`hdt`); outside it "
               "the axis is monitored and the known finding C15-2 (specific matcher) absorbs exactly those inputs; the "
               "spectrogram theorems have no such hypothesis (fix C15-3 assumed present: `nperseg` clamped to the audio)",
               "a rewrite of a file advances its modification time by at least 1 ms (the harness sets it when the clock "
               "did not): a cache validated by (mtime, size) counts as correct, one validated by size or by whole seconds does not",
               "clips start inside the file or at its very end, start >= 0 (otherwise libsndfile cannot seek: error on both sides)"]
NOT_COMPARED = ["spectrogram / resampled sample values (scipy numerics; the property pins the axes)",
                "error messages; which exception a failed seek raises (any exception <-> model `seek`)",
                "frame count / offsets on float-unsafe inputs (only the monitor runs there)",
                "array attrs `window_size`, `hop_size` (they record the request, not an axis)",
                "which attrs an array carries besides the `step` of its coordinates (only that an array handed out "
                "earlier still has the attrs it was produced with)",
                "the first time coordinate of a spectrogram computed with boundary=None beyond: it lies inside the first "
                "window and the axis is first + k x step (the model's value nperseg/2 samples after the start is compared "
                "where the rational model applies)",
                "the monitor's verdict on a resampled array whose *source's* spacing is not its advertised step, inside "
                "sessions (known finding C15-2, judged by the operation resample_chain; the coordinates are still "
                "compared with the model)",
                "the trailing-point rule of create_range_dim for stored durations that contradict the file (model "
                "`shape` error vs array: left to the monitor)"]

WAV_DIR = None


def _wav_dir():
    global WAV_DIR
    if WAV_DIR is None:
        WAV_DIR = os.path.join(leanio.run_dir(), "c15_wav")
        os.makedirs(WAV_DIR, exist_ok=True)
        atexit.register(_cleanup)
    return WAV_DIR


def _cleanup():
    global WAV_DIR
    if WAV_DIR is not None:
        shutil.rmtree(WAV_DIR, ignore_errors=True)
        try:
            os.rmdir(os.path.dirname(WAV_DIR))      # the run directory, if nothing else is left in it
        except OSError:
            pass
        WAV_DIR = None
    _FILES.clear()
    _RECS.clear()
    _RECDATA.clear()


# ---------------------------------------------------------------------- files
_FILES = {}     # key -> (path, codes ndarray)
_RECS = {}      # (key, te) -> Recording
_RECDATA = {}   # (key, te) -> (frames int ndarray | None, times list[Fraction])


def _file_key(fd, fsr):
    if "frames" in fd:
        return ("x", fsr, fd["ch"], tuple(tuple(r) for r in fd["frames"]))
    return ("r", fsr, fd["n"], fd["ch"], fd["a"], fd["b"], fd["m"])


def _codes(fd):
    import numpy as np
    ch = fd["ch"]
    if "frames" in fd:
        return np.array(fd["frames"], dtype=np.int64).reshape(len(fd["frames"]), ch)
    n, a, b, m = fd["n"], fd["a"], fd["b"], fd["m"]
    idx = np.arange(n * ch, dtype=np.int64).reshape(n, ch)
    return (idx * a + b) % m - m // 2


def _write_file(fd, fsr):
    import numpy as np
    import soundfile as sf
    key = _file_key(fd, fsr)
    if key not in _FILES:
        codes = _codes(fd)
        assert codes.min(initial=0) >= -32768 and codes.max(initial=0) <= 32767
        path = os.path.join(_wav_dir(), "f%03d.wav" % len(_FILES))
        sf.write(path, codes.astype(np.int16), fsr, subtype="PCM_16")
        _FILES[key] = (path, codes)
    return key, _FILES[key][0]


def _header_rate(inp):
    """rate written into the WAV header"""
    return inp["fsr"]


def _num(x, how="float"):
    """the number `x` (a Fraction) as the caller hands it over: Python float (default), int when it is whole,
    numpy float64 / float32 (float32 only when exact), numpy int64 when whole"""
    import numpy as np
    x = Fraction(x)
    f = float(x)
    if how == "int" and x.denominator == 1:
        return int(x)
    if how == "np64":
        return np.float64(f)
    if how == "np32" and Fraction(float(np.float32(f))) == x:
        return np.float32(f)
    if how == "npint" and x.denominator == 1:
        return np.int64(int(x))
    return f


def _via(obj, how):
    """the same pydantic object reached through another construction path"""
    if how == "validate":
        return type(obj).model_validate(obj.model_dump())
    if how == "json":
        return type(obj).model_validate_json(obj.model_dump_json())
    if how == "copy":
        return obj.model_copy(deep=True)
    return obj


def _recording(inp):
    """the Recording of a case.  Default: `Recording.from_file` (samplerate = int(header rate x expansion)).
    With `"rsr"`: built directly with the recording's own samplerate `rsr`, the file header carrying
    `fsr = floor(rsr / te)` as recorders of time-expanded audio write it - the expansion factor need not divide
    the samplerate (44100 / 8 -> header 5512), so `int(header x te) != samplerate`."""
    from soundevent import data
    fsr = inp["fsr"]
    te = frac(inp.get("te", "1"))
    key, path = _write_file(inp["file"], fsr)
    k = (key, te, inp.get("rsr"))
    if k not in _RECS:
        tef = int(te) if te.denominator == 1 else float(te)
        if "rsr" in inp:
            n = _nframes(inp["file"])
            _RECS[k] = data.Recording(path=path, samplerate=inp["rsr"], duration=n / inp["rsr"],
                                      channels=inp["file"]["ch"], time_expansion=tef)
        else:
            _RECS[k] = data.Recording.from_file(path, time_expansion=tef, compute_hash=False)
    return k, _RECS[k]


def _nframes(fd):
    return len(fd["frames"]) if "frames" in fd else fd["n"]


def _clip_of(rec, inp):
    """the Clip of a case: numbers as `inp["num"]` says, object reached through `inp["via"]`"""
    from soundevent import data
    num, via = inp.get("num", "float"), inp.get("via", "ctor")
    s, e = _num(frac(inp["s"]), num), _num(frac(inp["e"]), num)
    if via == "copy_update":
        # a clip that had other bounds before: nothing remembered from them may survive
        clip = data.Clip(recording=rec, start_time=0.0, end_time=max(float(e), 1.0))
        return clip.model_copy(update={"start_time": float(s), "end_time": float(e)})
    if via == "assign":
        clip = data.Clip(recording=rec, start_time=0.0, end_time=max(float(e), 1.0))
        clip.start_time, clip.end_time = float(s), float(e)
        return clip
    return _via(data.Clip(recording=rec, start_time=s, end_time=e), via)


def _relocated(rec, inp):
    """`"ad": true`: the recording carries a relative path, the directory is passed as `audio_dir`
    (a `str`, or a `pathlib.Path` with `"ad": "path"`)"""
    if not inp.get("ad"):
        return rec, {}
    from pathlib import Path
    full = str(rec.path)
    d = os.path.dirname(full)
    return rec.model_copy(update={"path": Path(os.path.basename(full))}), {"audio_dir": Path(d) if inp["ad"] == "path" else d}


def _sr(inp):
    """the recording's own samplerate: `int(file rate x expansion)` (`Recording.from_file`) or the one the
    recording was built with (`"rsr"`)"""
    if "rsr" in inp:
        return inp["rsr"]
    return int(Fraction(inp["fsr"]) * frac(inp.get("te", "1")))


def _codes_out(arr):
    """float samples -> PCM codes (ints) when exact, else the exact rational of sample*32768"""
    import numpy as np
    x = np.asarray(arr, dtype=float) * 32768.0
    if x.ndim == 2 and np.all(np.isfinite(x)) and np.array_equal(np.rint(x), x):
        return x.astype(np.int64).tolist()
    out = []
    for row in arr:
        r = []
        for v in row:
            y = float(v) * 32768.0
            r.append(int(y) if y.is_integer() else rat(y))
        out.append(r)
    return out


def _rats(xs):
    return [rat(float(x)) for x in xs]


# ---------------------------------------------------------------------- float-safety classification
def _same_cell(exact, approx):
    """no integer or half-integer separates the exact product from the float the code computed:
    floor / int / round of both agree whatever the code uses"""
    a = Fraction(approx)
    if a == exact:
        return True
    lo, hi = (a, exact) if a < exact else (exact, a)
    return math.floor(2 * lo) == math.floor(2 * hi) and (2 * lo).denominator != 1 and (2 * hi).denominator != 1


def _clip_safe(inp):
    sr = _sr(inp)
    s, e = float(frac(inp["s"])), float(frac(inp["e"]))
    return (_same_cell(frac(inp["s"]) * sr, s * sr)
            and _same_cell((frac(inp["e"]) - frac(inp["s"])) * sr, (e - s) * sr))


def _sr_roundtrips(sr):
    return 1.0 / (1.0 / sr) == float(sr)


def _stft_safe(sr, w, h, num=None):
    """w, h: Fractions (exact values of the floats passed).  `num == "np32"`: the caller passes numpy float32
    scalars, whose products with the samplerate may be rounded to 24 bits - exact at power-of-two rates only"""
    if not _sr_roundtrips(sr):
        return False
    if num == "np32" and not _pow2(sr):
        return False
    wf, hf = float(w), float(h)
    return _same_cell(w * sr, wf * float(sr)) and _same_cell((w - h) * sr, (wf - hf) * float(sr))


def _resample_safe(sr, n, target):
    step = 1.0 / sr
    return _same_cell(Fraction(n * target, sr), n * (target * step))


# ---------------------------------------------------------------------- how the functions are called
_REQ = object()
# Python mirror of the documented signatures `SE.Audio.signatures` (stage `signatures` checks that it *is* that
# table, and a Tie-1 obligation that the current source's `inspect.signature` is): parameter order for
# positional calls, and the documented defaults to fill skipped optional parameters with
DOC_SIGNATURES = {
    "load_recording": [("recording", _REQ), ("audio_dir", None)],
    "load_clip": [("clip", _REQ), ("audio_dir", None)],
    "resample": [("array", _REQ), ("target_samplerate", _REQ), ("window", None), ("dim", "time")],
    "compute_spectrogram": [("audio", _REQ), ("window_size", _REQ), ("hop_size", _REQ), ("window_type", "hann"),
                            ("detrend", False), ("padded", True), ("boundary", "zeros")],
}


def _call(name, fn, style, given):
    """call `fn` with the arguments `given` (documented name -> value): `"mixed"` = required arguments
    positionally, options by keyword (how the library's own tests call it); `"kw"` = everything by keyword;
    `"pos"` = everything positionally in the *documented* order, skipped options filled with the documented default"""
    sig = DOC_SIGNATURES[name]
    if style == "kw":
        return fn(**given)
    if style == "pos":
        last = max(i for i, (n, _d) in enumerate(sig) if n in given)
        return fn(*[given[n] if n in given else d for n, d in sig[:last + 1]])
    req = [given[n] for n, d in sig if d is _REQ]
    return fn(*req, **{n: v for n, v in given.items() if dict(sig)[n] is not _REQ})


def _fn(name):
    if name == "resample":
        from soundevent.audio import operations
        return operations.resample
    from soundevent import audio
    return getattr(audio, name)


def _spec_given(audio, inp):
    num = inp.get("num", "float")
    given = {"audio": audio, "window_size": _num(frac(inp["w"]), num), "hop_size": _num(frac(inp["h"]), num)}
    given.update(inp.get("opts") or {})
    return given


def _resample_given(array, inp, target):
    tnum = inp.get("tnum", "int")
    t = {"int": int(target), "float": float(target), "np64": None, "npint": None, "npint32": None}.get(tnum, int(target))
    if t is None:
        import numpy as np
        t = {"np64": np.float64(target), "npint": np.int64(target), "npint32": np.int32(target)}[tnum]
    given = {"array": array, "target_samplerate": t}
    if "window" in inp:
        w = inp["window"]
        given["window"] = tuple(w) if isinstance(w, list) else w
    if inp.get("dim"):
        given["dim"] = "time"
    return given


# ---------------------------------------------------------------------- implementations
def _load_clip_call(rec, inp):
    rec, kw = _relocated(rec, inp)
    clip = _clip_of(rec, inp)
    return _call("load_clip", _fn("load_clip"), inp.get("call", "mixed"), {"clip": clip, **kw}), rec, clip


def _clip_out(arr, rec):
    if arr.dims != ("time", "channel") or list(arr.channel.data) != list(range(arr.shape[1])):
        return {"raise": "crash:dims", "trace": f"dims {arr.dims}, channel coordinate {list(arr.channel.data)}"}
    return {"val": {"frames": _codes_out(arr.data), "times": _rats(arr.time.data),
                    "step": rat(float(arr.time.attrs["step"]))},
            "aux": {"rec_sr": rec.samplerate, "channels": int(arr.shape[1])}}


def _impl_load_clip(inp):
    import soundfile as sf
    _k, rec = _recording(inp)
    try:
        arr, rec, _clip = _load_clip_call(rec, inp)
    except sf.LibsndfileError:
        return {"raise": "seek"}
    return _clip_out(arr, rec)


def _impl_load_recording(inp):
    """Recording built directly: arbitrary (also inconsistent) stored duration"""
    from soundevent import data
    from soundevent.audio import load_recording
    _key, path = _write_file(inp["file"], inp["fsr"])
    rec = data.Recording(path=path, duration=float(frac(inp["duration"])), channels=inp["file"]["ch"],
                         samplerate=inp["sr"], time_expansion=float(Fraction(inp["sr"], inp["fsr"])))
    arr = load_recording(rec)
    return {"val": {"frames": _codes_out(arr.data), "times": _rats(arr.time.data),
                    "step": rat(float(arr.time.attrs["step"]))}}


def _impl_recording_of(inp):
    """Recording.from_file + load_recording on it"""
    from soundevent.audio import load_recording
    k, rec = _recording(inp)
    rec2, kw = _relocated(rec, inp)
    arr = _call("load_recording", load_recording, inp.get("call", "mixed"), {"recording": _via(rec2, inp.get("via", "ctor")), **kw})
    if arr.dims != ("time", "channel") or list(arr.channel.data) != list(range(arr.shape[1])):
        return {"raise": "crash:dims", "trace": f"dims {arr.dims}, channel coordinate {list(arr.channel.data)}"}
    return {"val": {"frames": _codes_out(arr.data), "times": _rats(arr.time.data),
                    "step": rat(float(arr.time.attrs["step"]))},
            "aux": {"sr": rec.samplerate, "duration": rat(rec.duration)}}


def _spec_out(spec, audio):
    return {"val": {"len": int(audio.sizes["time"]),
                    "time": {"coords": _rats(spec.time.data), "step": rat(float(spec.time.attrs["step"]))},
                    "freq": {"coords": _rats(spec.frequency.data), "step": rat(float(spec.frequency.attrs["step"]))}},
            "aux": {"t0": rat(float(audio.time.data[0])) if audio.sizes["time"] else None,
                    "shape": list(spec.shape), "dims": list(spec.dims)}}


def _impl_clip_spectrogram(inp):
    import soundfile as sf
    _k, rec = _recording(inp)
    try:
        audio, _rec, _clip = _load_clip_call(rec, inp)
    except sf.LibsndfileError:
        return {"raise": "seek"}
    spec = _call("compute_spectrogram", _fn("compute_spectrogram"), inp.get("call", "mixed"), _spec_given(audio, inp))
    return _spec_out(spec, audio)


def _time_variable(times, sr=None):
    """the time coordinate of a hand-built audio array (as the library's own tests build them): the harness's own
    `xr.Variable`, attrs `units` / `standard_name` / `long_name` and - unless `sr` is None - `step = 1/sr`.
    (Not built with the library's `create_time_dim_from_array`: inputs never come from the code under test.)"""
    import xarray as xr
    attrs = {"units": "s", "standard_name": "time", "long_name": "Time since start of recording"}
    if sr is not None:
        attrs["step"] = 1 / sr
    return xr.Variable(dims="time", data=times, attrs=attrs)


def _synthetic_audio(n, t0, sr, ch, nostep=False, layout=None):
    """`nostep`: the time coordinate carries no `step` attribute (the code estimates it from the
    coordinates; generated only where that mean is exact: power-of-two rates, dyadic start).
    `layout`: `"coords-reordered"` (coordinates registered in another order than the dims), `"transposed"`
    (channel, time), `"mono"` (time only) - the last two for `resample` only"""
    import numpy as np
    import xarray as xr
    times = np.array([float(t0 + Fraction(i, sr)) for i in range(n)], dtype=np.float64)
    data = ((np.arange(n * ch).reshape(n, ch) * 37) % 101 - 50) / 64.0
    tdim = _time_variable(times, None if nostep else sr)
    if layout == "mono":
        return xr.DataArray(data[:, 0], dims=("time",), coords={"time": tdim})
    if layout == "transposed":
        return xr.DataArray(data.T.copy(), dims=("channel", "time"), coords={"channel": range(ch), "time": tdim})
    if layout == "coords-reordered":
        return xr.DataArray(data, dims=("time", "channel"), coords={"channel": range(ch), "time": tdim})
    return xr.DataArray(data, dims=("time", "channel"), coords={"time": tdim, "channel": range(ch)})


def _impl_spectrogram(inp):
    """compute_spectrogram on a synthetic array: `len` samples from `t0` at `sr` Hz"""
    audio = _synthetic_audio(inp["len"], frac(inp["t0"]), inp["sr"], inp.get("ch", 1), inp.get("nostep", False),
                             inp.get("layout"))
    spec = _call("compute_spectrogram", _fn("compute_spectrogram"), inp.get("call", "mixed"), _spec_given(audio, inp))
    return _spec_out(spec, audio)


def _resampled_out(out, audio, n):
    tax = out.get_axis_num("time")
    return {"val": {"coords": _rats(out.time.data), "step": rat(float(out.time.attrs["step"]))},
            "aux": {"t0": rat(float(audio.time.data[0])) if audio.sizes["time"] else None,
                    "n": n, "shape": [out.shape[tax]], "dims": list(out.dims), "in_dims": list(audio.dims)}}


def _impl_clip_resample(inp):
    import soundfile as sf
    _k, rec = _recording(inp)
    try:
        audio, _rec, _clip = _load_clip_call(rec, inp)
    except sf.LibsndfileError:
        return {"raise": "seek"}
    out = _call("resample", _fn("resample"), inp.get("call", "mixed"), _resample_given(audio, inp, inp["target"]))
    return _resampled_out(out, audio, int(audio.sizes["time"]))


def _impl_resample(inp):
    audio = _synthetic_audio(inp["n"], frac(inp["t0"]), inp["sr"], inp.get("ch", 1), inp.get("nostep", False),
                             inp.get("layout"))
    out = _call("resample", _fn("resample"), inp.get("call", "mixed"), _resample_given(audio, inp, inp["target"]))
    return _resampled_out(out, audio, inp["n"])


def _impl_resample_chain(inp):
    """resample(resample(array, target1), target2) on a synthetic array"""
    from soundevent.audio.operations import resample
    audio = _synthetic_audio(inp["n"], frac(inp["t0"]), inp["sr"], inp.get("ch", 1))
    first = resample(audio, inp["target1"])
    second = resample(first, inp["target2"])
    ax = lambda a: {"coords": _rats(a.time.data), "step": rat(float(a.time.attrs["step"]))}  # noqa: E731
    return {"val": {"first": ax(first), "second": ax(second)},
            "aux": {"t0": rat(float(audio.time.data[0])), "n": inp["n"], "shape1": list(first.shape),
                    "shape2": list(second.shape)}}


# ---------------------------------------------------------------------- model arguments
def _tm_clip(inp):
    return {"file": inp["file"], "sr": _sr(inp), "s": inp["s"], "e": inp["e"]}


def _tm_clip_spec(inp):
    return {**_tm_clip(inp), "w": inp["w"], "h": inp["h"]}


def _tm_clip_resample(inp):
    return {**_tm_clip(inp), "target": inp["target"]}


def _tm_spec(inp):
    return {"len": inp["len"], "t0": inp["t0"], "step": rat(Fraction(1, inp["sr"])), "w": inp["w"], "h": inp["h"]}


def _tm_resample(inp):
    t0 = frac(inp["t0"])
    return {"n": inp["n"], "t0": inp["t0"], "t1": rat(t0 + Fraction(1, inp["sr"])),
            "step": rat(Fraction(1, inp["sr"])), "target": inp["target"]}


def _tm_resample_chain(inp):
    m = _tm_resample({**inp, "target": inp["target1"]})
    del m["target"]
    return {**m, "target1": inp["target1"], "target2": inp["target2"]}


def _tm_recording(inp):
    return {"file": inp["file"], "sr": inp["sr"], "duration": inp["duration"]}


def _tm_recording_of(inp):
    # duration as Recording.from_file computes it: (frames / file rate) / expansion, in binary64
    # (a directly built recording, `"rsr"`: frames / samplerate, as `_recording` stores it)
    n = _nframes(inp["file"])
    if "rsr" in inp:
        return {"file": inp["file"], "sr": inp["rsr"], "duration": rat(n / inp["rsr"])}
    te = frac(inp.get("te", "1"))
    d = (n / inp["fsr"]) / (int(te) if te.denominator == 1 else float(te))
    return {"file": inp["file"], "sr": _sr(inp), "duration": rat(d)}


def _tm_spec_opt(inp):
    o = inp.get("opts") or {}
    return {**_tm_spec(inp), "padded": bool(o.get("padded", True)), "ext": o.get("boundary", "zeros") is not None}


# ---------------------------------------------------------------------- comparison
def _m(cls, detail=""):
    """failure message: a fixed class of >= 60 characters first (the framework keeps one replay per
    (operation, first 60 characters)), the numbers after it"""
    return f"{cls:<60} | {detail}"


def _is_raise(x):
    return isinstance(x, dict) and "raise" in x


def _cmp_raise(io, mo):
    """both raise (libsndfile's seek failure matches the model's `seek`, otherwise the class)"""
    if _is_raise(mo) and _is_raise(io):
        if mo["raise"] == "seek":
            return None
        if io["raise"] == mo["raise"] or mo["raise"].startswith("crash:"):
            return None
        return _m("implementation and model raise different exception classes", f"implementation {io['raise']}, model {mo['raise']}")
    if _is_raise(mo):
        return _m("implementation returned an array where the model raises", f"model raises {mo['raise']}")
    return _m("implementation raises where the model returns an array", f"implementation raises {io['raise']}")


def _nd(x):
    """ "n/d" | "n" | int -> (n, d) without building a Fraction (the coordinates of thousands of arrays are compared)"""
    if isinstance(x, int):
        return x, 1
    i = x.find("/")
    return (int(x), 1) if i < 0 else (int(x[:i]), int(x[i + 1:]))


def _fl(x):
    """the binary64 nearest to the rational "n/d" (Python's int / int is correctly rounded)"""
    n, d = _nd(x)
    return n / d


def _cmp_coords(name, impl, model, exact=False):
    if len(impl) != len(model):
        return _m(f"{name} axis: number of coordinates differs from the model", f"{len(impl)} coordinates, model {len(model)}")
    for i, (a, b) in enumerate(zip(impl, model)):
        if a == b:
            continue
        if exact:
            (an, ad), (bn, bd) = _nd(a), _nd(b)
            if an * bd != bn * ad:
                return _m(f"{name} axis: coordinate differs from the model (exact mode)", f"{name}[{i}] = {_fl(a)!r}, model {b}")
        else:
            fa, fb = _fl(a), _fl(b)
            if not abs(fa - fb) <= 2.0 ** -40 * max(1.0, abs(fb)):       # rat.tol_eq
                return _m(f"{name} axis: coordinate differs from the model (tolerance)", f"{name}[{i}] = {fa!r}, model {fb!r}")
    return None


def _near(q, x, ulps=4):
    """x is the exact rational q up to a few units in the last place (one or two roundings in
    whatever order the code performs them; the property does not pin the last bit)"""
    fq = float(q)
    return abs(float(x) - fq) <= ulps * math.ulp(fq)


def _cmp_step(name, impl, model):
    if not _near(frac(model), float(frac(impl))):
        return _m(f"{name} axis: advertised step attribute differs from the model", f"{float(frac(impl))!r}, model {model} = {float(frac(model))!r}")
    return None


def _pow2(n):
    return n > 0 and n & (n - 1) == 0


def _cmp_time_array(sr, io, mo, first_round_once=True):
    a, m = io["val"], mo["val"]
    if len(a["frames"]) != len(m["frames"]):
        return _m("number of frames differs from the model", f"{len(a['frames'])} frames, model {len(m['frames'])}")
    if a["frames"] != m["frames"]:
        bad = next(i for i, (x, y) in enumerate(zip(a["frames"], m["frames"])) if x != y)
        return _m("frame content differs from the model", f"frame {bad} = {a['frames'][bad]}, model {m['frames'][bad]}")
    msg = _cmp_coords("time", a["times"], m["times"], exact=_pow2(sr))
    if msg:
        return msg
    if first_round_once and m["times"] and not _near(frac(m["times"][0]), float(frac(a["times"][0]))):
        return _m("first time stamp is not offset/samplerate (to the last bits)", f"{float(frac(a['times'][0]))!r} vs {m['times'][0]}")
    return _cmp_step("time", a["step"], m["step"])


def _compare_load_clip(inp, io, mo):
    if _is_raise(mo) and mo["raise"] == "seek" and not _is_raise(io) and frac(inp["s"]) >= 0:
        # a clip starting beyond the end of the file: libsndfile cannot seek there (model `seek`); code that
        # returns the zero-filled clip instead satisfies the property - the monitor alone judged it
        return None
    if _is_raise(io) or _is_raise(mo):
        if not _clip_safe(inp) and _is_raise(io) != _is_raise(mo):
            return None
        return _cmp_raise(io, mo)
    if not _clip_safe(inp):
        return None
    return _cmp_time_array(_sr(inp), io, mo)


def _frac_half_safe(x):
    """x = duration*samplerate is not within 1e-6 of a half-integer (where the trailing-point rule flips)"""
    f = (x - Fraction(1, 2)) % 1
    return min(f, 1 - f) > Fraction(1, 10 ** 6)


def _compare_recording(inp, io, mo):
    sr = inp["sr"] if "sr" in inp else _sr(inp)
    d = frac(inp["duration"]) if "duration" in inp else frac(_tm_recording_of(inp)["duration"])
    if not (_pow2(sr) or _frac_half_safe(d * sr)):
        return None
    if _is_raise(mo) and not _is_raise(io):
        # a stored duration that contradicts the file: xarray refuses the axis (model `shape`); code that sizes
        # the axis from the data instead satisfies the property - the monitor alone judged it
        return None
    if _is_raise(io) or _is_raise(mo):
        return _cmp_raise(io, mo)
    return _cmp_time_array(sr, io, mo, first_round_once=False)


def _cmp_spec(io, mo):
    a, m = io["val"], mo["val"]
    if a["len"] != m["len"]:
        return _m("number of audio samples differs from the model", f"{a['len']} samples, model {m['len']}")
    for ax in ("time", "freq"):     # every window length alike (fix C15-3: the model's steps are those of the clamped window)
        msg = _cmp_coords(ax, a[ax]["coords"], m[ax]["coords"]) or _cmp_step(ax, a[ax]["step"], m[ax]["step"])
        if msg:
            return msg
    sh = io["aux"]["shape"]
    if sh[0] != len(m["freq"]["coords"]) or sh[1] != len(m["time"]["coords"]):
        return _m("spectrogram data shape does not match the model's axes", f"shape {sh}")
    return None


def _compare_clip_spec(inp, io, mo):
    safe = _clip_safe(inp) and _stft_safe(_sr(inp), frac(inp["w"]), frac(inp["h"]), inp.get("num"))
    if _is_raise(io) or _is_raise(mo):
        if not safe and _is_raise(io) != _is_raise(mo):
            return None
        return _cmp_raise(io, mo)
    return _cmp_spec(io, mo) if safe else None


def _compare_spec(inp, io, mo):
    safe = _stft_safe(inp["sr"], frac(inp["w"]), frac(inp["h"]), inp.get("num"))
    if _is_raise(io) or _is_raise(mo):
        if not safe and _is_raise(io) != _is_raise(mo):
            return None
        return _cmp_raise(io, mo)
    return _cmp_spec(io, mo) if safe else None


def _cmp_axis(io, mo):
    a, m = io["val"], mo["val"]
    msg = _cmp_coords("time", a["coords"], m["coords"]) or _cmp_step("time", a["step"], m["step"])
    if msg:
        return msg
    if io["aux"]["shape"][0] != len(m["coords"]):
        return _m("resampled data shape does not match the model's time axis", f"shape {io['aux']['shape']}")
    return None


def _compare_clip_resample(inp, io, mo):
    safe = _clip_safe(inp)
    n = io["aux"]["n"] if not _is_raise(io) else None
    if safe and n is None:
        # the implementation raised: the clip's frame count is floor(duration x samplerate) (float-safe clip), so
        # the float-safety of `int(n * (target * step))` can still be judged (e.g. 5 * (500000 * (1/2500000)) < 1)
        n = max(0, math.floor((frac(inp["e"]) - frac(inp["s"])) * _sr(inp)))
    if safe and n is not None:
        safe = _resample_safe(_sr(inp), n, inp["target"])
    if _is_raise(io) or _is_raise(mo):
        if _is_raise(io) and _is_raise(mo):
            return None     # which of several possible exceptions comes first is not compared
        return _cmp_raise(io, mo) if safe else None
    return _cmp_axis(io, mo) if safe else None


def _compare_resample(inp, io, mo):
    safe = _resample_safe(inp["sr"], inp["n"], inp["target"])
    if _is_raise(io) or _is_raise(mo):
        if _is_raise(io) and _is_raise(mo):
            return None
        return _cmp_raise(io, mo) if safe else None
    return _cmp_axis(io, mo) if safe else None


def _chain_safe(inp, n1):
    """both `int(size * (target * step))` land in the exact product's cell"""
    sr, t1, t2 = inp["sr"], inp["target1"], inp["target2"]
    if not _resample_safe(sr, inp["n"], t1):
        return False
    return n1 is None or _same_cell(Fraction(n1 * t2, t1), n1 * (t2 * (1.0 / t1)))


def _compare_resample_chain(inp, io, mo):
    n1 = len(io["val"]["first"]["coords"]) if not _is_raise(io) else None
    safe = _chain_safe(inp, n1)
    if _is_raise(io) or _is_raise(mo):
        if _is_raise(io) and _is_raise(mo):
            return None
        return _cmp_raise(io, mo) if safe else None
    if not safe:
        return None
    for k, sh in (("first", "shape1"), ("second", "shape2")):
        a, m = io["val"][k], mo["val"][k]
        msg = _cmp_coords(k + " resampled time", a["coords"], m["coords"]) or _cmp_step(k + " resampled time", a["step"], m["step"])
        if msg:
            return msg
        if io["aux"][sh][0] != len(m["coords"]):
            return _m("resampled data shape does not match the model's time axis", f"{k}: shape {io['aux'][sh]}")
    return None


# ---------------------------------------------------------------------- property monitor
def _axis_ok(ctx, first, axis, what):
    if not axis["coords"]:
        return None
    ok = ctx.model("holds_axis", {"first": first, "step": axis["step"], "coords": axis["coords"]})
    if ok is not True:
        cs = [float(frac(c)) for c in axis["coords"]]
        st = float(frac(axis["step"]))
        f0 = float(frac(first))
        worst = max(range(len(cs)), key=lambda i: abs(cs[i] - (f0 + i * st)))
        return _m(f"{what} axis does not tell the truth (monitor axisOk)",
                  f"advertised step {st!r}, first {cs[0]!r} (source start {f0!r}), "
                  f"coordinate {worst} = {cs[worst]!r} is {abs(cs[worst] - (f0 + worst * st)) / st if st else float('inf'):.3f} "
                  f"steps from first + i*step" + ("" if all(x < y for x, y in zip(cs, cs[1:])) else "; not strictly increasing"))
    return None


def _recording_data(inp):
    """load_recording of the same file (implementation), cached"""
    from soundevent.audio import load_recording
    import numpy as np
    k, rec = _recording(inp)
    if k not in _RECDATA:
        arr = load_recording(rec)
        _RECDATA[k] = (np.asarray(arr.data), np.asarray(arr.time.data))
    return _RECDATA[k]


def _holds_load_clip(ctx, inp, io):
    if _is_raise(io):
        return None
    import numpy as np
    v = io["val"]
    sr = _sr(inp)
    n = len(v["frames"])
    if len(v["times"]) != n:
        return _m("number of frames and of time stamps differ", f"{n} frames, {len(v['times'])} time stamps")
    s, e = frac(inp["s"]), frac(inp["e"])
    safe = _clip_safe(inp)
    if io["aux"]["rec_sr"] != sr and "rsr" not in inp:
        ctx.contract("from_file.samplerate", False, inp, io["aux"]["rec_sr"])
    if safe and n != math.floor((e - s) * sr):
        return _m("frame count is not floor(duration x samplerate)", f"{n} frames, floor = {math.floor((e - s) * sr)}")
    if n == 0:
        return None
    # the axis tells the truth, and starts at the sample boundary floor(start x samplerate)/samplerate
    t0 = frac(v["times"][0])
    off = round(t0 * sr)
    if safe and off != math.floor(s * sr):
        return _m("time axis does not start at sample floor(start x samplerate)", f"starts at sample {off}, floor = {math.floor(s * sr)}")
    if not _near(Fraction(off, sr), float(t0)):
        return _m("first time stamp is not on a sample boundary", f"{float(t0)!r}")
    msg = _axis_ok(ctx, v["times"][0], {"coords": v["times"], "step": v["step"]}, "clip time")
    if msg:
        return msg
    if not _near(Fraction(1, sr), float(frac(v["step"]))):
        return _m("advertised step of the clip is not 1/samplerate", f"{float(frac(v['step']))!r}, samplerate {sr}")
    # frame i and its time stamp are those of index off + i of the loaded recording, zero past its end - and the
    # frames are those the harness wrote into the file (independent of both loaders)
    rdata, rtimes = _recording_data(inp)
    codes = np.array([[_fl(x) if isinstance(x, str) else x for x in row] for row in v["frames"]], dtype=float)
    N = rdata.shape[0]
    fcodes = _FILES[_file_key(inp["file"], inp["fsr"])][1]
    if codes.ndim != 2 or codes.shape[1] != fcodes.shape[1]:
        return _m("the clip does not have the channels of the file",
                  f"array of shape {list(codes.shape)}, the file has {fcodes.shape[1]} channels")
    if rdata.ndim != 2 or rdata.shape[1] != fcodes.shape[1]:
        return _m("load_recording does not return the channels of the file",
                  f"array of shape {list(rdata.shape)}, the file has {fcodes.shape[1]} channels")
    for what, src, scale in (("load_recording", rdata, 32768.0), ("the file as written", fcodes, 1.0)):
        M = src.shape[0]
        want = np.zeros_like(codes)
        k = max(0, min(n, M - off))
        if off >= 0 and k > 0:
            want[:k] = src[off:off + k] * scale
        if want.shape != codes.shape or not np.array_equal(codes, want):
            bad = next((i for i in range(n) if want.shape != codes.shape or not np.array_equal(codes[i], want[i])), 0)
            j = off + bad
            return _m("frame differs from that frame of load_recording / the zero fill" if src is rdata
                      else "frame differs from that frame of the file / the zero fill",
                      f"frame {bad} = {v['frames'][bad]} differs from "
                      + (f"frame {j} of {what} {want[bad].tolist()}" if j < M else "the zero fill past the end of file"))
    k = max(0, min(n, N - off))
    if k > 0:
        got = np.array([_fl(x) for x in v["times"][:k]])
        ref = np.asarray(rtimes[off:off + k], dtype=float)
        badt = np.nonzero(np.abs(got - ref) > 2.0 ** -40 * np.maximum(1.0, np.abs(ref)))[0]
        if badt.size:
            i = int(badt[0])
            return _m("time stamp differs from that of the same frame of load_recording",
                      f"time stamp {i} = {got[i]!r}, load_recording's index {off + i} has {ref[i]!r}")
    return None


def _holds_recording(ctx, inp, io):
    if _is_raise(io):
        return None
    v = io["val"]
    if len(v["times"]) != len(v["frames"]):
        return _m("number of frames and of time stamps differ", f"{len(v['frames'])} frames, {len(v['times'])} time stamps")
    if "aux" in io:
        n = len(v["frames"])
        sr = _sr(inp)
        if "rsr" not in inp:
            ctx.contract("from_file.samplerate", io["aux"]["sr"] == sr, inp, io["aux"])
            ctx.contract("from_file.duration", abs(frac(io["aux"]["duration"]) * sr - n) < Fraction(1, 2), inp, io["aux"])
        want = _codes(inp["file"]).tolist()
        if v["frames"] != want:
            return _m("load_recording does not return the frames of the file")
    return _axis_ok(ctx, "0", {"coords": v["times"], "step": v["step"]}, "recording time")


def _window_fits(inp_sr, w, n):
    return n > 0 and math.floor(w * inp_sr) <= n


def _holds_spec(ctx, inp, io, sr=None):
    if _is_raise(io):
        return None
    v = io["val"]
    if sr is None:
        sr = inp["sr"] if "sr" in inp else _sr(inp)
    if io["aux"].get("dims") != ["frequency", "time", "channel"]:
        return _m("spectrogram dimensions are not (frequency, time, channel)", f"{io['aux'].get('dims')}")
    sh = io["aux"]["shape"]
    if sh[0] != len(v["freq"]["coords"]) or sh[1] != len(v["time"]["coords"]):
        return _m("spectrogram data shape does not match its own axes", f"shape {sh}")
    if not _window_fits(sr, frac(inp["w"]), v["len"]):
        ctx.tally("spectrogram:window-longer-than-audio (judged like every other window)")
    first = io["aux"]["t0"]
    if (inp.get("opts") or {}).get("boundary", "zeros") is None and v["time"]["coords"]:
        # no boundary extension: no segment is centred on the source's start; the first centre is the reference
        # (C15_stft_options_truthful), it cannot precede the source's start nor lie more than a window after it
        first = v["time"]["coords"][0]
        if first is not None and io["aux"]["t0"] is not None and not (
                frac(io["aux"]["t0"]) <= frac(first) <= frac(io["aux"]["t0"]) + frac(inp["w"]) + Fraction(1, sr)):
            return _m("spectrogram time axis (boundary=None) does not start inside the first window",
                      f"first {float(frac(first))!r}, source start {float(frac(io['aux']['t0']))!r}")
    return (_axis_ok(ctx, first, v["time"], "spectrogram time")
            or _axis_ok(ctx, "0", v["freq"], "spectrogram frequency"))


def _holds_resampled(ctx, inp, io):
    if _is_raise(io):
        return None
    if io["aux"].get("dims") != io["aux"].get("in_dims"):
        return _m("resampled array does not keep the dimensions of its input", f"{io['aux'].get('in_dims')} -> {io['aux'].get('dims')}")
    return _axis_ok(ctx, io["aux"]["t0"], io["val"], "resampled time")


def _holds_resample_chain(ctx, inp, io):
    if _is_raise(io):
        return None
    v = io["val"]
    msg = _axis_ok(ctx, io["aux"]["t0"], v["first"], "resampled time")
    if msg:
        return msg
    if v["second"]["coords"] and v["first"]["coords"] and frac(v["second"]["coords"][0]) != frac(v["first"]["coords"][0]):
        return _m("resampled resampled axis does not start at its source's start")
    # known finding C15-2 where the first stage realised a spacing other than its advertised step
    msg = _axis_ok(ctx, io["aux"]["t0"], v["second"], "resampled resampled time")
    return msg and _m("resample of a resampled array: axis does not tell the truth", msg.split("|", 1)[1].strip())


# ---------------------------------------------------------------------- known findings (specific matchers)
def _match_resample_chain(failure, m):
    """C15-2: second of two resamplings, the first of which did not realise its advertised step (its
    `num` samples span `n` input steps with num / target1 != n / samplerate - because n x target1 /
    samplerate is not whole, or because binary64 truncated a whole product such as 219 x 80000 / 48000
    to 364); only the axis monitor's verdict on the second axis"""
    if failure.op != "resample_chain" or failure.kind != "property":
        return False
    if not failure.detail.startswith("resample of a resampled array: axis does not tell the truth"):
        return False
    inp = failure.inp
    n1 = len(failure.impl["val"]["first"]["coords"])
    return n1 * inp["sr"] != inp["n"] * inp["target1"]


FINDING_MATCHERS = {"resample_of_resampled": _match_resample_chain}


def _nontrivial(inp, out):
    if _is_raise(out):
        return False
    v = out["val"]
    if "frames" in v:
        return len(v["frames"]) > 0
    if "coords" in v:
        return len(v["coords"]) > 0
    if "second" in v:
        return len(v["second"]["coords"]) > 0
    return len(v["time"]["coords"]) > 0


OPS = {
    "load_clip": Op("load_clip", _impl_load_clip, to_model=_tm_clip, compare=_compare_load_clip,
                    holds=_holds_load_clip, nontrivial=_nontrivial, mode="exact"),
    "load_recording": Op("load_recording", _impl_load_recording, to_model=_tm_recording, compare=_compare_recording,
                         holds=_holds_recording, nontrivial=_nontrivial, mode="exact"),
    "recording_of_file": Op("recording_of_file", _impl_recording_of, to_model=_tm_recording_of,
                            compare=_compare_recording, holds=_holds_recording, nontrivial=_nontrivial,
                            mode="exact", model_op="load_recording"),
    "clip_spectrogram": Op("clip_spectrogram", _impl_clip_spectrogram, to_model=_tm_clip_spec,
                           compare=_compare_clip_spec, holds=_holds_spec, nontrivial=_nontrivial, mode="tolerance"),
    "spectrogram": Op("spectrogram", _impl_spectrogram, to_model=_tm_spec, compare=_compare_spec,
                      holds=_holds_spec, nontrivial=_nontrivial, mode="tolerance"),
    "clip_resample": Op("clip_resample", _impl_clip_resample, to_model=_tm_clip_resample,
                        compare=_compare_clip_resample, holds=_holds_resampled, nontrivial=_nontrivial, mode="tolerance"),
    "resample": Op("resample", _impl_resample, to_model=_tm_resample, compare=_compare_resample,
                   holds=_holds_resampled, nontrivial=_nontrivial, mode="tolerance"),
    "resample_chain": Op("resample_chain", _impl_resample_chain, to_model=_tm_resample_chain,
                         compare=_compare_resample_chain, holds=_holds_resample_chain, nontrivial=_nontrivial,
                         mode="tolerance"),
}

# ---------------------------------------------------------------------- options of compute_spectrogram
OPS["spectrogram_options"] = Op("spectrogram_options", _impl_spectrogram, to_model=_tm_spec_opt, compare=_compare_spec,
                                holds=_holds_spec, nontrivial=_nontrivial, mode="tolerance", model_op="spectrogram_opt")


# ---------------------------------------------------------------------- histories (harness/history.py, HISTORIES.md)
# (1) `load_clip_history`: consecutive `load_clip` calls in one process on shared Recording / Clip objects - the same
#     clip on another recording, another clip of the same recording, a Clip object that is changed and used again
#     (assignment / model_copy / deepcopy), returned arrays edited by the caller, results re-read after later calls.
def _h_base(inp):
    return {k: inp[k] for k in ("file", "fsr", "te", "rsr") if k in inp}


def _h_build(inp):
    _k, rec = _recording(inp)
    rec2, kw = _relocated(rec, inp)
    return {"rec": rec2, "clip": _clip_of(rec2, inp), "kw": kw, "base": jkey(_h_base(inp)), "ad": bool(inp.get("ad")),
            "call": inp.get("call", "mixed")}


def _h_call(args):
    return _call("load_clip", _fn("load_clip"), args["call"], {"clip": args["clip"], **args["kw"]})


def _h_canon(inp, args, res):
    return _clip_out(res, args["rec"])


def _h_snapshot(args):
    c, r = args["clip"], args["rec"]
    return [rat(c.start_time), rat(c.end_time), str(c.uuid), str(r.uuid), str(r.path), r.samplerate, rat(r.duration),
            r.channels, rat(r.time_expansion), jkey({k: str(v) for k, v in args["kw"].items()})]


def _h_modify(args, inp, how):
    """the Clip object of the previous step changed to the bounds of this step (Clip is not frozen): nothing it
    remembered from its earlier use may survive.  Only between clips of the same recording."""
    import copy
    if args["base"] != jkey(_h_base(inp)) or args["ad"] != bool(inp.get("ad")):
        return None
    clip, s, e = args["clip"], float(frac(inp["s"])), float(frac(inp["e"]))
    if e < s:
        return None
    if how == "assign":
        if e >= clip.start_time:
            clip.end_time, clip.start_time = e, s
        else:
            clip.start_time, clip.end_time = s, e
    elif how == "copy_update":
        clip = clip.model_copy(update={"start_time": s, "end_time": e})
    elif how == "deep_copy_update":
        clip = clip.model_copy(update={"start_time": s, "end_time": e}, deep=True)
    elif how == "deepcopy_assign":
        clip = copy.deepcopy(clip)
        clip.end_time = max(e, clip.start_time)
        clip.start_time, clip.end_time = s, e
    else:
        return None
    rec = clip.recording
    return {**args, "clip": clip, "rec": rec, "call": inp.get("call", "mixed")}


def _poison_array(arr, data=True):
    """the caller edits what it got back (a returned array is the caller's): its samples, its attrs and the attrs
    of its coordinates.  Nothing of this may reach an array produced by another call."""
    did = False
    if data and arr.size:
        try:
            arr.data[...] = 0.4321
            did = True
        except Exception:  # noqa: BLE001 - read-only data
            pass
    arr.attrs["poisoned"] = "yes"
    arr.attrs["samplerate"] = 1
    arr.attrs["units"] = "poisoned"
    for name in list(arr.coords):
        c = arr.coords[name]
        c.attrs["step"] = 12345.678
        c.attrs["units"] = "poisoned"
        did = True
    return did


H_REUSE = ("assign", "copy_update", "deep_copy_update", "deepcopy_assign")
OPS["load_clip_history"] = history.history_op(
    "load_clip_history", OPS["load_clip"], _h_build, _h_call, _h_canon, snapshot=_h_snapshot, modify=_h_modify,
    poison=_poison_array)


# (2) `session`: several arrays derived from one another in one process (load -> spectrogram -> look at the audio
#     array again -> resample -> resample -> spectrogram ...).  Every array produced is judged by the Lean model of
#     the session (`SE.Audio.runSession`: each step is the base operation's model on the value its source had when
#     it was produced; `C15_session_step`, `C15_session_prefix`, `C15_session_truthful`); after every step every array
#     handed out earlier is looked at again (values, coordinates, attrs of the array and of its coordinates).
class _NoSource(Exception):
    pass


def _digest(a):
    import hashlib
    import numpy as np
    a = np.ascontiguousarray(np.asarray(a))
    return hashlib.blake2b(a.tobytes(), digest_size=8).hexdigest() + ":" + "x".join(map(str, a.shape))


def _attrs_snap(d):
    return {str(k): repr(v) for k, v in sorted(d.items(), key=lambda kv: str(kv[0]))}


def _snap(arr):
    """everything of an array a later call could have changed"""
    return {"dims": list(arr.dims), "shape": list(arr.shape), "attrs": _attrs_snap(arr.attrs), "data": _digest(arr.data),
            "coords": {str(n): {"values": _digest(c.values), "attrs": _attrs_snap(c.attrs), "dims": list(c.dims)}
                       for n, c in arr.coords.items()}}


def _snap_diff(a, b, path=""):
    if isinstance(a, dict) and isinstance(b, dict):
        for k in sorted(set(a) | set(b)):
            if a.get(k) != b.get(k):
                return _snap_diff(a.get(k), b.get(k), f"{path}.{k}" if path else str(k))
    return f"{path}: {a!r} -> {b!r}"


def _axis_out(arr):
    """the time axis of an array; `step` is None when the time coordinate carries no 'step' attribute (a hand-built
    array, `assign_coords`, arithmetic on the coordinate) - `est` is then the mean spacing the library would estimate"""
    import numpy as np
    step = arr.time.attrs.get("step")
    o = {"val": {"coords": _rats(arr.time.data), "step": None if step is None else rat(float(step))},
         "aux": {"n": int(arr.sizes["time"]), "dims": list(arr.dims)}}
    if step is None and arr.sizes["time"] >= 2:
        o["aux"]["est"] = rat(float(np.diff(arr.time.data).mean()))
    return o


def _fq(x):
    return None if x is None else frac(x)


def _strip_step(a, how):
    """an array with the samples and the time coordinates of `a` whose time coordinate has NO 'step' attribute"""
    import numpy as np
    import xarray as xr
    if how == "hand":
        out = xr.DataArray(np.array(a.data, copy=True), dims=a.dims,
                           coords={"time": np.array(a.time.data, copy=True), "channel": np.array(a.channel.data, copy=True)})
    elif how == "arith":
        out = a.assign_coords(time=(a.time + 0.0).data).copy(deep=True)
    else:
        out = a.assign_coords(time=np.array(a.time.data, copy=True)).copy(deep=True)
    if "step" in out.time.attrs:
        raise InfraError(f"strip ({how}) left a step attribute on the time coordinate")
    return out


def _session_base(inp):
    return {k: inp[k] for k in ("file", "fsr", "te", "rsr", "ad") if k in inp}


def _session_step(base, rec, st, live):
    k = st["k"]
    if k == "load_clip":
        arr, rec2, _clip = _load_clip_call(rec, {**base, **{x: st[x] for x in ("s", "e", "num", "via", "call") if x in st}})
        return _clip_out(arr, rec2), arr
    if k == "load_recording":
        rec2, kw = _relocated(rec, base)
        arr = _call("load_recording", _fn("load_recording"), st.get("call", "mixed"),
                    {"recording": _via(rec2, st.get("via", "ctor")), **kw})
        if arr.dims != ("time", "channel") or list(arr.channel.data) != list(range(arr.shape[1])):
            return {"raise": "crash:dims", "trace": f"dims {arr.dims}, channel coordinate {list(arr.channel.data)}"}, None
        return {"val": {"frames": _codes_out(arr.data), "times": _rats(arr.time.data),
                        "step": rat(float(arr.time.attrs["step"]))},
                "aux": {"sr": rec.samplerate, "duration": rat(rec.duration)}}, arr
    j = st["src"]
    if not (0 <= j < len(live)) or live[j]["arr"] is None or live[j]["poisoned"]:
        raise _NoSource()
    a = live[j]["arr"]
    if k == "resample":
        out = _call("resample", _fn("resample"), st.get("call", "mixed"), _resample_given(a, st, st["target"]))
        return _resampled_out(out, a, int(a.sizes["time"])), out
    if k == "spectrogram":
        spec = _call("compute_spectrogram", _fn("compute_spectrogram"), st.get("call", "mixed"), _spec_given(a, st))
        return _spec_out(spec, a), spec
    if k == "slice":
        out = a.isel(time=slice(st["a"], st["b"]))
        live[j]["view"] = True
        o = _axis_out(out)
        o["aux"]["view"] = True
        return o, out
    if k == "strip":
        out = _strip_step(a, st.get("how", "assign"))
        return _axis_out(out), out
    if k == "stride":
        out = a.isel(time=slice(st["a"], None, st["m"]))
        live[j]["view"] = True
        o = _axis_out(out)
        o["aux"]["view"] = True
        return o, out
    if k == "filter":
        from soundevent.audio import operations
        kw = {x: float(frac(st[x])) for x in ("low_freq", "high_freq") if st.get(x) is not None}
        out = operations.filter(a, **kw)
        o = _axis_out(out)
        o["aux"]["in_dims"] = list(a.dims)
        return o, out
    if k == "look":
        return _axis_out(a), None
    if k == "copy":
        out = a.copy(deep=True)
        return _axis_out(out), out
    if k == "poison":
        # samples are only written where no other array is a view of them (a slice shares its source's buffer)
        _poison_array(a, data=not live[j].get("view") and not live[j].get("is_view"))
        live[j]["poisoned"] = True
        return {"val": "poisoned"}, None
    raise ValueError(f"unknown session step {k!r}")


def _impl_session(inp):
    import soundfile as sf
    base = _session_base(inp)
    _k, rec = _recording(base)
    live, outs, notes = [], [], []
    for k, st in enumerate(inp["steps"]):
        arr = None
        try:
            out, arr = _session_step(base, rec, st, live)
        except sf.LibsndfileError:
            out = {"raise": "seek"}
        except _NoSource:
            out = {"raise": "nosource"}
        except InfraError:
            raise
        except Exception as e:  # noqa: BLE001 - an exception of the real code is an observation of that step
            out = canon_exc(e)
            if out["raise"].startswith("crash:"):
                out["trace"] = "".join(traceback.format_exception_only(type(e), e))[-300:]
        outs.append(out)
        # every array handed out earlier must still be what it was when it was produced
        for j, L in enumerate(live):
            if L["arr"] is not None and not L["poisoned"]:
                now = _snap(L["arr"])
                if now != L["snap"]:
                    notes.append({"after": k, "array": j, "what": _snap_diff(L["snap"], now)[:300]})
                    L["snap"] = now
        live.append({"arr": arr, "snap": _snap(arr) if arr is not None else None, "poisoned": False,
                     "is_view": st["k"] in ("slice", "stride")})
    return {"steps": outs, "notes": notes}


def _tm_session(inp):
    base = _session_base(inp)
    steps = []
    for st in inp["steps"]:
        k = st["k"]
        if k == "spectrogram":
            o = st.get("opts") or {}
            steps.append({"k": k, "src": st["src"], "w": st["w"], "h": st["h"], "padded": bool(o.get("padded", True)),
                          "ext": o.get("boundary", "zeros") is not None})
        elif k in ("poison", "stride"):
            steps.append({"k": "look", "src": st["src"]})      # no model: keeps the indices aligned
        elif k in ("strip", "filter"):
            steps.append({"k": "copy", "src": st["src"]})      # the time axis of the source, unchanged
        else:
            steps.append({x: st[x] for x in ("k", "s", "e", "src", "target", "a", "b") if x in st})
    return {"file": base["file"], "sr": _sr(base), "duration": _tm_recording_of(base)["duration"], "steps": steps}


def _session_infos(inp, io):
    """per step: what kind of value it produced, its nominal samplerate (advertised step = 1/rate), what was
    observed (length, first coordinate, whether its spacing is its advertised step) and whether the rational
    model applies (`safe`: every float product in front of an `int()` / `floor` on the way to this value lies in
    the exact product's integer cell)"""
    base = _session_base(inp)
    infos = []
    for st, out in zip(inp["steps"], io["steps"]):
        k = st["k"]
        info = {"kind": None, "safe": False, "rate": None, "n": None, "first": None, "exact": False, "coords": None,
                "step": None}
        src = None
        if "src" in st:
            src = infos[st["src"]] if 0 <= st["src"] < len(infos) else None
            if src is not None and src["kind"] != "audio":
                src = None
        if k == "load_clip":
            ci = {**base, "s": st["s"], "e": st["e"]}
            info.update(kind="audio", rate=_sr(base), safe=_clip_safe(ci), inp=ci)
        elif k == "load_recording":
            sr = _sr(base)
            d = frac(_tm_recording_of(base)["duration"])
            info.update(kind="audio", rate=sr, safe=bool(_pow2(sr) or _frac_half_safe(d * sr)))
        elif src is not None and k == "resample":
            n, t, r = src["n"], int(st["target"]), src["rate"]
            # the step the code multiplies by: the advertised one, or (no 'step' attribute) the mean spacing
            fstep = (1.0 / r) if r and src.get("est") is None else (float(frac(src["est"])) if src.get("est") is not None else None)
            local = n is not None and bool(r) and fstep is not None and _same_cell(Fraction(n * t, r), n * (float(t) * fstep))
            info.update(kind="audio", rate=t, safe=bool(src["safe"] and local))
        elif src is not None and k == "spectrogram":
            info.update(kind="spec", rate=src["rate"],
                        safe=bool(src["safe"] and _stft_safe(src["rate"], frac(st["w"]), frac(st["h"]), st.get("num"))))
        elif src is not None and k in ("slice", "look", "copy", "strip", "filter"):
            info.update(kind="audio", rate=src["rate"], safe=src["safe"])
        elif src is not None and k == "stride":
            # no Lean step for a strided selection: this array and everything derived from it is judged by the
            # monitors only (`safe` False); its nominal rate is known when the stride divides the source's rate
            m = int(st["m"])
            info.update(kind="audio", rate=(src["rate"] // m if src["rate"] and src["rate"] % m == 0 else None), safe=False)
        if info["kind"] == "audio" and not _is_raise(out) and isinstance(out.get("val"), dict):
            v = out["val"]
            cs = v["times"] if "times" in v else v["coords"]
            info.update(n=len(cs), first=cs[0] if cs else None, coords=cs, step=v["step"],
                        est=(out.get("aux") or {}).get("est"))
            if len(cs) >= 2 and v["step"] is None:
                # no advertised step: the library estimates the mean spacing; `exact` = the spacing is regular
                fs = [frac(c) for c in cs]
                d0 = fs[1] - fs[0]
                info["exact"] = d0 > 0 and all(abs((y - x) - d0) <= d0 * Fraction(1, 10 ** 9) for x, y in zip(fs, fs[1:]))
            elif len(cs) >= 2:
                stp = frac(v["step"])
                info["exact"] = abs((frac(cs[1]) - frac(cs[0])) - stp) <= abs(stp) * Fraction(1, 10 ** 9)
            else:
                info["exact"] = True
        infos.append(info)
    return infos


def _fl(x):
    return None if x is None else float(frac(x))


def _sm(cls, k, st, detail=""):
    return _m("session: " + cls, f"step {k} ({st['k']}" + (f" of array {st['src']}" if "src" in st else "") + f"): {detail}")


def _strip_cls(msg):
    a, _, b = msg.partition("|")
    return a.strip(), b.strip()


def _holds_session(ctx, inp, io):
    if _is_raise(io):
        return _m("session: the session driver raised", str(io.get("raise")))
    for n in io.get("notes", []):
        st = inp["steps"][n["after"]]
        return _sm("a call changed an array that was handed out earlier", n["after"], st,
                   f"array {n['array']} (produced by step {n['array']}: {inp['steps'][n['array']]['k']}) changed: {n['what']}")
    base = _session_base(inp)
    infos = _session_infos(inp, io)
    for k, (st, out, info) in enumerate(zip(inp["steps"], io["steps"], infos)):
        kind = st["k"]
        msg = None
        if kind == "load_clip":
            ci = info["inp"]
            msg = _holds_load_clip(ctx, ci, out) or _compare_load_clip(ci, out, ctx.model("load_clip", _tm_clip(ci)))
        elif kind == "load_recording":
            msg = _holds_recording(ctx, base, out) or _compare_recording(
                base, out, ctx.model("load_recording", _tm_recording_of(base)))
        elif _is_raise(out) or "src" not in st:
            continue
        else:
            src = infos[st["src"]]
            if src["kind"] != "audio" and kind != "poison":
                continue
            if kind == "resample":
                cs = out["val"]["coords"]
                if out["aux"].get("dims") != out["aux"].get("in_dims"):
                    msg = _m("resampled array does not keep the dimensions of its input", f"{out['aux'].get('in_dims')} -> {out['aux'].get('dims')}")
                elif cs and src["first"] is not None and frac(cs[0]) != frac(src["first"]):
                    msg = _m("resampled time axis does not start at its source's start", f"{float(frac(cs[0]))!r} vs {float(frac(src['first']))!r}")
                elif src["exact"]:
                    # hypothesis of C15_session_truthful: the source's spacing is its advertised step (otherwise the
                    # known finding C15-2, judged by the operation `resample_chain`)
                    msg = _axis_ok(ctx, src["first"], out["val"], "resampled time")
                else:
                    ctx.tally("session:resample of an array whose spacing is not its step (model only, C15-2)")
            elif kind == "spectrogram":
                msg = _holds_spec(ctx, st, out, sr=src["rate"])
                if not msg and src["first"] is not None and out["aux"]["t0"] is not None and frac(out["aux"]["t0"]) != frac(src["first"]):
                    msg = _m("the audio array no longer starts where it started when it was produced")
            elif kind in ("look", "copy"):
                if out["val"]["coords"] != src["coords"] or _fq(out["val"]["step"]) != _fq(src["step"]):
                    msg = _m("an array looked at again is not what it was when it was produced",
                             f"step {_fl(out['val']['step'])!r} (was {_fl(src['step'])!r}), "
                             f"{len(out['val']['coords'])} coordinates (were {len(src['coords'])})")
            elif kind == "slice":
                want = src["coords"][st["a"]:st["b"]]
                if out["val"]["coords"] != want or _fq(out["val"]["step"]) != _fq(src["step"]):
                    msg = _m("a slice of an array does not carry that part of its time axis / its step",
                             f"step {_fl(out['val']['step'])!r} (source {_fl(src['step'])!r})")
            elif kind == "strip":
                # harness-made (xarray only): same coordinates, no step attribute
                if out["val"]["coords"] != src["coords"] or out["val"]["step"] is not None:
                    raise InfraError("session: strip did not produce the source's axis without a step attribute")
            elif kind == "stride":
                # xarray only: every m-th coordinate; the attrs (a step attribute, if any) are inherited as they are
                if out["val"]["coords"] != src["coords"][st["a"]::st["m"]]:
                    raise InfraError("session: a strided selection is not every m-th coordinate of its source")
                if _fq(out["val"]["step"]) != _fq(src["step"]):
                    msg = _m("a strided selection of an array carries a step attribute its source did not have when it was produced",
                             f"step {_fl(out['val']['step'])!r} (source {_fl(src['step'])!r})")
            elif kind == "filter":
                # `filter` is not one of the property's producers: only 'its output axis is its input axis'
                # (and, by the snapshots, 'it does not modify its argument')
                if out["aux"].get("dims") != out["aux"].get("in_dims"):
                    msg = _m("filtered array does not keep the dimensions of its input", f"{out['aux'].get('in_dims')} -> {out['aux'].get('dims')}")
                elif out["val"]["coords"] != src["coords"] or _fq(out["val"]["step"]) != _fq(src["step"]):
                    msg = _m("filtered array does not carry the time axis / the step of its input",
                             f"step {_fl(out['val']['step'])!r} (input {_fl(src['step'])!r}), "
                             f"{len(out['val']['coords'])} coordinates (input {len(src['coords'])})")
        if msg:
            cls, detail = _strip_cls(msg)
            return _sm(cls, k, st, detail)
    return None


def _compare_session(inp, io, mo):
    if _is_raise(io) or _is_raise(mo):
        return None if _is_raise(io) else _m("session: the model could not evaluate the session", str(mo))
    infos = _session_infos(inp, io)
    ms = mo["val"]
    for k, (st, out, info) in enumerate(zip(inp["steps"], io["steps"], infos)):
        kind = st["k"]
        if kind in ("poison", "load_clip", "load_recording") or not info["safe"] or info["kind"] is None \
                or (_is_raise(out) and out["raise"] == "nosource"):
            continue    # loads are judged as the base operations (monitor + full model, frames included) by `holds`
        m = ms[k] if k < len(ms) else {"raise": "missing"}
        msg = None
        if kind == "filter" and _is_raise(out):
            continue    # what `filter` raises is not pinned by the property
        if _is_raise(out) or _is_raise(m):
            if _is_raise(out) != _is_raise(m):
                msg = _cmp_raise(out, m)
        elif kind not in ("spectrogram", "resample") and out["val"].get("step") is None:
            msg = _cmp_coords("time", out["val"]["coords"], m["val"]["coords"])    # no step attribute to compare
        elif kind == "spectrogram":
            srcm = ms[st["src"]]["val"]
            msg = _cmp_spec(out, {"val": {"len": len(srcm["coords"]), "time": m["val"]["time"], "freq": m["val"]["freq"]}})
        elif kind == "resample":
            msg = _cmp_axis(out, {"val": m["val"]})
        else:
            msg = (_cmp_coords("time", out["val"]["coords"], m["val"]["coords"])
                   or _cmp_step("time", out["val"]["step"], m["val"]["step"]))
        if msg:
            cls, detail = _strip_cls(msg)
            return _sm(cls, k, st, detail)
    return None


def _nontrivial_session(inp, out):
    return isinstance(out, dict) and "steps" in out and any(not _is_raise(o) for o in out["steps"])


OPS["session"] = Op("session", _impl_session, to_model=_tm_session, compare=_compare_session, holds=_holds_session,
                    nontrivial=_nontrivial_session, mode="tolerance")


# (3) `file_history`: the file system is state.  The WAV file under a path is REWRITTEN between loads (a longer or
#     shorter take, another samplerate, another channel count, other sample values of equal length, the very same
#     content again), the Recording is re-made (`Recording.from_file`, the constructor) or the fields of the
#     Recording object used before are assigned / `model_copy(update=…)`ed accordingly, and `load_clip` /
#     `load_recording` are called again.  Every load is judged by the Lean file-system model (`SE.Audio.FS.exec`,
#     theorems C15_fs_load_after_rewrite, C15_fs_history): the base operation's model on the content the path holds
#     at that moment - the harness wrote the PCM codes, so it knows them.  Arrays loaded before a rewrite are looked
#     at again after it.  Every evaluation works in a fresh directory (a replay is the whole history).
_FH_COUNT = [0]
FH_HOW = ("inplace", "replace", "unlink")
FH_REC = ("from_file", "ctor", "assign", "copy_update")


def _fh_write(path, codes, fsr, how, prev_mtime):
    """(re)write the WAV file under `path`: in place (`open(path, "w")` truncates the same inode), atomically (a
    temporary file renamed over it: another inode), or removed first.  The modification time always advances by at
    least 1 ms over the previous content's (set explicitly when the clock did not): a cache that is validated by
    (mtime, size) is a correct cache."""
    import numpy as np
    import soundfile as sf
    if how == "replace" and os.path.exists(path):
        tmp = path[:-4] + ".tmp.wav"
        sf.write(tmp, codes.astype(np.int16), fsr, subtype="PCM_16")
        os.replace(tmp, path)
    else:
        if how == "unlink" and os.path.exists(path):
            os.remove(path)
        sf.write(path, codes.astype(np.int16), fsr, subtype="PCM_16")
    st = os.stat(path)
    if prev_mtime is not None and st.st_mtime_ns < prev_mtime + 1_000_000:
        os.utime(path, ns=(st.st_atime_ns, prev_mtime + 1_000_000))
        st = os.stat(path)
    return st.st_mtime_ns


def _fh_content(st):
    """the content a `write` step puts under its path, as a case of the base operations"""
    return {"file": st["file"], "fsr": st["fsr"], "te": st.get("te", "1")}


def _fh_recording(st, path, prev):
    """the Recording describing the file just written: re-made, or the object used before brought up to date"""
    from pathlib import Path
    from soundevent import data
    c = _fh_content(st)
    te = frac(c["te"])
    tef = int(te) if te.denominator == 1 else float(te)
    m = _tm_recording_of(c)
    sr, dur, ch = m["sr"], float(frac(m["duration"])), st["file"]["ch"]
    pth = Path(path) if st.get("pathtype") == "path" else path
    mode = st.get("rec", "from_file")
    if mode == "ctor":
        return data.Recording(path=pth, samplerate=sr, duration=dur, channels=ch, time_expansion=tef), mode
    if mode == "assign" and prev is not None:
        prev.samplerate, prev.duration, prev.channels, prev.time_expansion = sr, dur, ch, tef
        return prev, mode
    if mode == "copy_update" and prev is not None:
        return prev.model_copy(update={"samplerate": sr, "duration": dur, "channels": ch, "time_expansion": tef}), mode
    return data.Recording.from_file(pth, time_expansion=tef, compute_hash=False), "from_file"


def _impl_file_history(inp):
    import soundfile as sf
    _FH_COUNT[0] += 1
    d = os.path.join(_wav_dir(), "h%05d" % _FH_COUNT[0])
    os.makedirs(d, exist_ok=True)
    cur = {}        # path label -> {"path", "rec", "mtime"}
    live, outs, notes = [], [], []
    try:
        for k, st in enumerate(inp["steps"]):
            arr = None
            try:
                kind = st["k"]
                c = cur.get(st["p"])
                if kind == "write":
                    path = os.path.join(d, "%s.wav" % st["p"])
                    mt = _fh_write(path, _codes(st["file"]), st["fsr"], st.get("how", "inplace"), c and c["mtime"])
                    cur[st["p"]] = {"path": path, "rec": None, "mtime": mt}      # the file is rewritten whatever follows
                    rec, mode = _fh_recording(st, path, c and c["rec"])
                    cur[st["p"]]["rec"] = rec
                    out = {"val": {"sr": rec.samplerate, "duration": rat(rec.duration), "channels": rec.channels},
                           "aux": {"rec": mode}}
                elif c is None or c["rec"] is None:
                    out = {"raise": "nosource"}
                elif kind == "load_clip":
                    clip = _clip_of(c["rec"], st)
                    arr = _call("load_clip", _fn("load_clip"), st.get("call", "mixed"), {"clip": clip})
                    out = _clip_out(arr, c["rec"])
                elif kind == "load_recording":
                    arr = _call("load_recording", _fn("load_recording"), st.get("call", "mixed"),
                                {"recording": _via(c["rec"], st.get("via", "ctor"))})
                    if arr.dims != ("time", "channel") or list(arr.channel.data) != list(range(arr.shape[1])):
                        out, arr = {"raise": "crash:dims", "trace": f"dims {arr.dims}, channel coordinate {list(arr.channel.data)}"}, None
                    else:
                        out = {"val": {"frames": _codes_out(arr.data), "times": _rats(arr.time.data),
                                       "step": rat(float(arr.time.attrs["step"]))},
                               "aux": {"sr": c["rec"].samplerate, "duration": rat(c["rec"].duration)}}
                else:
                    raise ValueError(f"unknown file-history step {kind!r}")
            except sf.LibsndfileError:
                out = {"raise": "seek"}
            except InfraError:
                raise
            except Exception as e:  # noqa: BLE001 - an exception of the real code is an observation of that step
                out = canon_exc(e)
                if out["raise"].startswith("crash:"):
                    out["trace"] = "".join(traceback.format_exception_only(type(e), e))[-300:]
            outs.append(out)
            # arrays loaded earlier are the caller's: rewriting the file must not change them
            for j, L in enumerate(live):
                if L["arr"] is not None:
                    now = _snap(L["arr"])
                    if now != L["snap"]:
                        notes.append({"after": k, "array": j, "what": _snap_diff(L["snap"], now)[:300]})
                        L["snap"] = now
            live.append({"arr": arr, "snap": _snap(arr) if arr is not None else None})
    finally:
        shutil.rmtree(d, ignore_errors=True)
    return {"steps": outs, "notes": notes}


def _fh_walk(inp):
    """per step: the content its path holds at that moment (None before the first write) and, for loads, the case
    of the base operation (`load_clip` / `recording_of_file`) on that content"""
    cur, out = {}, []
    for st in inp["steps"]:
        if st["k"] == "write":
            cur[st["p"]] = _fh_content(st)
            out.append(cur[st["p"]])
        elif st["p"] not in cur:
            out.append(None)
        elif st["k"] == "load_clip":
            out.append({**cur[st["p"]], "s": st["s"], "e": st["e"]})
        else:
            out.append(dict(cur[st["p"]]))
    return out


def _tm_file_history(inp):
    """the calls of the Lean file-system model: a `write` step is `put` followed by `Recording.from_file`"""
    cmds = []
    for st, c in zip(inp["steps"], _fh_walk(inp)):
        if st["k"] == "write":
            cmds.append({"k": "put", "p": st["p"], "file": st["file"], "fsr": st["fsr"]})
            cmds.append({"k": "from_file", "p": st["p"], "te": c["te"]})
        elif c is None:
            cmds.append({"k": "load_recording", "p": st["p"], "sr": 1, "duration": "0"})     # no file: `notfound`
        else:
            m = _tm_recording_of(c)
            cmd = {"k": st["k"], "p": st["p"], "sr": m["sr"], "duration": m["duration"]}
            if st["k"] == "load_clip":
                cmd.update(s=st["s"], e=st["e"])
            cmds.append(cmd)
    return {"steps": cmds}


def _fh_model_steps(inp, mo):
    """the model's answers aligned with the steps (for a `write`: what `from_file` answers)"""
    ms, out, i = mo["val"], [], 0
    for st in inp["steps"]:
        i += 2 if st["k"] == "write" else 1
        out.append(ms[i - 1] if i - 1 < len(ms) else {"raise": "missing"})
    return out


def _fhm(cls, k, inp, detail=""):
    st = inp["steps"][k]
    nw = sum(1 for x in inp["steps"][:k + 1] if x["k"] == "write" and x["p"] == st["p"])
    return _m("file history: " + cls, f"step {k} ({st['k']} of path {st['p']!r}, content no. {nw} of that path): {detail}")


def _holds_file_history(ctx, inp, io):
    if _is_raise(io):
        return _m("file history: the driver of the history raised", str(io.get("raise")) + " " + str(io.get("trace", ""))[-200:])
    for n in io.get("notes", []):
        return _fhm("a later call / a rewrite of the file changed an array loaded earlier", n["after"], inp,
                    f"array of step {n['array']} changed: {n['what']}")
    for k, (st, out, c) in enumerate(zip(inp["steps"], io["steps"], _fh_walk(inp))):
        msg = None
        if c is None:
            continue
        if st["k"] == "write":
            if _is_raise(out):
                msg = _m("the Recording of a rewritten file could not be made", str(out))
            elif out["aux"]["rec"] == "from_file":
                m = _tm_recording_of(c)
                n = _nframes(c["file"])
                ok = (out["val"]["sr"] == m["sr"] and abs(frac(out["val"]["duration"]) * m["sr"] - n) < Fraction(1, 2)
                      and out["val"]["channels"] == c["file"]["ch"])
                ctx.tally("contract:from_file after rewrite")
                if not ok:
                    msg = _m("Recording.from_file does not describe the file as it is on disk now",
                             f"samplerate {out['val']['sr']}, duration {float(frac(out['val']['duration']))!r}, channels "
                             f"{out['val']['channels']}; the file has {n} frames, {c['file']['ch']} channels at {c['fsr']} Hz "
                             f"(expansion {c['te']})")
        else:
            try:
                msg = _holds_load_clip(ctx, c, out) if st["k"] == "load_clip" else _holds_recording(ctx, c, out)
            except InfraError:
                raise
            except Exception as e:  # noqa: BLE001 - an answer of a shape the judge of the base operation cannot read
                msg = _m("the loaded array is not an array of the file's frames (the judge could not read it)", repr(e)[:200])
        if msg:
            cls, detail = _strip_cls(msg)
            return _fhm(cls, k, inp, detail)
    return None


def _compare_file_history(inp, io, mo):
    if _is_raise(io) or _is_raise(mo):
        return None if _is_raise(io) else _m("file history: the model could not evaluate the history", str(mo))
    for k, (st, out, c, m) in enumerate(zip(inp["steps"], io["steps"], _fh_walk(inp), _fh_model_steps(inp, mo))):
        if c is None or st["k"] == "write":
            continue     # `from_file` is a monitored contract (judged by `holds` against the harness's own numbers)
        msg = _compare_load_clip(c, out, m) if st["k"] == "load_clip" else _compare_recording(c, out, m)
        if msg:
            cls, detail = _strip_cls(msg)
            return _fhm(cls, k, inp, detail)
    return None


OPS["file_history"] = Op("file_history", _impl_file_history, to_model=_tm_file_history, compare=_compare_file_history,
                         holds=_holds_file_history, nontrivial=_nontrivial_session, mode="exact", model_op="fs_history")


# ---------------------------------------------------------------------- generators
FILE_RATES = [8000, 11025, 16000, 22050, 32000, 38400, 44100, 48000, 96000, 192000, 250000, 384000,
              7919, 12345, 99991, 8192, 16384, 65536, 262144]
EXPANSIONS = ["1", "2", "10"]


def _gen_file(rng, n=None):
    n = n if n is not None else rng.choice([1, 2, 7, 100, 1000, 2500])
    return {"n": n, "ch": rng.choice([1, 1, 2, 3]), "a": rng.choice([1, 7, 257, 4099]),
            "b": rng.randint(0, 65535), "m": rng.choice([65536, 30000, 1000])}


def _file_pool(rng, count):
    """files x rates x expansion factors; channel counts 1-3 and the factors 1, 2, 10 all occur"""
    pool = []
    sizes = [1000, 2500, 100, 7, 2, 1]
    for i in range(count):
        fd = _gen_file(rng, sizes[i % len(sizes)] if i < 2 * len(sizes) else None)
        fd["ch"] = 1 + i % 3
        pool.append({"file": fd, "fsr": rng.choice(FILE_RATES), "te": EXPANSIONS[(i // 3) % 3]})
    return pool


def _dyadic(x, k):
    """nearest multiple of 2^-k"""
    return Fraction(round(x * (1 << k)), 1 << k)


def _free(rng, x):
    """free mode: the ideal rational (the implementation receives the nearest binary64 and the
    comparison is made only if its float arithmetic provably stays in the ideal's integer cells),
    an arbitrary binary64, or a decimal as a user would type it"""
    r = rng.random()
    if r < 0.5:
        return Fraction(x)
    if r < 0.65:
        return Fraction(float(x))
    if r < 0.8:
        return Fraction(float(x) * (1.0 + rng.uniform(-1e-3, 1e-3)))
    return Fraction(str(round(float(x), rng.choice([3, 4, 6]))))


def _gen_clip_times(rng, base, grid):
    """clip (s, e) in seconds for a file pool entry; positions chosen in sample units: on / off sample
    boundaries, around the end of the file, zero and sub-sample lengths"""
    sr = _sr(base)
    n = base["file"]["n"]
    kind = rng.choice(["inside", "inside", "straddle-end", "at-end", "zero", "subsample", "whole", "tail", "long"])
    fr = rng.choice([Fraction(0), Fraction(0), Fraction(1, 2), Fraction(1, 4), Fraction(3, 4), Fraction(rng.randint(1, 15), 16)])
    fr2 = rng.choice([Fraction(0), Fraction(0), Fraction(1, 2), Fraction(1, 3), Fraction(rng.randint(1, 15), 16)])
    length = rng.randint(1, 120)
    if kind == "inside":
        u0 = rng.randint(0, max(0, n - 1)) + fr
    elif kind == "straddle-end":
        u0 = max(Fraction(0), n - rng.randint(1, length) + fr)
    elif kind == "at-end":
        u0 = Fraction(n)
    elif kind == "whole":
        u0, length, fr2 = Fraction(0), n + rng.choice([0, 0, 1, 5]), Fraction(0)
    elif kind == "tail":
        u0 = Fraction(max(0, n - rng.randint(0, 3)))
    elif kind == "long":
        # a long clip that does not start at the beginning of the file (more than 1000 frames where the file allows)
        u0 = rng.randint(1, max(1, n // 2)) + fr
        length = rng.randint(max(1, n // 2), n + 5)
    else:
        u0 = rng.randint(0, n) + fr
    if kind == "zero":
        u1 = u0
    elif kind == "subsample":
        u1 = u0 + rng.choice([Fraction(1, 8), Fraction(1, 2), Fraction(15, 16)])
    else:
        u1 = u0 + length + fr2
    s, e = u0 / sr, u1 / sr
    if grid:
        # dyadic seconds: products with the (integer) samplerate are exact in binary64
        k = min(24, max(8, sr.bit_length() + rng.choice([0, 1, 2, 3])))
        s, e = _dyadic(s, k), _dyadic(e, k)
        if e < s:
            e = s
    else:
        s, e = _free(rng, s), _free(rng, e)
        if e < s:
            e = s
    return kind, s, e


def _clip_cases(ctx, pool, count, grid):
    rng = ctx.rng
    out = []
    for _ in range(count):
        base = rng.choice(pool)
        kind, s, e = _gen_clip_times(rng, base, grid)
        inp = {**base, "s": rat(s), "e": rat(e)}
        if rng.random() < 0.1:
            inp["ad"] = True
            ctx.tally("clip:relative path + audio_dir")
        ctx.tally(f"clip:{'grid' if grid else 'free'}:{kind}")
        ctx.tally("clip:channels=%d" % base["file"]["ch"])
        ctx.tally("clip:te=%s" % base["te"])
        if not _clip_safe(inp):
            ctx.tally("clip:float-unsafe (monitor only)")
        out.append(inp)
    return out


def _malformed_clip_cases(rng, pool, count):
    """outside the quantifier: end before start, negative start, start beyond the end of file"""
    out = []
    for _ in range(count):
        base = rng.choice(pool)
        sr, n = _sr(base), base["file"]["n"]
        kind = rng.choice(["reversed", "negative", "beyond"])
        if kind == "reversed":
            s, e = Fraction(3, 8), Fraction(1, 8)
        elif kind == "negative":
            s, e = Fraction(-1, 4), Fraction(1, 4)
        else:
            s = _dyadic(Fraction(n + 2 + rng.randint(0, 50), sr), 24) + Fraction(1, 1 << 20)
            e = s + Fraction(1, 64)
        out.append({**base, "s": rat(s), "e": rat(e)})
    return out


def _exhaustive_clip_cases():
    """every clip with end points on multiples of 1/8 s in [0, 2.5] of a 6-frame file at 4 and 3 Hz"""
    out = []
    for fsr, ch in ((4, 1), (4, 2), (3, 1)):
        fd = {"n": 6, "ch": ch, "a": 257, "b": 11, "m": 65536}
        vals = [Fraction(i, 8) for i in range(0, 21)]
        for i, s in enumerate(vals):
            for e in vals[i:]:
                out.append({"file": fd, "fsr": fsr, "te": "1", "s": rat(s), "e": rat(e)})
    return out


def _recording_cases(rng, count):
    out = []
    for _ in range(count):
        n = rng.choice([1, 2, 5, 64, 300])
        fsr = rng.choice(FILE_RATES)
        te = int(rng.choice(EXPANSIONS))
        sr = fsr * te
        kind = rng.choice(["exact", "exact", "float", "short", "long", "half-", "half+", "half="])
        if kind == "half=":
            # stored duration exactly half a sample longer than the file (exact at power-of-two rates): the
            # trailing-point rule `>= stop - step/2` still drops the extra point
            fsr, te = rng.choice([8192, 16384, 65536, 262144]), rng.choice([1, 2])
            sr = fsr * te
        x = {"exact": Fraction(n), "float": None, "short": n - Fraction(3, 8), "long": n + Fraction(3, 8),
             "half-": n - Fraction(5, 8), "half+": n + Fraction(5, 8), "half=": n + Fraction(1, 2)}[kind]
        d = Fraction((n / fsr) / te) if x is None else Fraction(float(x / sr))
        out.append({"file": _gen_file(rng, n), "fsr": fsr, "sr": sr, "duration": rat(d)})
    return out


def _spec_params(rng, sr, n, grid):
    """window / hop in seconds: whole and fractional numbers of samples"""
    nps = rng.randint(2, max(2, min(n, 96)))
    wfr = rng.choice([Fraction(0), Fraction(0), Fraction(0), Fraction(1, 2), Fraction(1, 4), Fraction(7, 8), Fraction(1, 3)])
    hop = rng.choice([nps // 2 or 1, max(1, nps // 4), nps, rng.randint(1, nps), nps + rng.randint(1, 3)])
    hfr = rng.choice([Fraction(0), Fraction(0), Fraction(0), Fraction(1, 2), Fraction(3, 8), Fraction(-3, 8), Fraction(-1, 16)])
    w = (nps + wfr) / sr
    h = max(Fraction(1, 4), hop + hfr) / sr
    if grid:
        k = min(26, sr.bit_length() + 4)
        w, h = _dyadic(w, k), max(_dyadic(h, k), Fraction(1, 1 << k))
    else:
        w, h = _free(rng, w), _free(rng, h)
        if h <= 0:
            h = w / 2
    return w, h


def _long_window(rng, sr, n):
    """window of `n + extra` samples for an audio array of (about) `n` samples - exactly as long, one sample
    longer, a few, twice, ten times as long, whole and fractional - and a hop that mostly leaves
    `noverlap < n` (hop = extra gives `noverlap = n`: scipy's ValueError, on both sides)"""
    extra = rng.choice([0, 1, 1, 2, 3, 14, 40, n, 9 * n])
    wfr = rng.choice([Fraction(0), Fraction(0), Fraction(1, 2), Fraction(1, 4)])
    hop = rng.randint(max(1, extra), n + extra)
    hfr = rng.choice([Fraction(0), Fraction(0), Fraction(1, 2), Fraction(-1, 4)])
    return (n + extra + wfr) / sr, max(Fraction(1, 4), hop + hfr) / sr


def _exhaustive_long_window_cases():
    """small scope around the clamp: 1-6 and 8 samples at 8 Hz (binary64 exact), every window and hop of
    1 .. 10 whole samples - windows shorter than, as long as and longer than the audio, every overlap"""
    out = []
    for n in (1, 2, 3, 4, 5, 6, 8):
        for wn in range(1, 11):
            for hn in range(1, 11):
                out.append({"len": n, "t0": "3/8", "sr": 8, "ch": 1, "w": rat(Fraction(wn, 8)), "h": rat(Fraction(hn, 8))})
    return out


def _clip_spec_cases(ctx, pool, count, grid):
    rng = ctx.rng
    out = []
    big = [b for b in pool if b["file"]["n"] >= 100]
    for _ in range(count):
        base = rng.choice(big)
        sr, n = _sr(base), base["file"]["n"]
        length = rng.randint(8, min(n + 20, 600))
        u0 = rng.randint(0, max(0, n - length // 2)) + rng.choice([Fraction(0), Fraction(1, 2), Fraction(1, 4)])
        s, e = u0 / sr, (u0 + length) / sr
        if grid:
            k = min(24, sr.bit_length() + 2)
            s, e = _dyadic(s, k), _dyadic(e, k)
        else:
            s, e = _free(rng, s), _free(rng, e)
        w, h = _spec_params(rng, sr, max(2, length - 2), grid)
        if rng.random() < 0.08:
            # window longer than the clip (the code clamps it to the clip, fix C15-3)
            w, h = _long_window(rng, sr, length)
            ctx.tally("spectrogram:clip:window-longer-than-audio")
        inp = {**base, "s": rat(s), "e": rat(e), "w": rat(w), "h": rat(h)}
        safe = _clip_safe(inp) and _stft_safe(sr, w, h)
        ctx.tally(f"spectrogram:{'grid' if grid else 'free'}:{'compared' if safe else 'monitor-only'}")
        ctx.tally("spectrogram:hop %s window" % ("<=" if h <= w else ">"))
        ctx.tally("spectrogram:hop is %s number of samples" % ("a whole" if (h * sr).denominator == 1 else "a fractional"))
        out.append(inp)
    return out


def _synthetic_spec_cases(ctx, count):
    rng = ctx.rng
    out = []
    for _ in range(count):
        sr = rng.choice(FILE_RATES + [1000, 4, 100])
        n = rng.randint(4, 400)
        t0 = rng.choice([Fraction(0), Fraction(rng.randint(0, 4000), 16), Fraction(rng.randint(0, 10 ** 6), sr)])
        t0 = Fraction(float(t0))
        w, h = _spec_params(rng, sr, n, grid=rng.random() < 0.5)
        if rng.random() < 0.12:
            # window as long as / longer than the audio (the code clamps it, fix C15-3)
            w, h = _long_window(rng, sr, n)
            ctx.tally("spectrogram:synthetic:window-longer-than-audio")
        case = {"len": n, "t0": rat(t0), "sr": sr, "ch": rng.choice([1, 2]), "w": rat(w), "h": rat(h)}
        if _pow2(sr) and rng.random() < 0.5:
            case.update(t0=rat(Fraction(rng.randint(0, 4000), 16)), nostep=True)
            ctx.tally("spectrogram:synthetic:no step attribute (estimated)")
        out.append(case)
        ctx.tally("spectrogram:synthetic")
    return out


TARGETS = [4000, 8000, 11025, 16000, 22050, 44100, 48000, 96000, 6000, 7, 1000, 12345, 500000]


def _clip_resample_cases(ctx, pool, count, grid):
    rng = ctx.rng
    out = []
    big = [b for b in pool if b["file"]["n"] >= 7]
    for _ in range(count):
        base = rng.choice(big)
        sr, n = _sr(base), base["file"]["n"]
        length = rng.randint(2, min(n + 10, 400))
        u0 = rng.randint(0, max(0, n - length // 2)) + rng.choice([Fraction(0), Fraction(1, 2)])
        s, e = u0 / sr, (u0 + length) / sr
        if grid:
            k = min(24, sr.bit_length() + 2)
            s, e = _dyadic(s, k), _dyadic(e, k)
        else:
            s, e = _free(rng, s), _free(rng, e)
        target = rng.choice(TARGETS + [sr, sr // 2 or 1, sr * 2, max(1, sr // 3), max(1, sr - 1)])
        if length * target > 3000 * sr:      # keep the output small
            target = max(1, sr // 2)
        if length * target < sr and rng.random() < 0.9:     # mostly at least one output sample
            target = -(-2 * sr // length)
        out.append({**base, "s": rat(s), "e": rat(e), "target": int(target)})
        ctx.tally("resample:%s" % ("down" if target < sr else "up" if target > sr else "same"))
    return out


def _synthetic_resample_cases(ctx, count):
    rng = ctx.rng
    out = []
    for _ in range(count):
        sr = rng.choice(FILE_RATES + [1000, 4, 100])
        n = rng.randint(2, 300)
        t0 = Fraction(float(rng.choice([Fraction(0), Fraction(rng.randint(0, 4000), 16), Fraction(rng.randint(0, 10 ** 6), sr)])))
        target = rng.choice(TARGETS + [sr, sr * 2, max(1, sr // 3)])
        if n * target > 3000 * sr:
            target = max(1, sr // 2)
        if n * target < sr and rng.random() < 0.9:
            target = -(-2 * sr // n)
        case = {"n": n, "t0": rat(t0), "sr": sr, "ch": rng.choice([1, 2]), "target": int(target)}
        if _pow2(sr) and rng.random() < 0.5:
            case.update(t0=rat(Fraction(rng.randint(0, 4000), 16)), nostep=True)
            ctx.tally("resample:synthetic:no step attribute (estimated)")
        out.append(case)
        ctx.tally("resample:synthetic")
    return out


def _resample_chain_cases(ctx, count):
    rng = ctx.rng
    out = []
    for _ in range(count):
        sr = rng.choice([8000, 8192, 16000, 22050, 44100, 48000, 1000, 100])
        n = rng.randint(4, 300)
        t0 = Fraction(float(rng.choice([Fraction(0), Fraction(rng.randint(0, 4000), 16)])))
        exact = rng.random() < 0.4
        if exact:
            # first stage realises its advertised step exactly: n x target1 is a multiple of the samplerate
            g = sr // math.gcd(sr, n)
            t1 = g * rng.randint(1, max(1, 3 * sr // g))
        else:
            t1 = rng.choice(TARGETS + [sr // 2, sr * 2, max(1, sr // 3), sr - 1, sr + 1])
        if n * t1 > 2000 * sr:
            t1 = max(1, sr // 2)
        if n * t1 < 2 * sr:
            t1 = -(-3 * sr // n)
        n1 = n * t1 // sr
        t2 = rng.choice(TARGETS + [t1, t1 * 2, t1 * 10, max(1, t1 // 2), sr])
        if n1 * t2 > 3000 * t1:
            t2 = t1 * 2
        if n1 * t2 < t1:
            t2 = t1
        out.append({"n": n, "t0": rat(t0), "sr": sr, "ch": rng.choice([1, 2]), "target1": int(t1), "target2": int(t2)})
        ctx.tally("resample_chain:first stage %s" % ("exact" if (n * t1) % sr == 0 else "with remainder"))
    return out


# ---------------------------------------------------------------------- follow-up generators (HISTORIES.md)
# (samplerate, expansion factor): the recording is built directly with that samplerate, the file header carries
# floor(samplerate / factor) - factors that do not divide the samplerate (44100/8 -> 5512 Hz, int(5512 x 8) = 44096)
# and, as controls, factors that do
RSR = [(44100, "8"), (22050, "20"), (96000, "7"), (48000, "7"), (44100, "10"), (250000, "16"), (8000, "3"), (16384, "3")]


def _rsr_pool(rng):
    pool = []
    for i, (rsr, te) in enumerate(RSR):
        fd = _gen_file(rng, [2500, 1000, 2500, 300][i % 4])
        fd["ch"] = 1 + i % 3
        pool.append({"file": fd, "fsr": rsr // int(te), "te": te, "rsr": rsr})
    return pool


def _big_pool(rng):
    """20 000-frame files: clips far from the start (large offsets), long clips, size thresholds"""
    return [{"file": {"n": 20000, "ch": 1, "a": 4099, "b": rng.randint(0, 65535), "m": 65536}, "fsr": fsr, "te": "1"}
            for fsr in (8192, 44100)]


NUMS = ["int", "np64", "np32", "npint"]
VIAS = ["validate", "json", "copy", "copy_update", "assign"]


def _paths(rng, inp, ctx=None, p=0.3, clip=True):
    """unusual but legitimate ways of building / passing the same input (the model does not see them)"""
    if rng.random() >= p:
        return inp
    if clip:
        if rng.random() < 0.5:
            inp["num"] = rng.choice(NUMS)
        if rng.random() < 0.5:
            inp["via"] = rng.choice(VIAS)
        if rng.random() < 0.3 and not inp.get("ad"):
            inp["ad"] = rng.choice(["path", True])
    elif rng.random() < 0.6:
        inp["num"] = rng.choice(NUMS)
    if rng.random() < 0.6:
        inp["call"] = rng.choice(["kw", "pos"])
    if ctx is not None:
        for k in ("num", "via", "call"):
            if k in inp:
                ctx.tally(f"path:{k}={inp[k]}")
    return inp


def _edge_clip_cases(ctx, pool, count):
    """tolerance-sized offsets around the two comparisons of load_clip (floor(start x samplerate),
    floor(duration x samplerate)): start and length a whole number of samples -/+ 2^-10 ... 2^-40 of a sample, at
    small and large offsets; lengths at the sizes where an implementation could switch strategy"""
    rng = ctx.rng
    out = []
    sizes = [15, 16, 17, 255, 256, 257, 1023, 1024, 1025, 4095, 4096, 4097]
    for i in range(count):
        base = rng.choice(pool)
        sr, n = _sr(base), _nframes(base["file"])
        d = Fraction(rng.choice([1, -1]), 1 << rng.choice([10, 20, 30, 40]))
        d2 = Fraction(rng.choice([1, -1, 0]), 1 << rng.choice([10, 20, 30, 40]))
        k0 = rng.choice([0, 1, rng.randint(0, n - 1), n - rng.randint(1, 40), n // 2])
        length = rng.choice(sizes) if (i % 3 == 0 and n >= 5000) else rng.randint(1, 60)
        u0 = max(Fraction(0), k0 + d)
        u1 = max(u0, k0 + length + d2)
        if _pow2(sr):
            s, e = u0 / sr, u1 / sr              # exact in binary64 (k0 < 2^15, 40 fractional bits)
        else:
            s, e = Fraction(float(u0 / sr)), Fraction(float(u1 / sr))
            if e < s:
                e = s
        inp = _paths(rng, {**base, "s": rat(s), "e": rat(e)}, ctx, p=0.15)
        ctx.tally("clip:edge:%s" % ("compared" if _clip_safe(inp) else "float-unsafe (monitor only)"))
        out.append(inp)
    return out


def _lattice_clip_cases(ctx):
    """every lattice point of non-dyadic axes: clips starting at every multiple of 0.01 s of a 100 Hz file and of
    0.001 s of a 1000 Hz file, typed as decimals (0.29, 0.58, ... are not the rationals they look like)"""
    out = []
    fd100 = {"n": 300, "ch": 1, "a": 257, "b": 11, "m": 65536}
    fd1000 = {"n": 1000, "ch": 2, "a": 7, "b": 3, "m": 30000}
    for k in range(0, 301):
        s, e = float("%.2f" % (k / 100)), float("%.2f" % ((k + 7) / 100))
        out.append({"file": fd100, "fsr": 100, "te": "1", "s": rat(s), "e": rat(e)})
    for k in range(0, 1001, 1 if ctx.thorough() else 3):
        s, e = float("%.3f" % (k / 1000)), float("%.3f" % ((k + 5) / 1000))
        out.append({"file": fd1000, "fsr": 1000, "te": "1", "s": rat(s), "e": rat(e)})
    return out


def _edge_recording_cases(rng, count):
    """stored durations a hair on either side of the trailing-point rule of create_range_dim (half a sample too
    long -/+ 2^-10 ... 2^-30 of a sample; exact at power-of-two rates), few and many frames"""
    out = []
    for _ in range(count):
        n = rng.choice([1, 2, 5, 64, 300, 1024, 1025])
        fsr, te = rng.choice([8192, 16384, 65536, 262144]), rng.choice([1, 2])
        sr = fsr * te
        x = n + Fraction(1, 2) + Fraction(rng.choice([1, -1]), 1 << rng.choice([10, 20, 30]))
        out.append({"file": _gen_file(rng, n), "fsr": fsr, "sr": sr, "duration": rat(x / sr)})
    return out


OPT_WINDOWS = ["hann", "hamming", "boxcar"]
OPT_DETREND = [False, "constant", "linear"]
OPT_BOUNDARY = ["zeros", "even", "odd", "constant", None]


def _opts_product():
    """pairwise: every (padded, boundary) pair with every window / detrend value at least once"""
    out = []
    i = 0
    for padded in (True, False):
        for boundary in OPT_BOUNDARY:
            for j in range(3):
                out.append({"padded": padded, "boundary": boundary, "window_type": OPT_WINDOWS[(i + j) % 3],
                            "detrend": OPT_DETREND[j]})
            i += 1
    return out


def _option_spec_cases(ctx, count):
    """options x input classes: every combination of `_opts_product` with windows shorter than / as long as / longer
    than the audio, whole and fractional hops, hop longer than the window; partially given options too"""
    rng = ctx.rng
    out = []
    combos = _opts_product()
    for i in range(count):
        sr = rng.choice([8000, 8192, 44100, 1000, 16384, 22050])
        n = rng.choice([rng.randint(4, 300), 16, 17, 256, 257, 1024, 1025])
        t0 = Fraction(float(rng.choice([Fraction(0), Fraction(rng.randint(0, 4000), 16)])))
        cls = i % 4
        if cls == 0:
            w, h = _long_window(rng, sr, n)
        else:
            w, h = _spec_params(rng, sr, n, grid=(cls == 1))
        opts = dict(combos[i % len(combos)])
        if i % 5 == 4:      # only some of the options given
            for k in rng.sample(sorted(opts), rng.randint(1, 3)):
                del opts[k]
        case = {"len": n, "t0": rat(t0), "sr": sr, "ch": rng.choice([1, 2]), "w": rat(w), "h": rat(h), "opts": opts}
        if i % 7 == 3:
            case["layout"] = "coords-reordered"
        _paths(rng, case, ctx, p=0.5, clip=False)
        if case.get("num") == "np32" and not _pow2(sr):
            del case["num"]
        ctx.tally("options:padded=%s boundary=%s" % (opts.get("padded", "default"), opts.get("boundary", "default")))
        out.append(case)
    return out


def _edge_spec_cases(ctx, count):
    """window and overlap a whole number of samples -/+ 2^-10 ... 2^-30 of a sample (the two `int()` of
    compute_spectrogram and scipy's `noverlap >= nperseg`), small and large windows, at power-of-two rates (exact);
    audio lengths at the size thresholds"""
    rng = ctx.rng
    out = []
    for i in range(count):
        sr = rng.choice([8192, 16384, 65536, 262144, 4])
        n = rng.choice([15, 16, 17, 255, 256, 257, 1023, 1024, 1025, 4096, 4097, rng.randint(8, 400)])
        nps = rng.choice([2, 3, rng.randint(2, min(n, 96)), n - 1, n, n + 1]) if i % 2 else rng.randint(2, max(2, min(n, 2000)))
        nps = max(2, nps)
        hop = rng.choice([1, nps // 2 or 1, nps, nps - 1 or 1, rng.randint(1, nps)])
        dw = Fraction(rng.choice([1, -1, 0]), 1 << rng.choice([10, 20, 30]))
        dh = Fraction(rng.choice([1, -1, 0]), 1 << rng.choice([10, 20, 30]))
        w = (nps + dw) / sr
        h = max(Fraction(1, 1 << 30), hop + dh) / sr
        t0 = Fraction(rng.choice([0, rng.randint(0, 4000), 10 ** 6]), 16)
        case = {"len": n, "t0": rat(t0), "sr": sr, "ch": 1, "w": rat(w), "h": rat(h)}
        _paths(rng, case, ctx, p=0.3, clip=False)
        out.append(case)
        ctx.tally("spectrogram:edge")
    return out


def _lattice_spec_cases(ctx):
    """every hop of 0.0001 .. 0.0100 s (typed as decimals) at 8 kHz and 44.1 kHz, window 0.01 s"""
    out = []
    for sr in (8000, 44100):
        for j in range(1, 101, 1 if ctx.thorough() else 2):
            out.append({"len": 400, "t0": "0", "sr": sr, "ch": 1, "w": rat(0.01), "h": rat(float("%.4f" % (j / 10000)))})
    return out


def _edge_resample_cases(ctx, count):
    """sizes at the thresholds, targets given as int / float / numpy scalars, window option, array layouts"""
    rng = ctx.rng
    out = []
    for i in range(count):
        sr = rng.choice([8000, 8192, 44100, 48000, 22050, 1000])
        n = rng.choice([15, 16, 17, 255, 256, 257, 1023, 1024, 1025, 4095, 4096, 4097, rng.randint(2, 300)])
        target = rng.choice([sr // 2, sr * 2, sr, 16000, 11025, max(1, sr // 3), sr - 1, sr + 1])
        if n * target > 6000 * sr:
            target = sr // 2
        t0 = Fraction(float(rng.choice([Fraction(0), Fraction(rng.randint(0, 4000), 16), Fraction(10 ** 6, 16)])))
        case = {"n": n, "t0": rat(t0), "sr": sr, "ch": rng.choice([1, 2]), "target": int(target)}
        if rng.random() < 0.6:
            case["tnum"] = rng.choice(["float", "np64", "npint", "npint32"])
        if rng.random() < 0.4:
            case["window"] = rng.choice(["hann", ["tukey", 0.25], ["kaiser", 5.0], None])
        if rng.random() < 0.3:
            case["dim"] = True
        if rng.random() < 0.4:
            case["layout"] = rng.choice(["transposed", "mono", "coords-reordered"])
        if rng.random() < 0.5:
            case["call"] = rng.choice(["kw", "pos"])
        for k in ("tnum", "layout", "call"):
            if k in case:
                ctx.tally(f"resample:path:{k}={case[k]}")
        out.append(case)
    return out


def _lattice_resample_cases(ctx):
    """every input length 2 .. 300 for non-dyadic rate pairs (44100 -> 16000; thorough: also 48000 -> 44100, 22050 -> 8000)"""
    pairs = [(44100, 16000)] + ([(48000, 44100), (22050, 8000)] if ctx.thorough() else [])
    return [{"n": n, "t0": "0", "sr": sr, "ch": 1, "target": t} for sr, t in pairs for n in range(2, 301)]


# ---- histories
def _clip_history_cases(ctx, pool, count):
    """base inputs and neighbours for `load_clip_history`"""
    rng = ctx.rng
    base_cases = []
    for _ in range(count):
        b = rng.choice(pool)
        _kind, s, e = _gen_clip_times(rng, b, grid=True)
        base_cases.append({**b, "s": rat(s), "e": rat(e)})

    def variants(x, rng):
        sr = _sr(x)
        s, e = frac(x["s"]), frac(x["e"])
        out = [{**x, "e": rat(e + Fraction(rng.randint(1, 40), sr))},                       # same offset, other length
               {**x, "s": rat(s + Fraction(rng.randint(1, 9), sr)), "e": rat(e + Fraction(10, sr))},   # shifted
               {**x, "s": rat(s + Fraction(1, 2 * sr)), "e": rat(e + Fraction(1, 2 * sr))}]  # half a sample later
        for b in rng.sample(pool, min(3, len(pool))):                                         # same times, other recording
            out.append({**b, "s": x["s"], "e": x["e"]})
        out.append({**x, "ad": True})
        out.append({**x, "call": rng.choice(["kw", "pos"])})
        return out
    return history.sequences(rng, base_cases, count, variants=variants, reuse_hows=H_REUSE, poison=True)


FH_CHANGES = ("longer", "longer", "much-longer", "shorter", "rate", "channels", "values", "same", "expansion")


def _fh_next_take(rng, prev, change):
    """the content a path is rewritten with, given what it held"""
    fd = dict(prev["file"])
    out = {"file": fd, "fsr": prev["fsr"], "te": prev["te"]}
    n = fd["n"]
    if change == "longer":
        fd["n"] = n + rng.choice([1, 2, 7, n // 2 + 1, n])
    elif change == "much-longer":
        fd["n"] = min(3000, 3 * n + rng.randint(0, 50))
    elif change == "shorter":
        fd["n"] = max(1, rng.choice([n - 1, n // 2, n // 3, 1]))
    elif change == "rate":
        out["fsr"] = rng.choice([r for r in FILE_RATES if r != prev["fsr"]])
    elif change == "channels":
        fd["ch"] = rng.choice([c for c in (1, 2, 3) if c != fd["ch"]])
    elif change == "expansion":
        out["te"] = rng.choice([t for t in EXPANSIONS if t != prev["te"]])
    if change not in ("same", "expansion"):
        fd["b"] = (fd["b"] + rng.randint(1, 60000)) % 65536       # other sample values
        if change == "values":
            fd["a"] = rng.choice([x for x in (1, 7, 257, 4099) if x != fd["a"]])
    return out


def _file_history_cases(ctx, count):
    """histories in which the file under a path is rewritten between loads (HISTORIES.md section 1, the file system
    as the state): 2-4 contents per path, every kind of change, loads before and after each rewrite - the same clip as
    before the rewrite, a clip of the region that exists only now, a clip around the old end, the whole file"""
    rng = ctx.rng
    out = []
    for i in range(count):
        steps = []
        labels = ["a"] if rng.random() < 0.7 else ["a", "b"]
        cur = {}
        for t in range(rng.randint(2, 4)):
            for p in labels:
                if p == "b" and rng.random() < 0.5 and "b" in cur:
                    continue
                prev = cur.get(p)
                if prev is None:
                    c = {"file": _gen_file(rng, rng.choice([7, 100, 250, 250, 1000])), "fsr": rng.choice(FILE_RATES),
                         "te": rng.choice(EXPANSIONS)}
                    change = "first"
                else:
                    change = FH_CHANGES[(i + t) % len(FH_CHANGES)] if t == 1 else rng.choice(FH_CHANGES)
                    c = _fh_next_take(rng, prev, change)
                w = {"k": "write", "p": p, **c, "how": rng.choice(FH_HOW), "rec": rng.choice(FH_REC)}
                if rng.random() < 0.3:
                    w["pathtype"] = "path"
                steps.append(w)
                ctx.tally("file_history:rewrite:" + change)
                if prev is not None:
                    ctx.tally("file_history:how:" + w["how"])
                    ctx.tally("file_history:recording:" + w["rec"])
                cur[p] = c
                sr, n = _sr(c), c["file"]["n"]
                n_old = prev["file"]["n"] if prev is not None else None
                loads = []
                if prev is not None:
                    # what was loaded before the rewrite, again
                    loads += [dict(x) for x in prev.get("_loads", [])[:2]]
                    if n > n_old:
                        u0 = rng.randint(n_old, n - 1)          # frames that exist only now
                        loads.append({"k": "load_clip", "p": p, "s": rat(Fraction(u0, sr)),
                                      "e": rat(Fraction(min(n + 3, u0 + rng.randint(1, 60)), sr))})
                    u0 = max(0, min(n_old, n) - rng.randint(1, 20))  # around the old / the new end
                    loads.append({"k": "load_clip", "p": p, "s": rat(Fraction(u0, sr)),
                                  "e": rat(Fraction(max(n_old, n) + rng.randint(0, 5), sr))})
                for _ in range(rng.randint(1, 2)):
                    _kind, s, e = _gen_clip_times(rng, c, grid=True)
                    loads.append({"k": "load_clip", "p": p, "s": rat(s), "e": rat(e)})
                if rng.random() < 0.7:
                    loads.append({"k": "load_recording", "p": p})
                if rng.random() < 0.3:
                    loads.append({"k": "load_clip", "p": p, "s": "0", "e": rat(Fraction(n, sr))})    # the whole file
                rng.shuffle(loads)
                for ld in loads:
                    if not _pow2(sr) and ld["k"] == "load_clip":
                        k2 = min(24, sr.bit_length() + 2)
                        s2, e2 = _dyadic(frac(ld["s"]), k2), _dyadic(frac(ld["e"]), k2)
                        ld["s"], ld["e"] = rat(s2), rat(max(s2, e2))
                    if rng.random() < 0.25:
                        ld["call"] = rng.choice(["kw", "pos"])
                    if rng.random() < 0.2:
                        ld["via"] = rng.choice(["validate", "json", "copy"])
                    ctx.tally("file_history:step:" + ld["k"] + (" after a rewrite" if prev is not None else ""))
                cur[p] = {**c, "_loads": [x for x in loads if x["k"] == "load_clip"]}
                steps.extend(loads)
        # an earlier path is loaded again after the other one was rewritten
        if len(labels) == 2:
            steps.append({"k": "load_recording", "p": "a"})
        out.append({"steps": steps})
    return out


SESSION_RATIOS = [(1, 2), (1, 3), (2, 1), (1, 4), (3, 2), (2, 3), (1, 1), (3, 1)]


def _session_target(rng, rate, n, exact=True):
    """a target samplerate for an array of `n` samples at `rate` Hz; `exact`: n x target / rate is whole (the
    resampled array then has the spacing it advertises and may be resampled again truthfully)"""
    if exact:
        cands = [rate * p // q for p, q in SESSION_RATIOS if (rate * p) % q == 0 and (n * p) % q == 0 and 2 <= n * p // q <= 3000]
        if cands:
            return rng.choice(cands)
    t = rng.choice(TARGETS + [rate // 2 or 1, rate * 2, max(1, rate // 3)])
    if n * t > 3000 * rate or n * t < 2 * rate:
        t = rate
    return int(t)


def _session_spec(rng, rate, n, src, plain=False):
    w, h = _spec_params(rng, rate, max(2, n), grid=True) if rng.random() < 0.85 else _long_window(rng, rate, max(2, n))
    st = {"k": "spectrogram", "src": src, "w": rat(w), "h": rat(h)}
    if not plain and rng.random() < 0.4:
        st["opts"] = dict(rng.choice(_opts_product()))
    if rng.random() < 0.4:
        st["call"] = rng.choice(["kw", "pos"])
    if rng.random() < 0.25:
        st["num"] = rng.choice(["np64", "int"] + (["np32"] if _pow2(rate) else []))
    return st


def _session_resample(rng, rate, n, src, exact=True):
    st = {"k": "resample", "src": src, "target": _session_target(rng, rate, n, exact)}
    if rng.random() < 0.4:
        st["tnum"] = rng.choice(["float", "np64", "npint", "npint32"])
    if rng.random() < 0.3:
        st["call"] = rng.choice(["kw", "pos"])
    if rng.random() < 0.2:
        st["window"] = rng.choice(["hann", ["tukey", 0.25]])
    return st


def _session_cases(ctx, pool, count):
    """sessions: a load, then arrays derived from earlier ones.  Fixed skeletons for the kinds of history of
    HISTORIES.md section 1 (an argument re-used after the call, chained resampling, options followed by a plain call,
    an edited result followed by the same call, slices) plus random derivation graphs.  The generator tracks the
    expected length / rate of every audio value only to pick sensible parameters; the judge does not use them."""
    rng = ctx.rng
    out = []
    cands = [b for b in pool if 100 <= _nframes(b["file"]) <= 2500]
    for i in range(count):
        base = dict(rng.choice(cands))
        sr, nfile = _sr(base), _nframes(base["file"])
        if rng.random() < 0.15:
            base["ad"] = rng.choice([True, "path"])
        steps = []
        vals = []      # per step: (rate, n) for audio values, None otherwise
        if rng.random() < 0.8:
            length = 12 * rng.randint(2, min(45, max(2, nfile // 12)))
            u0 = rng.randint(0, max(0, nfile - length // 2)) + rng.choice([Fraction(0), Fraction(0), Fraction(1, 2), Fraction(1, 4)])
            s, e = u0 / sr, (u0 + length) / sr
            if not _pow2(sr):
                k = min(24, sr.bit_length() + 2)
                s, e = _dyadic(s, k), _dyadic(e, k)
            st = {"k": "load_clip", "s": rat(s), "e": rat(max(s, e))}
            _paths(rng, st, None, p=0.3)
            st.pop("ad", None)
            steps.append(st)
            vals.append((sr, max(0, math.floor((max(s, e) - s) * sr))))
        else:
            st = {"k": "load_recording"}
            if rng.random() < 0.3:
                st["call"] = rng.choice(["kw", "pos"])
            if rng.random() < 0.3:
                st["via"] = rng.choice(["validate", "json", "copy"])
            steps.append(st)
            vals.append((sr, nfile))
        skeleton = ["reuse", "chain", "options", "poison", "slice", "random", "nostep", "random"][i % 8]

        def audio_srcs():
            return [j for j, v in enumerate(vals) if v is not None and v[1] >= 2 and not steps[j].get("_dead")]

        def add(st, val=None):
            steps.append(st)
            vals.append(val)
            return len(steps) - 1

        def add_resample(src, exact=True):
            r, n = vals[src]
            st = _session_resample(rng, r, n, src, exact)
            return add(st, (st["target"], n * st["target"] // r))

        r0, n0 = vals[0]
        if n0 < 4:
            skeleton = "random"
        if skeleton == "reuse":
            # the audio array is used again after a spectrogram was computed from it
            add(_session_spec(rng, r0, n0, 0))
            add({"k": "look", "src": 0})
            j = add_resample(0)
            add(_session_spec(rng, r0, n0, 0))
            add({"k": "look", "src": 0})
            add(_session_spec(rng, *vals[j], j))
            add({"k": "look", "src": j})
        elif skeleton == "chain":
            # load -> resample -> resample (-> resample) -> spectrogram, every intermediate array looked at again
            j1 = add_resample(0, exact=rng.random() < 0.85)
            j2 = add_resample(j1, exact=True)
            if rng.random() < 0.5:
                j2 = add_resample(j2, exact=True)
            add(_session_spec(rng, *vals[j2], j2))
            add({"k": "look", "src": j1})
            add_resample(0)
        elif skeleton == "options":
            # a call with non-default options followed by plain calls
            a = _session_spec(rng, r0, n0, 0)
            a["opts"] = dict(rng.choice(_opts_product()))
            add(a)
            plain = {k: v for k, v in a.items() if k not in ("opts", "call", "num")}
            add(dict(plain))
            add(_session_spec(rng, r0, n0, 0, plain=True))
            add({**_session_resample(rng, r0, n0, 0), "window": rng.choice(["hann", ["kaiser", 5.0]])}, None)
            last = steps[-1]
            vals[-1] = (last["target"], n0 * last["target"] // r0)
            add({k: v for k, v in last.items() if k != "window"}, vals[-1])
            add(dict(a))
        elif skeleton == "poison":
            # the caller edits a result, then the same calls are made again
            first = dict(steps[0])
            j = add_resample(0)
            sp = add(_session_spec(rng, r0, n0, 0))
            add({"k": "poison", "src": rng.choice([j, sp])})
            add(dict(steps[j]), vals[j])
            add(dict(steps[sp]))
            add({"k": "look", "src": 0})
            add({"k": "poison", "src": 0})
            steps[0]["_dead"] = True
            k2 = add(first, vals[0])
            add(_session_spec(rng, r0, n0, k2))
            add({**steps[j], "src": k2}, vals[j])
        elif skeleton == "slice":
            a = rng.randint(0, max(0, n0 // 2))
            b = rng.randint(a + 2, max(a + 2, n0 + 3))
            j = add({"k": "slice", "src": 0, "a": a, "b": b}, (r0, max(0, min(b, n0) - a)))
            if vals[j][1] >= 2:
                add(_session_spec(rng, *vals[j], j))
                add_resample(j)
            c = add({"k": "copy", "src": 0}, vals[0])
            add(_session_spec(rng, r0, n0, c))
            add({"k": "look", "src": 0})
        elif skeleton == "nostep":
            # an array whose time coordinate has no 'step' attribute (hand-built / assign_coords / arithmetic on the
            # coordinate) is resampled / filtered; then strided selections and slices of that SAME array are resampled:
            # a step memoised in the argument's coordinate attrs by the first call would be inherited by them
            how = rng.choice(["assign", "hand", "arith"])
            p = add({"k": "strip", "src": 0, "how": how})
            first = rng.choice(["resample", "resample", "filter", "both"])
            if first in ("filter", "both") and n0 >= 60:
                add({"k": "filter", "src": p, "low_freq": rat(Fraction(r0, 16)),
                     **({"high_freq": rat(Fraction(r0, 4))} if rng.random() < 0.5 else {})})
            if first != "filter" or n0 < 60:
                st = _session_resample(rng, r0, n0, p, exact=rng.random() < 0.8)
                add(st)
            add({"k": "look", "src": p})
            m = rng.choice([2, 2, 3])
            a0 = rng.choice([0, 0, 1])
            nh = len(range(a0, n0, m))
            h = add({"k": "stride", "src": p, "m": m, "a": a0})
            if nh >= 2:
                t2 = rng.choice([r0, r0, 2 * r0, max(1, r0 // m)])
                if 2 * r0 <= nh * t2 * m <= 3000 * r0:
                    add({"k": "resample", "src": h, "target": int(t2)})
                if rng.random() < 0.4 and nh >= 60:
                    add({"k": "filter", "src": h, "low_freq": rat(Fraction(r0, 16 * m))})
            # a contiguous slice of the same array, resampled; the strided selection of the LOADED array (it has a
            # step attribute, so its spacing is not its step: model / C15-2 only)
            b = rng.randint(max(2, n0 // 2), n0)
            sl = add({"k": "slice", "src": p, "a": 0, "b": b})
            add(_session_resample(rng, r0, b, sl, exact=False))
            if rng.random() < 0.5:
                add({"k": "stride", "src": 0, "m": 2, "a": 0})
            add({"k": "look", "src": p})
            add({"k": "look", "src": 0})
        for _ in range(rng.randint(2, 5) if skeleton == "random" else rng.randint(0, 2)):
            srcs = audio_srcs()
            if not srcs:
                break
            j = rng.choice(srcs)
            r, n = vals[j]
            kind = rng.choice(["spectrogram", "spectrogram", "resample", "resample", "look", "slice", "copy"])
            if kind == "spectrogram":
                add(_session_spec(rng, r, n, j))
            elif kind == "resample":
                add_resample(j, exact=rng.random() < 0.8)
            elif kind == "slice":
                a = rng.randint(0, n // 2)
                b = rng.randint(a + 1, n + 2)
                add({"k": "slice", "src": j, "a": a, "b": b}, (r, max(0, min(b, n) - a)))
            elif kind == "copy":
                add({"k": "copy", "src": j}, vals[j])
            else:
                add({"k": "look", "src": j})
        for st in steps:
            st.pop("_dead", None)
            ctx.tally("session:step:" + st["k"])
        ctx.tally("session:skeleton:" + skeleton)
        out.append({**base, "steps": steps})
    return out


# ---------------------------------------------------------------------- stages
def _stage_ties(ctx):
    """Tie 1b: the functions' own arithmetic, traced from the current source, equals the model's plans"""
    from .. import c15_sym
    c15_sym.register(ctx)
def _assumptions(ctx):
    """facts about the code's call sites the model relies on (defaults of compute_spectrogram)"""
    from soundevent.audio import compute_spectrogram
    sig = inspect.signature(compute_spectrogram)
    want = {"boundary": "zeros", "padded": True, "window_type": "hann", "detrend": False}
    got = {k: (sig.parameters[k].default if k in sig.parameters else "<missing>") for k in want}
    ctx.contract("compute_spectrogram.defaults", got == want, None, {k: repr(v) for k, v in got.items()},
                 detail=f"compute_spectrogram defaults changed: {got}")
    for sr in FILE_RATES:
        for te in (1, 2, 10):
            if not _sr_roundtrips(sr * te):
                ctx.note(f"1/(1/{sr * te}) != {sr * te} in binary64: spectrograms at that rate are only monitored")


def _stage_clips(ctx):
    pool = _file_pool(ctx.rng, ctx.budget(10, 40))
    ctx.c15_pool = pool
    ex = _exhaustive_clip_cases()
    ctx.run_cases(OPS["load_clip"], ex)
    ctx.exhaustive["load_clip small scope"] = ("6-frame files at 4 Hz (1 and 2 channels) and 3 Hz, every clip with "
                                               "start <= end on multiples of 1/8 s in [0, 2.5]: %d cases" % len(ex))
    ctx.run_cases(OPS["load_clip"], _clip_cases(ctx, pool, ctx.budget(1600, 12000), grid=True))
    ctx.run_cases(OPS["load_clip"], _clip_cases(ctx, pool, ctx.budget(1000, 8000), grid=False))
    ctx.run_cases(OPS["load_clip"], _malformed_clip_cases(ctx.rng, pool, ctx.budget(30, 200)))


def _stage_recordings(ctx):
    ctx.run_cases(OPS["load_recording"], _recording_cases(ctx.rng, ctx.budget(60, 400)))
    pool = getattr(ctx, "c15_pool", None) or _file_pool(ctx.rng, 6)
    ctx.run_cases(OPS["recording_of_file"], [dict(b) for b in pool] + [dict(b, ad=True) for b in pool[:4]])


def _stage_spectrograms(ctx):
    pool = getattr(ctx, "c15_pool", None) or _file_pool(ctx.rng, 10)
    if not any(b["file"]["n"] >= 100 for b in pool):
        pool = pool + [{"file": _gen_file(ctx.rng, 1000), "fsr": 8000, "te": "1"}]
    ctx.run_cases(OPS["clip_spectrogram"], _clip_spec_cases(ctx, pool, ctx.budget(340, 3000), grid=True))
    ctx.run_cases(OPS["clip_spectrogram"], _clip_spec_cases(ctx, pool, ctx.budget(200, 2000), grid=False))
    ctx.run_cases(OPS["spectrogram"], _synthetic_spec_cases(ctx, ctx.budget(200, 2000)))
    ex = _exhaustive_long_window_cases()
    ctx.run_cases(OPS["spectrogram"], ex)
    ctx.exhaustive["spectrogram small scope"] = ("1-6 and 8 samples at 8 Hz, every window and hop of 1 .. 10 whole samples "
                                                 "(windows shorter than, equal to and longer than the audio): %d cases" % len(ex))


def _stage_resample(ctx):
    pool = getattr(ctx, "c15_pool", None) or _file_pool(ctx.rng, 10)
    if not any(b["file"]["n"] >= 7 for b in pool):
        pool = pool + [{"file": _gen_file(ctx.rng, 1000), "fsr": 8000, "te": "1"}]
    ctx.run_cases(OPS["clip_resample"], _clip_resample_cases(ctx, pool, ctx.budget(280, 2500), grid=True))
    ctx.run_cases(OPS["clip_resample"], _clip_resample_cases(ctx, pool, ctx.budget(170, 1500), grid=False))
    ctx.run_cases(OPS["resample"], _synthetic_resample_cases(ctx, ctx.budget(200, 2000)))
    ctx.run_cases(OPS["resample_chain"], _resample_chain_cases(ctx, ctx.budget(200, 1200)))


def _lean_str(x):
    import json
    return json.dumps(x, ensure_ascii=True)


def _stage_signatures(ctx):
    """positional calls.  (a) the Python mirror `DOC_SIGNATURES` the positional calls are built from is the Lean
    table `SE.Audio.signatures` (theorems C15_positional_binding, C15_signatures_wellformed); (b) Tie 1: the
    positional-or-keyword parameters of the four public functions of the *current source*, in order, with the repr
    of their defaults, are exactly that table (keyword-only parameters have no position: their order is free)."""
    table = ctx.model("signatures", {})["val"]
    lean = {e["fn"]: [tuple(p) for p in e["params"]] for e in table}
    mirror = {fn: [(n, "" if d is _REQ else repr(d)) for n, d in ps] for fn, ps in DOC_SIGNATURES.items()}
    if lean != mirror:
        ctx.fail("obligation", "signatures.mirror", detail=f"harness mirror of SE.Audio.signatures is out of date: {mirror} vs {lean}")
    rows = []
    for e in table:
        fn = e["fn"]
        try:
            sig = inspect.signature(_fn(fn))
            ps = [(p.name, "" if p.default is inspect.Parameter.empty else repr(p.default)) for p in sig.parameters.values()
                  if p.kind in (inspect.Parameter.POSITIONAL_ONLY, inspect.Parameter.POSITIONAL_OR_KEYWORD)]
        except Exception as ex:  # noqa: BLE001 - the function is gone / not introspectable: the tie is not re-established
            ps = [("<unavailable: %s>" % type(ex).__name__, "")]
        rows.append("(%s, [%s])" % (_lean_str(fn), ", ".join("(%s, %s)" % (_lean_str(n), _lean_str(d)) for n, d in ps)))
    ctx.obligation("signatures", "example : SE.Audio.signatures = [\n  " + ",\n  ".join(rows) + "] := by decide",
                   meta={"op": "positional calls"})
    ctx.tally("tie1:signatures of 4 public functions")


def _stage_paths(ctx):
    """tolerance-sized offsets, size thresholds, lattice sweeps, recordings whose expansion factor does not divide
    the samplerate, options x input classes, construction paths (HISTORIES.md sections 2-4)"""
    rng = ctx.rng
    pool = getattr(ctx, "c15_pool", None) or _file_pool(rng, 10)
    rsr = _rsr_pool(rng)
    big = _big_pool(rng)
    ctx.c15_rsr, ctx.c15_big = rsr, big
    # expansion factors that do not divide the samplerate: clips away from 0 (grid and free), recordings, pipelines
    for b in rsr:
        ctx.tally("clip:rsr=%d te=%s (header %d Hz)" % (b["rsr"], b["te"], b["fsr"]))
    ctx.run_cases(OPS["load_clip"], [_paths(rng, c, ctx) for c in _clip_cases(ctx, rsr, ctx.budget(300, 2000), grid=True)])
    ctx.run_cases(OPS["load_clip"], _clip_cases(ctx, rsr, ctx.budget(150, 1000), grid=False))
    ctx.run_cases(OPS["recording_of_file"], [dict(b) for b in rsr] + [dict(b, ad="path", call="pos") for b in rsr[:3]]
                  + [dict(b, via=v, call=c) for b, v, c in zip(pool, VIAS[:3] * 4, ["kw", "pos", "mixed"] * 4)])
    ctx.run_cases(OPS["clip_spectrogram"], [_paths(rng, c, ctx) for c in _clip_spec_cases(ctx, rsr, ctx.budget(60, 400), grid=True)])
    ctx.run_cases(OPS["clip_resample"], [_paths(rng, c, ctx) for c in _clip_resample_cases(ctx, rsr, ctx.budget(60, 400), grid=True)])
    # construction paths on the ordinary pool
    ctx.run_cases(OPS["load_clip"], [_paths(rng, c, ctx, p=1.0) for c in _clip_cases(ctx, pool, ctx.budget(250, 1500), grid=True)])
    ctx.run_cases(OPS["clip_spectrogram"], [_paths(rng, c, ctx, p=1.0) for c in _clip_spec_cases(ctx, pool, ctx.budget(80, 500), grid=True)])
    ctx.run_cases(OPS["clip_resample"], [_paths(rng, {**c, "tnum": rng.choice(["float", "np64", "npint", "npint32"])}, ctx, p=1.0)
                                         for c in _clip_resample_cases(ctx, pool, ctx.budget(80, 500), grid=True)])
    # tolerance-sized offsets and size thresholds
    ctx.run_cases(OPS["load_clip"], _edge_clip_cases(ctx, pool + big + big, ctx.budget(300, 2000)))
    ctx.run_cases(OPS["load_recording"], _edge_recording_cases(rng, ctx.budget(40, 300)))
    ctx.run_cases(OPS["spectrogram"], _edge_spec_cases(ctx, ctx.budget(150, 1000)))
    ctx.run_cases(OPS["resample"], _edge_resample_cases(ctx, ctx.budget(150, 1000)))
    # every lattice point of non-dyadic axes
    lc, ls, lr = _lattice_clip_cases(ctx), _lattice_spec_cases(ctx), _lattice_resample_cases(ctx)
    ctx.run_cases(OPS["load_clip"], lc)
    ctx.run_cases(OPS["spectrogram"], ls)
    ctx.run_cases(OPS["resample"], lr)
    ctx.exhaustive["lattice sweeps"] = ("clips starting at every multiple of 0.01 s (100 Hz file) and of 0.001 s (1000 Hz file%s): %d; "
                                        "every hop 0.0001 .. 0.0100 s%s at 8 kHz and 44.1 kHz: %d; every input length 2 .. 300 "
                                        "for 44100 -> 16000%s: %d"
                                        % ("" if ctx.thorough() else ", every third", len(lc),
                                           "" if ctx.thorough() else " (every second)", len(ls),
                                           ", 48000 -> 44100, 22050 -> 8000" if ctx.thorough() else "", len(lr)))
    # options x input classes
    ctx.run_cases(OPS["spectrogram_options"], _option_spec_cases(ctx, ctx.budget(240, 1500)))


def _stage_histories(ctx):
    """consecutive calls in one process (HISTORIES.md section 1)"""
    rng = ctx.rng
    pool = getattr(ctx, "c15_pool", None) or _file_pool(rng, 10)
    rsr = getattr(ctx, "c15_rsr", None) or _rsr_pool(rng)
    hs = _clip_history_cases(ctx, [b for b in pool + rsr[:3] if _nframes(b["file"]) >= 7], ctx.budget(90, 700))
    for h in hs:
        for st in h["seq"]:
            ctx.tally("history:" + (st.get("reuse") or "fresh") + ("+poison" if st.get("poison") else ""))
    ctx.run_cases(OPS["load_clip_history"], hs)
    ctx.run_cases(OPS["session"], _session_cases(ctx, pool + rsr, ctx.budget(170, 1400)))
    ctx.run_cases(OPS["file_history"], _file_history_cases(ctx, ctx.budget(48, 400)))


def _timed(ctx, name, fn, *args):
    import time
    t = time.time()
    try:
        return ctx.stage(name, fn, *args)
    finally:
        ctx.note("stage `%s`: %.1f s" % (name, time.time() - t))


def run(ctx):
    try:
        _timed(ctx, "corpus", ctx.run_corpus, OPS)
        _timed(ctx, "assumptions", _assumptions, ctx)
        _timed(ctx, "signatures", _stage_signatures, ctx)
        _timed(ctx, "symbolic ties", _stage_ties, ctx)
        _timed(ctx, "clips", _stage_clips, ctx)
        _timed(ctx, "recordings", _stage_recordings, ctx)
        _timed(ctx, "spectrograms", _stage_spectrograms, ctx)
        _timed(ctx, "resample", _stage_resample, ctx)
        _timed(ctx, "paths and boundaries", _stage_paths, ctx)
        _timed(ctx, "histories", _stage_histories, ctx)
        from .. import c15_sym
        _timed(ctx, "discharge", ctx.discharge, c15_sym.IMPORTS)
    finally:
        if not getattr(ctx, "c15_keep", False):
            _cleanup()


def search(ctx, failures):
    """a stage / contract broke without a concrete failing input: rerun every stage with fresh inputs"""
    try:
        ctx.stage("search:corpus", ctx.run_corpus, OPS)
        ctx.stage("search:clips", _stage_clips, ctx)
        ctx.stage("search:recordings", _stage_recordings, ctx)
        ctx.stage("search:spectrograms", _stage_spectrograms, ctx)
        ctx.stage("search:resample", _stage_resample, ctx)
        ctx.stage("search:paths and boundaries", _stage_paths, ctx)
        ctx.stage("search:histories", _stage_histories, ctx)
    finally:
        _cleanup()
