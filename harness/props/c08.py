"""C08 — Detection evaluation accounts for every sound event and only credits overlaps."""
import copy
import itertools
import warnings
from fractions import Fraction

import numpy as np

from ..core import Op, jkey as core_jkey
from ..rat import rat, frac
from .. import evalgen as G
from .. import leanio
from .. import tagpool as TP
from .. import c08_live as L
from .. import c08_tagvariants as TV
from .. import c07_oracle as O7
from .. import history
from .. import symtrace as st
from ..symtrace import Sym

PROPERTY = "C08"
LEAN_MODULE = "Proofs.C08"
_T = "SE.Proofs.C08."
THEOREMS = [_T + n for n in [
    "C08_clips", "C08_clips_pairs", "C08_cover", "C08_index_faithful", "C08_index_faithful_annotations",
    "C08_pairs_overlap_report_affinity_score", "C08_unpaired_zero", "C08_geometryless_unpaired",
    "C08_matcher_contract_checked", "C08_contract_from_C07", "C08_holds_cover_sound", "C08_holds_cover_model", "C08_clip_score_is_mean", "C08_means", "C08_scores_in_range", "C08_empty",
    # geometry layer (review): the matcher inside the model, overlap decided by end-point comparisons
    "C08_overlap_iff_affinity_pos", "C08_overlap_symm_total", "C08_geo_matcher_contract", "C08_geo_pairs_overlap",
    "C08_judge_sound", "C08_judge_model", "C08_geo_detection",
    # tag layer (follow-up 2): the class indices come from the model of the encoder (C19); the score clause by tag equality
    "C08_tags_bridge", "C08_pair_score_is_class_probability", "C08_clip_pair_scores", "C08_classes_are_vocabulary_tags",
    # calls and histories (follow-up 3): a call as content, every step of every sequence of calls judged on its own
    "C08_history", "C08_evaluate_bridge", "C08_evaluate_congr", "C08_shared_class_table_not_history_free",
    "C08_buffer_memo_not_history_free", "C08_positional_binding",
    # wave 5: pairs without closed form are credited on the (now independent) measurement alone
    "C08_measured_pairs"]]
LEVEL_TEXT = ("Lean theorems over the model of evaluate_clip / sound_event_detection hold for all inputs: evaluated clips = "
              "predictions whose clip id is annotated, in order; every annotated and predicted sound event (with or without "
              "geometry) is in exactly one match; the filtered->original index map is the order-preserving injection; a pair "
              "reports the geometric affinity and the probability of the annotation's class; unpaired events get affinity 0 "
              "and score 0; clip and overall scores are means. Two layers: (1) the matcher's answer as a parameter under the "
              "cover contract; (2) the matcher inside the model (closed-form compute_affinity for time stamps, intervals and "
              "boxes + _select_matches around the assignment solver's pairs), where the cover contract is a theorem and "
              "'paired only if the geometries overlap' is proved with overlap defined by end-point comparisons "
              "(C08_overlap_iff_affinity_pos, C08_geo_pairs_overlap). The same comparison, evaluated in Lean "
              "(judgePairs, C08_judge_sound) on the matches sound_event_detection really returned, judges every reported "
              "pair. For a pair of which one geometry has no closed form (points, lines, polygons with or without holes) the "
              "model reports exactly the affinity measured outside it, and pairs only where that measurement is positive "
              "(C08_measured_pairs); the measurement comes from an oracle that shares no code with the library. Tags travel as content (term with all its fields, value): the class indices are computed by the Lean "
              "model of the encoder (C19's `encode`, bridged to the first layer by C08_tags_bridge), and 'the score of a pair "
              "is the probability the prediction gives to the annotation's class' is proved in terms of tag equality only "
              "(C08_pair_score_is_class_probability: stored score of the last predicted tag equal to the annotation's first "
              "vocabulary tag, 1 - sum over the vocabulary when it has none) and evaluated in that form on every reported pair. "
              "Calls and histories: a call of the library (an evaluation, or a direct call of the matcher with its own "
              "buffers) is a value carrying content only (Detection.Call); callModel is its answer whatever was called before, "
              "and C08_history says that an implementation with arbitrary state agrees with it on every sequence of calls iff "
              "no reachable state changes any single answer; a class table shared by all encoders and a buffered-geometry memo "
              "that ignores the buffers are proved not history free (concrete two-call witnesses). The history operation runs "
              "sequences of calls in one process on shared identities and judges every step by callModel alone. "
              "Ties: the matcher's default buffers and the positional order of the parameters of the four anchored "
              "functions (tables; C08_positional_binding), symbolic traces of compute_affinity on two boxes, of "
              "compute_affinity_in_time and of evaluate_sound_event's score/affinity (all inputs), differential runs of "
              "sound_event_detection, evaluate_clip and iterate_over_valid_clips against both layers.")
LEVEL_NOTE = ("Trusted: Lean kernel; scipy's assignment (only its pairs enter the model; contract ValidAssignment evaluated "
              "on every answer; which overlapping pairs are chosen is C07's optimality, not pinned here); GEOS on "
              "rectangles (contract BoxExact, embodied in the trace stub); for geometry types without closed form "
              "(points, lines, polygons - holes included) the affinity is not a model value but a measurement by "
              "harness/c07_oracle.py, which imports nothing from soundevent: shapely shapes built from the coordinates (shell "
              "and holes of every polygon; the buffering recipe of the C11 model for point / line types), intersection over "
              "union, time extents when one side is time-only; compared within 2^-40, within 2^-20 where a GEOS-buffered "
              "outline takes part. "
              "Unmodelled: binary64 rounding of the means (dyadic scores: clip score is one correctly rounded division; "
              "overall score within 2^-40) and of the affinity (compared within 2^-40); scikit-learn behind the run-level "
              "metrics (C09). evaluate_clip's loop itself is tied by generator-bounded correspondence. Histories: the "
              "theorem quantifies over all states and all sequences of calls; which states the real code can reach is "
              "explored by generated sequences only (revisions of one kind at a time on the same live objects, each way of "
              "revising, random mixtures); geometry objects are only ever derived (model_copy), never assigned to, because "
              "the library documents them as immutable.")
TECHNIQUE = ("Lean 4 proof over a two-layer model (matcher as parameter under a proved-sufficient contract; matcher inside "
             "the model around the solver's pairs); table and symbolic-trace obligations regenerated from the source; "
             "end-to-end and per-clip differential correspondence, exhaustive small scopes; Lean-side judge of every "
             "reported pair by closed-form overlap, pairs without closed form by an affinity oracle that shares no code "
             "with the library; executable property monitor on the real results; sequences of "
             "calls in one process (reuse after in-place edits / model_copy / copy, other vocabularies, other buffers, "
             "poisoned and re-read results, argument snapshots) judged step by step by the pure model; failing inputs "
             "re-run in a new interpreter so that the first replay is self-contained")
RULE = ("sound_event_detection end to end (0-4 evaluated clips, 0-4 annotated and predicted events per clip, geometry "
        "present/absent, boxes on a grid identical / overlapping / touching / disjoint along one or both axes / far apart, "
        "time intervals, time stamps, points, lines and polygons on the same grid, vocabularies of 1-6 tags over the legacy "
        "pool (distinct values) or an adversarial pool (terms sharing label / name, differing in uri, definition or type "
        "only, the deprecated key= spelling, same value under different terms, equal content at several pool positions, "
        "near misses outside the vocabulary; always as new objects), detection confidences 0 / 1/4 / 1/2 / 1, clip-level "
        "tags, twin clips (same recording and time window, other uuid), "
        "dyadic or one-hot non-dyadic scores with sum <= 1), evaluate_clip on exhaustive small clips, clip pairing on all "
        "small id lists and one list of 1100 clips; construction / passing styles on a third of the random cases (positional "
        "and mixed calls, tuples, ints and numpy scalars, objects from model_validate(dict) / model_validate_json / "
        "model_copy (shallow, deep), subclass instances of geometries / clips / sound events, one shared object per "
        "distinct geometry or tag, a prediction carrying the uuid (and SoundEvent) of an annotation); boundaries: boxes and "
        "intervals that overlap an annotated one by 2^-20 .. 2^-40, touch it exactly, miss it by as much, or differ from it by "
        "as much, along time or frequency, at times up to 2^17 s and frequencies up to 2^20 Hz; decimal (non-dyadic) grids, "
        "coordinates handed to the model as the exact rationals of the floats: every [a, b] against [b, c] on k/10 (660 clips, "
        "interval / interval and interval / box: exactly touching, no shared time) and random time-only pairings touching, one "
        "or two ulps apart or over each other; buffered geometry types "
        "(time stamps, points, lines, multi points / lines / polygons) at dyadic offsets around twice the buffers; sizes: clips "
        "with 17, 260 and 33 x 32 (>= 1024 pairs) sound events on a lattice with several frequency rows; direct calls of "
        "the matcher with eight buffer settings (keyword, positional, defaults) and of its sibling entry point "
        "compute_affinity; Polygons and MultiPolygons with 1 and 2 holes (holes touching nothing; as first / second / "
        "only part of a MultiPolygon, next to a plain or a holed second polygon) against a counterpart inside a hole, equal "
        "to it, straddling its edge, covering it, covering the shell, over the material only, in the second hole, in the "
        "second polygon or far away - the counterpart as box, Polygon, part of a MultiPolygon, ring-shaped Polygon, "
        "TimeInterval, Point or LineString, holes on the annotated or the predicted side (402-clip sweep, random clips, "
        "through sound_event_detection, evaluate_clip and direct matcher calls), every pair judged by an affinity that "
        "is computed from the coordinates without the library; Tag / Term objects made in other ways, chosen independently "
        "for vocabulary, annotated and predicted tags: instances of Tag subclasses (no field of their own, a further "
        "field, the term as a field default), model_validate (term as dictionary / as object), model_copy (shallow, deep, "
        "update of the value), Term objects new per tag / one per term / borrowed from another vocabulary tag with an "
        "equal term, a Term subclass for all tags of a call (430-clip pairwise sweep on a scenario with two classes under "
        "equal, separately built terms; 20-30 % of the random cases and of the histories); histories (detection_history): 160 / 1600 "
        "sequences of 3-5 calls in one process - half of them directed (x, a neighbour of x of one kind on the same live "
        "objects revised one way, x again: kind in {other vocabulary, moved / added / removed / re-tagged / geometry-less sound "
        "event, direct matcher / compute_affinity call with other buffers} x way in {in place, model_copy(update), deep model_copy(update), "
        "copy.copy + assignment}), half random mixtures with fresh steps under stable uuids (revised content under the same "
        "uuid) - every step judged on its own by the model, arguments snapshotted around every call, returned evaluations "
        "poisoned in place and earlier live results read again after later calls; "
        "non-trivial = a result with at least one match; distinct = distinct (operation, input)")
TRUSTED = ["scipy.optimize.linear_sum_assignment behind match_geometries: contracts MatcherCover and ValidAssignment evaluated on every answer",
           "shapely/GEOS: exact on rectangles (trace stub); called directly by the harness on shapes built from the "
           "coordinates for points, lines and polygons",
           "harness: the content of a tag (every field of its term, its value) is read from the fields of an object built "
           "like the ones handed to the code; class indices and expected pair scores come from the Lean model of the "
           "encoder, never from the library's encoder",
           "harness: the pairs of the assignment solver are read from a second call of the real matcher on new objects "
           "(the solver's freedom; only positions, never affinities, enter the geometry layer)",
           "harness/c07_oracle.py (shared with C07, read only, no soundevent import): shapes and affinity of pairs without "
           "closed form, from the coordinates; neither the library's conversion to shapely nor its buffering nor its "
           "affinity is consulted for an expected value",
           "harness/c08_tagvariants.py: a Tag / Term object made another way (subclass instance, model_validate, model_copy, "
           "shared or borrowed Term object) is read back field by field and must carry the content of its descriptor before it "
           "is handed to the code (else the plain object is used and the fact tallied); the expected class of a tag comes "
           "from the Lean encoder model on that content",
           "triage: a failing input is run again by harness/c08_worker.py in a new interpreter and judged by the same "
           "monitor; this only orders the replays, it never removes a failure"]
ASSUMPTIONS = ["clip ids pairwise distinct within the prediction list and within the annotation list",
               "binary64 sums of the generated scores are exact (dyadic grids, or one non-dyadic float32 score per event)",
               "the predicted scores of one sound event over the vocabulary sum to at most 1",
               "the vocabulary is a list of pairwise different tags and the predicted tags of one sound event are pairwise "
               "different tags (difference = any field of the term or the value)"]
NOT_COMPARED = ["run-level metrics and per-match metric lists (property C09)", "order of the matches within a clip",
                "error messages, uuids",
                "which overlapping pairs the matcher chooses or leaves out on one call (C07's optimality); in a history the "
                "answer of a call must still be the answer for its content (the solver's pairs are taken from the same "
                "content on new objects)",
                "the library's own compute_affinity is no longer consulted as a second opinion on reported affinities "
                "(closed form in Lean within 2^-40, or the independent measurement of harness/c07_oracle.py: 2^-40, and "
                "2^-20 where the outline of a GEOS buffer takes part - that outline is not pinned by C08)",
                "whether a term held in an instance of a Term *subclass* is the same term as a plain Term with equal fields "
                "(pydantic's __eq__ says no today; C19's business): every generated call uses one Term class for all its tags, "
                "while the class of the Tag objects varies freely"]


# ---------------------------------------------------------------- geometry layer
CLOSED = {"BoundingBox", "TimeInterval", "TimeStamp"}           # prepared shape is an interval or a rectangle
_TIME = {"TimeInterval", "TimeStamp"}
_BUFFERED = {"TimeStamp", "Point", "MultiPoint", "LineString", "MultiLineString"}
_DEFAULT_BUFFERS = (0.01, 100.0)
_MEASURED = {}


_MODEL_MEMO = {}


def _model(ctx, op, args):
    """a request to the Lean model, remembered: the model's operations are functions of their arguments and the
    small clips of the grids repeat"""
    from ..core import jkey
    k = op + jkey(args)
    if k not in _MODEL_MEMO:
        if len(_MODEL_MEMO) > 50000:
            _MODEL_MEMO.clear()
        _MODEL_MEMO[k] = ctx.model(op, args)
    return copy.deepcopy(_MODEL_MEMO[k])


def _gtype(g):
    return g["type"] if isinstance(g, dict) else "BoundingBox"


def matcher_buffers():
    """the buffers `evaluate_clip` matches with: the defaults in the matcher's signature"""
    import inspect
    ps = inspect.signature(G._matcher()).parameters
    out = []
    for n in ("time_buffer", "freq_buffer"):
        p = ps.get(n)
        if p is None or isinstance(p.default, bool) or not isinstance(p.default, (int, float)):
            raise AttributeError(f"the matcher has no numeric default for `{n}`")
        out.append(float(p.default))
    return tuple(out)


def _buffers():
    try:
        return matcher_buffers()
    except Exception:  # noqa: BLE001 - reported once by the table obligation
        return _DEFAULT_BUFFERS


def _pair_tau(g1, g2):
    """tolerance of a measured affinity: 2^-40, 2^-20 when a GEOS-buffered shape (point / line types) takes part
    (the exact outline of such a buffer is not something C08 pins)"""
    return O7.pair_tau(G.geom_json(g1), G.geom_json(g2))


def measured_affinity(g1, g2, tb, fb):
    """the geometric affinity of a pair without closed form, stated independently of the code under test
    (HISTORIES.md section 5): `harness/c07_oracle.py` builds the shapely shapes from the *coordinates* (shell and
    holes of every polygon, the C11 recipe for the buffered point / line types) and measures intersection over union
    (time extents when one side is time-only).  Nothing of `soundevent` is involved: neither its conversion to
    shapely nor its buffering nor its affinity.  Exact rational of the measured float."""
    key = (G.gkey(g1), G.gkey(g2), tb, fb)
    if key in _MEASURED:
        return _MEASURED[key]
    v = Fraction(float(O7._geos_affinity(G.geom_json(g1), G.geom_json(g2), float(tb), float(fb))))
    if len(_MEASURED) > 20000:
        _MEASURED.clear()
    _MEASURED[key] = v
    return v


def _aff_eq(impl, want, g1, g2):
    """reported affinity against the expected one (a Fraction), under the tolerance of the pair"""
    if impl in (None, "nan"):
        return False
    tau = _pair_tau(g1, g2)
    if tau <= O7.TAU_TIGHT:
        return G.num_eq(impl, rat(want), "tolerance")
    return abs(frac(impl) - want) <= tau


def _no_overlap(reported, want, g1, g2):
    """a reported pair whose independent affinity is not positive: a violation, unless a GEOS-buffered outline takes
    part and the reported affinity is itself below the tolerance of such a pair (a sliver of the buffer's outline)"""
    if want > 0:
        return False
    tau = _pair_tau(g1, g2)
    if tau > O7.TAU_TIGHT and reported not in (None, "nan") and abs(frac(reported)) <= tau:
        return False
    return True


def _tagreq(inp):
    """the tag side of every model request: the pool as tag *contents* (read from the fields of the objects handed
    to the code) and the vocabulary as pool positions; the class indices are computed by the Lean model of the
    encoder, never by the library's"""
    return {"pool": TP.model_pool(inp), "vocab": list(inp["vocab"])}


def _mtags(e, pred):
    """tags of a sound event for the model: pool positions; a predicted score as the float32 value stored"""
    return [[t, G.f32(s)] for t, s in e["tags"]] if pred else list(e["tags"])


def _mev(e, pred):
    return {"id": e["id"], "geom": e["geom"] is not None, "tags": _mtags(e, pred)}


def _both_closed(g1, g2):
    return _gtype(g1) in CLOSED and _gtype(g2) in CLOSED


def _to_model_geo(inp):
    """request of `detection_geo`: geometries, the pairs the real matcher chose (the assignment solver's
    freedom), measured affinities for pairs without closed form"""
    tb, fb = _buffers()
    ann_by = {}
    for c in inp["annotations"]:
        ann_by[c["clip"]] = c

    def ev(e, pred):
        return {"id": e["id"], "geom": G.geom_json(e["geom"]), "tags": _mtags(e, pred)}
    preds = []
    for c in inp["predictions"]:
        evs = c.get("events", [])
        pc = {"clip": c["clip"], "events": [ev(e, True) for e in evs]}
        a = ann_by.get(c["clip"])
        if a is not None:
            aevs = a.get("events", [])
            pc["pairs"] = [[s, t] for s, t, _ in G.matcher_answer(evs, aevs) if s is not None and t is not None]
            sg = [e["geom"] for e in evs if e["geom"] is not None]
            tg = [e["geom"] for e in aevs if e["geom"] is not None]
            pc["measured"] = [["0" if _both_closed(g1, g2) else rat(measured_affinity(g1, g2, tb, fb)) for g2 in tg]
                              for g1 in sg]
        preds.append(pc)
    anns = [{"clip": c["clip"], "events": [ev(e, False) for e in c.get("events", [])]} for c in inp["annotations"]]
    return {**_tagreq(inp), "tb": rat(tb), "fb": rat(fb), "predictions": preds, "annotations": anns}


def _compare_geo(inp, io, mo):
    if "raise" in io or "raise" in mo:
        a = {k: v for k, v in io.items() if k != "trace"}
        return None if a == mo else f"implementation {a} but model {mo}"
    d = G.evaluation_diff(io["val"], mo["val"], score_mode="tolerance", clip_score_mode="round-once", metrics=False,
                          affinity=False)
    return d or _affinity_diff(inp, io["val"], mo["val"])


def _affinity_diff(inp, a, b):
    """reported affinities against the model's (closed form, or the independent measurement it was handed), each pair
    under its own tolerance; called when the two evaluations pair the same sound events"""
    pred_by, ann_by = {}, {}
    for c in inp["predictions"]:
        pred_by.setdefault(c["clip"], c)
    for c in inp["annotations"]:
        ann_by.setdefault(c["clip"], c)
    for ca, cb in zip(a["clips"], b["clips"]):
        pe = (pred_by.get(ca["clip"]) or {}).get("events", [])
        ae = (ann_by.get(ca["clip"]) or {}).get("events", [])
        for x, y in zip(sorted(ca["matches"], key=G.match_key), sorted(cb["matches"], key=G.match_key)):
            i, j = x["src"], x["tgt"]
            ok = None
            if isinstance(i, int) and isinstance(j, int) and i < len(pe) and j < len(ae) and pe[i]["geom"] is not None \
                    and ae[j]["geom"] is not None and y["affinity"] not in (None, "nan"):
                ok = _aff_eq(x["affinity"], frac(y["affinity"]), pe[i]["geom"], ae[j]["geom"])
            if ok is None:
                ok = G.num_eq(x["affinity"], y["affinity"], "tolerance")
            if not ok:
                return (f"match affinity is not the geometric affinity (intersection over union) of the paired sound "
                        f"events: {G._fl(x['affinity'])} instead of {G._fl(y['affinity'])} (clip {ca['clip']} match {G.match_key(x)})")
    return None


def _gshow(g):
    """coordinates for a message: short rationals as they are, long ones (exact values of decimal floats) as floats"""
    def show(x):
        if isinstance(x, (list, tuple)):
            return [show(v) for v in x]
        return x if len(str(x)) <= 12 else repr(float(frac(x)))
    return show(g["coordinates"] if isinstance(g, dict) else g)


def _judge_clip(ctx, clip, pe, ae, matches):
    """'a prediction is paired with an annotation only if their geometries overlap', decided without the
    library's affinity: end-point comparisons in Lean (C08_judge_sound) where a closed form exists, a direct
    shapely measurement otherwise; then the reported affinity against the closed form"""
    two = [(x["src"], x["tgt"]) for x in matches if x["src"] is not None and x["tgt"] is not None]
    if not two:
        return None
    tb, fb = _buffers()
    out = _model(ctx, "judge_pairs", {"tb": rat(tb), "pred_geoms": [G.geom_json(e["geom"]) for e in pe],
                                     "ann_geoms": [G.geom_json(e["geom"]) for e in ae],
                                     "matches": [[x["src"], x["tgt"]] for x in matches]})
    verdict = {(i, j): v for i, j, v in out["pairs"]}
    for x in matches:
        i, j = x["src"], x["tgt"]
        if i is None or j is None:
            continue
        v = verdict.get((i, j), "no-geometry")
        if v == "no-geometry":
            return f"a sound event without geometry is paired (clip {clip} match {(i, j)})"
        g1, g2 = pe[i]["geom"], ae[j]["geom"]
        if v == "disjoint":
            return (f"paired sound events do not overlap: {_gtype(g1)} {_gshow(g1)} and {_gtype(g2)} {_gshow(g2)} share no "
                    f"time-frequency region (clip {clip} match {(i, j)}, reported affinity {G._fl(x['affinity'])})")
        if v == "overlap":
            want = frac(_model(ctx, "affinity_cf", {"tb": rat(tb), "fb": rat(fb), "g1": G.geom_json(g1),
                                                  "g2": G.geom_json(g2)})["affinity"])
        else:   # no closed form: the monitored contract
            want = measured_affinity(g1, g2, tb, fb)
            ctx.tally("judge:independent-measurement")
            if _no_overlap(x["affinity"], want, g1, g2):
                return (f"paired sound events do not overlap: {_gtype(g1)} {_gshow(g1)} and {_gtype(g2)} {_gshow(g2)} have an "
                        f"empty intersection (clip {clip} match {(i, j)}, reported affinity {G._fl(x['affinity'])})")
        if not _aff_eq(x["affinity"], want, g1, g2):
            return (f"match affinity is not the geometric affinity of the pair: {G._fl(x['affinity'])} instead of "
                    f"{float(want)} (clip {clip} match {(i, j)})")
    if not out["ok"]:
        return f"paired sound events do not overlap (clip {clip})"
    return None


# ---------------------------------------------------------------- detection end to end
def _positions(events, what):
    """uuid -> position in the list handed to the code (the *input*, not what the result carries around)"""
    out = {}
    for i, e in enumerate(events):
        out.setdefault(e.uuid, i)
    return out


def _canon_matches(matches, pidx, aidx, metrics=False):
    ms = []
    for m in matches:
        x = {"src": None if m.source is None else pidx.get(m.source.uuid, "foreign"),
             "tgt": None if m.target is None else aidx.get(m.target.uuid, "foreign"),
             "affinity": G._num(m.affinity), "score": G._num(m.score)}
        if metrics:
            x["metrics"] = G._features(m.metrics)
        ms.append(x)
    return ms


def _canon_detection(inp, pos, ev):
    """an Evaluation as the property reads it; matches are located in the clips that were handed in (`pos`: uuid ->
    position per side and clip, frozen when the arguments were built)"""
    clip_ids = {c.uuid: i for i, c in G._base()["clips"].items()}
    clips = []
    for ce in ev.clip_evaluations:
        cid = clip_ids.get(ce.annotations.clip.uuid, "foreign")
        pcid = clip_ids.get(ce.predictions.clip.uuid, "foreign")
        clips.append({"clip": cid, "pclip": pcid, "metrics": G._features(ce.metrics), "score": G._num(ce.score),
                      "matches": _canon_matches(ce.matches, pos["p"].get(pcid, {}), pos["a"].get(cid, {}), metrics=True)})
    return {"val": {"task": ev.evaluation_task, "metrics": G._features(ev.metrics), "score": G._num(ev.score),
                    "clips": clips}}


def _impl_detection(inp):
    """`sound_event_detection` end to end; with `inp["style"]` the arguments are built and passed in one of the
    other legitimate ways (harness/c08_live.py)"""
    if inp.get("style") or inp.get("tagstyle"):
        args = L.build(inp)
        return _canon_detection(inp, args["pos"], L.call_detection(args))
    preds, anns, tags = G.build(inp)
    with warnings.catch_warnings():
        warnings.simplefilter("ignore")
        ev = G.task_fn("sound_event_detection")(clip_predictions=preds, clip_annotations=anns, tags=tags)
    return _canon_detection(inp, L.positions(inp, preds, anns), ev)


def _to_model_detection(inp):
    ann_by = {}
    for c in inp["annotations"]:
        ann_by[c["clip"]] = c
    preds = []
    for c in inp["predictions"]:
        pc = {"clip": c["clip"], "events": [_mev(e, True) for e in c.get("events", [])]}
        a = ann_by.get(c["clip"])
        if a is not None:
            pc["matcher"] = G.matcher_answer(c.get("events", []), a.get("events", []))
        preds.append(pc)
    anns = [{"clip": c["clip"], "events": [_mev(e, False) for e in c.get("events", [])]} for c in inp["annotations"]]
    return {**_tagreq(inp), "predictions": preds, "annotations": anns}


def _compare_detection(inp, io, mo):
    if "raise" in io or "raise" in mo:
        a = {k: v for k, v in io.items() if k != "trace"}
        return None if a == mo else f"implementation {a} but model {mo}"
    return G.evaluation_diff(io["val"], mo["val"], score_mode="tolerance", clip_score_mode="round-once", metrics=False)


def all_unlabelled(inp):
    pool = TP.descriptors(inp)
    classes = {TP.ckey(pool[t]) for t in inp["vocab"]}
    annotated = {c["clip"]: c for c in inp["annotations"]}
    n = 0
    for c in inp["predictions"]:
        a = annotated.get(c["clip"])
        if a is None:
            continue
        n += len(c.get("events", [])) + len(a.get("events", []))
        for e in a.get("events", []):
            if any(TP.ckey(pool[t]) in classes for t in e["tags"]):
                return False
    return n > 0


def _pair_scores(ctx, inp, pairs):
    """'the probability the prediction gives to the annotation's class' for (annotated event, predicted event)
    pairs: `pairScoreSpec` of the Lean model (tag equality only; C08_pair_score_is_class_probability)"""
    if not pairs:
        return []
    out = ctx.model("pair_score", {**_tagreq(inp), "pairs": [{"ann": _mtags(a, False), "pred": _mtags(p, True)}
                                                              for a, p in pairs]})
    return [frac(x["score"]) for x in out]


def _foreign(matches, clip):
    for x in matches:
        if x["src"] == "foreign" or x["tgt"] == "foreign":
            return f"a match names a sound event that is not in the clip that was evaluated (clip {clip})"
    return None


def _holds_detection(ctx, inp, io):
    try:
        return _holds_detection_inner(ctx, inp, io)
    except leanio.InfraError:
        raise
    except Exception as e:  # noqa: BLE001
        return f"property monitor could not be evaluated on the result: {type(e).__name__}: {str(e)[:200]}"


def _holds_detection_inner(ctx, inp, io):
    """the statement of C08 evaluated on what sound_event_detection really returned"""
    if "raise" in io:
        return f"sound_event_detection raised ({io['raise']})"
    ev = io["val"]
    annotated = {c["clip"]: c for c in inp["annotations"]}
    expected = [c["clip"] for c in inp["predictions"] if c["clip"] in annotated]
    if [c["clip"] for c in ev["clips"]] != expected:
        return f"evaluated clips are not the predicted clips that are annotated: {[c['clip'] for c in ev['clips']]} instead of {expected}"
    pred_by = {c["clip"]: c for c in inp["predictions"]}
    clip_scores = []
    # the expected score of every reported pair, in one request to the model
    allp = []
    for c in ev["clips"]:
        if c["pclip"] != c["clip"] or _foreign(c["matches"], c["clip"]):
            continue
        pe, ae = pred_by[c["clip"]].get("events", []), annotated[c["clip"]].get("events", [])
        allp += [(c["clip"], x["src"], x["tgt"], ae[x["tgt"]], pe[x["src"]]) for x in c["matches"]
                 if x["src"] is not None and x["tgt"] is not None]
    wants = dict(zip(((k, i, j) for k, i, j, _, _ in allp), _pair_scores(ctx, inp, [(a, p) for _, _, _, a, p in allp])))
    for c in ev["clips"]:
        if c["pclip"] != c["clip"]:
            return f"clip evaluation pairs annotations and predictions of different clips (clip {c['clip']})"
        pe = pred_by[c["clip"]].get("events", [])
        ae = annotated[c["clip"]].get("events", [])
        msg = _foreign(c["matches"], c["clip"])
        if msg:
            return msg
        # the monitored contract of the matcher on this clip's filtered lists
        m = G.matcher_answer(pe, ae)
        ok = _model(ctx, "matcher_cover", {"n": sum(1 for e in pe if e["geom"] is not None),
                                         "m": sum(1 for e in ae if e["geom"] is not None), "matcher": m})
        ctx.contract("MatcherCover", ok, inp, m, "match_geometries does not cover its inputs exactly once "
                                                 "with affinities in [0,1] (0 on one-sided entries)")
        # the only part of the matcher that stays a parameter of the geometry layer: the solver's pairs
        ng, mg = sum(1 for e in pe if e["geom"] is not None), sum(1 for e in ae if e["geom"] is not None)
        pairs = [[s, t] for s, t, _ in m if s is not None and t is not None]
        ctx.contract("ValidAssignment", _model(ctx, "valid_assignment", {"n": ng, "m": mg, "pairs": pairs}), inp, pairs,
                     "the pairs chosen by the matcher are not a partial injection of the source into the target positions")
        msg = _judge_clip(ctx, c["clip"], pe, ae, c["matches"])
        if msg:
            return msg
        # "every annotated and every predicted sound event appears in exactly one match", through the
        # Lean-side statement whose meaning is fixed by C08_holds_cover_sound
        if not _model(ctx, "holds_cover", {"n_pred": len(pe), "n_ann": len(ae),
                                         "matches": [[x["src"], x["tgt"]] for x in c["matches"]]}):
            srcs = sorted(x["src"] for x in c["matches"] if x["src"] is not None)
            tgts = sorted(x["tgt"] for x in c["matches"] if x["tgt"] is not None)
            return (f"sound events are not each in exactly one match: sources {srcs} of {len(pe)}, "
                    f"targets {tgts} of {len(ae)} (clip {c['clip']})")
        scores = []
        for x in c["matches"]:
            if x["src"] is None and x["tgt"] is None:
                return f"a match without sound events (clip {c['clip']})"
            aff = frac(x["affinity"])
            sc = frac(x["score"]) if x["score"] is not None else None
            scores.append(sc)
            if x["src"] is not None and x["tgt"] is not None:
                p, a = pe[x["src"]], ae[x["tgt"]]
                if p["geom"] is None or a["geom"] is None:
                    return f"a sound event without geometry is paired (clip {c['clip']} match {(x['src'], x['tgt'])})"
                if not aff > 0:
                    return f"paired sound events with affinity {float(aff)} (clip {c['clip']} match {(x['src'], x['tgt'])})"
                want = wants[(c["clip"], x["src"], x["tgt"])]
                if sc != want:
                    return f"match score is not the probability of the annotation's class: {sc} instead of {want} (clip {c['clip']} match {(x['src'], x['tgt'])})"
            else:
                if aff != 0 or sc != 0:
                    return f"unpaired sound event with affinity {float(aff)} and score {sc} (clip {c['clip']})"
        want = Fraction(0) if not scores else sum(scores) / len(scores)
        if c["score"] in (None, "nan") or not G.num_eq(c["score"], rat(want), "round-once"):
            return f"clip score is not the mean of its match scores: {c['score']} instead of {float(want)} (clip {c['clip']})"
        clip_scores.append(frac(c["score"]))
    want = Fraction(0) if not clip_scores else sum(clip_scores) / len(clip_scores)
    if ev["score"] in (None, "nan") or not G.num_eq(ev["score"], rat(want), "tolerance"):
        return f"evaluation score is not the mean of the clip scores: {ev['score']} instead of {float(want)}"
    return None


def _nontrivial(inp, out):
    return "val" in out and any(c["matches"] for c in out["val"]["clips"])


# ---------------------------------------------------------------- evaluate_clip on one clip
def _impl_eval_clip(inp):
    import importlib
    D = importlib.import_module("soundevent.evaluation.tasks.sound_event_detection")
    from soundevent.evaluation.encoding import create_tag_encoder
    full = {"task": "sound_event_detection", "vocab": inp["vocab"], "tagpool": inp.get("tagpool"),
            "tagstyle": inp.get("tagstyle"),
            "predictions": [{"clip": 0, "events": inp["preds"]}], "annotations": [{"clip": 0, "events": inp["anns"]}]}
    style = inp.get("style") or {}
    if style or inp.get("tagstyle"):
        args = L.build(full, style)
        preds, anns, tags = args["preds"], args["anns"], args["tags"]
    else:
        preds, anns, tags = G.build(full)
    with warnings.catch_warnings():
        warnings.simplefilter("ignore")
        if style.get("call") == "pos":
            ys, rows, ce = D.evaluate_clip(anns[0], preds[0], create_tag_encoder(tags))
        else:
            ys, rows, ce = D.evaluate_clip(clip_annotations=anns[0], clip_predictions=preds[0], encoder=create_tag_encoder(tags))
    pidx = _positions(preds[0].sound_events, "p")
    aidx = _positions(anns[0].sound_events, "a")
    entries = []
    if not (len(ys) == len(rows) == len(ce.matches)):
        return {"val": {"entries": "length mismatch", "score": None}}
    for y, row, x in zip(ys, rows, _canon_matches(ce.matches, pidx, aidx)):
        x["y"] = None if y is None else int(y)
        x["row"] = [G._num(v) for v in np.asarray(row).tolist()]
        entries.append(x)
    if any(x["src"] == "foreign" or x["tgt"] == "foreign" for x in entries):
        return {"val": {"entries": "foreign", "score": None}}
    return {"val": {"entries": sorted(entries, key=G.match_key), "score": G._num(ce.score)}}


def _to_model_eval_clip(inp):
    return {**_tagreq(inp), "preds": [_mev(e, True) for e in inp["preds"]], "anns": [_mev(e, False) for e in inp["anns"]],
            "matcher": G.matcher_answer(inp["preds"], inp["anns"])}


def _compare_eval_clip(inp, io, mo):
    if "raise" in io or "raise" in mo:
        a = {k: v for k, v in io.items() if k != "trace"}
        return None if a == mo else f"implementation {a} but model {mo}"
    a, b = io["val"], mo["val"]
    if a["entries"] == "foreign":
        return "a match names a sound event that is not in the clip that was evaluated"
    if not isinstance(a["entries"], list):
        return "evaluate_clip returns lists of different lengths"
    be = sorted(b["entries"], key=G.match_key)
    if [G.match_key(x) for x in a["entries"]] != [G.match_key(x) for x in be]:
        return (f"matches do not pair the sound events as expected: {[G.match_key(x) for x in a['entries']]} instead of "
                f"{[G.match_key(x) for x in be]}")
    for x, y in zip(a["entries"], be):
        k = G.match_key(x)
        if not G.num_eq(x["affinity"], y["affinity"], "exact"):
            return f"match affinity is not the one the matcher reported: {G._fl(x['affinity'])} instead of {G._fl(y['affinity'])} (match {k})"
        if not G.num_eq(x["score"], y["score"], "exact"):
            return f"match score is not the probability of the true class: {G._fl(x['score'])} instead of {G._fl(y['score'])} (match {k})"
        if x["y"] != y["y"]:
            return f"true class handed to the metrics is {x['y']} instead of {y['y']} (match {k})"
        if len(x["row"]) != len(y["row"]) or any(not G.num_eq(p, q, "exact") for p, q in zip(x["row"], y["row"])):
            return f"score row handed to the metrics differs from the prediction's encoded scores (match {k})"
    if not G.num_eq(a["score"], b["score"], "round-once"):
        return f"clip score is not the mean of its match scores: {G._fl(a['score'])} instead of {G._fl(b['score'])}"
    return None


def _holds_eval_clip(ctx, inp, io):
    if "raise" in io:
        return f"evaluate_clip raised ({io['raise']})"
    try:
        if isinstance(io["val"]["entries"], list):
            es = io["val"]["entries"]
            msg = _judge_clip(ctx, 0, inp["preds"], inp["anns"], es)
            if msg:
                return msg
            two = [x for x in es if x["src"] is not None and x["tgt"] is not None]
            wants = _pair_scores(ctx, inp, [(inp["anns"][x["tgt"]], inp["preds"][x["src"]]) for x in two])
            for x, want in zip(two, wants):
                if x["score"] in (None, "nan") or frac(x["score"]) != want:
                    return (f"match score is not the probability of the annotation's class: {G._fl(x['score'])} instead of "
                            f"{float(want)} (match {(x['src'], x['tgt'])})")
    except leanio.InfraError:
        raise
    except Exception as e:  # noqa: BLE001
        return f"property monitor could not be evaluated on the result: {type(e).__name__}: {str(e)[:200]}"
    return None


# ---------------------------------------------------------------- clip pairing
def _impl_pair_clips(inp):
    from soundevent import data
    from soundevent.evaluation.tasks.common import iterate_over_valid_clips
    style = inp.get("style") or {}
    cp, ca = data.ClipPrediction, data.ClipAnnotation
    if style.get("sub"):
        cp, ca = L._subclass(cp), L._subclass(ca)
    preds = [cp(clip=G.clip(i)) for i in inp["predictions"]]
    anns = [ca(clip=G.clip(i)) for i in inp["annotations"]]
    ids = {c.uuid: i for i, c in G._base()["clips"].items()}
    pin, ain = (tuple(preds), tuple(anns)) if style.get("seq") == "tuple" else (preds, anns)
    if style.get("call") == "pos":
        it = iterate_over_valid_clips(pin, ain)
    else:
        it = iterate_over_valid_clips(clip_predictions=pin, clip_annotations=ain)
    out = []
    for a, p in it:
        if a.clip.uuid != p.clip.uuid:
            return {"val": "pair of different clips"}
        if not any(a is x for x in anns) or not any(p is x for x in preds):
            return {"val": "pair with an object that is not in the input"}
        out.append(ids[p.clip.uuid])
    if len(pin) != len(preds) or len(ain) != len(anns) or any(x is not y for x, y in zip(pin, preds)):
        return {"val": "the input lists were changed"}
    return {"val": out}


# ---------------------------------------------------------------- direct calls of the matcher (other buffers)
_MATCH_CALLS = {}


def _match_buffers(inp):
    tb0, fb0 = _buffers()
    return (float(frac(inp["tb"])) if inp.get("tb") is not None else tb0,
            float(frac(inp["fb"])) if inp.get("fb") is not None else fb0)


def _impl_match(inp):
    return L.canon_match(L.call_match(L.build_match(inp)))


def _match_again(inp):
    """the matcher once more on new objects with the same buffers: only the pairs are used (the solver's freedom)"""
    tb, fb = _match_buffers(inp)
    key = (tuple(G.gkey(g) for g in inp["src"]), tuple(G.gkey(g) for g in inp["tgt"]), tb, fb)
    if key not in _MATCH_CALLS:
        if len(_MATCH_CALLS) > 5000:
            _MATCH_CALLS.clear()
        out = L.canon_match(L.call_match(L.build_match({"src": inp["src"], "tgt": inp["tgt"], "tb": rat(Fraction(tb)),
                                                         "fb": rat(Fraction(fb))})))["val"]
        _MATCH_CALLS[key] = [[s, t] for s, t, _ in out if s is not None and t is not None]
    return copy.deepcopy(_MATCH_CALLS[key])


def _to_model_match(inp):
    tb0, fb0 = _buffers()
    tb, fb = _match_buffers(inp)
    measured = [["0" if _both_closed(g1, g2) else rat(measured_affinity(g1, g2, tb, fb)) for g2 in inp["tgt"]]
                for g1 in inp["src"]]
    return {"call": "match", "tb0": rat(tb0), "fb0": rat(fb0), "tb": rat(Fraction(tb)), "fb": rat(Fraction(fb)),
            "src": [G.geom_json(g) for g in inp["src"]], "tgt": [G.geom_json(g) for g in inp["tgt"]],
            "pairs": _match_again(inp), "measured": measured}


def _mkey(e):
    return (-1 if e[0] is None else e[0], -1 if e[1] is None else e[1])


def _compare_match(inp, io, mo):
    if "raise" in io or "raise" in mo:
        a = {k: v for k, v in io.items() if k != "trace"}
        return None if a == mo else f"implementation {a} but model {mo}"
    a, b = sorted(io["val"], key=_mkey), sorted(mo["val"], key=_mkey)
    if [_mkey(e) for e in a] != [_mkey(e) for e in b]:
        return f"the matcher pairs {[_mkey(e) for e in a]} instead of {[_mkey(e) for e in b]}"
    for x, y in zip(a, b):
        if x[0] is not None and x[1] is not None and x[0] < len(inp["src"]) and x[1] < len(inp["tgt"]) and y[2] not in (None, "nan"):
            ok = _aff_eq(x[2], frac(y[2]), inp["src"][x[0]], inp["tgt"][x[1]])
        else:
            ok = G.num_eq(x[2], y[2], "tolerance")
        if not ok:
            return (f"match affinity is not the geometric affinity of the pair under the buffers of the call: "
                    f"{G._fl(x[2])} instead of {G._fl(y[2])} (match {_mkey(x)})")
    return None


def _holds_match(ctx, inp, io):
    """a direct call of the matcher: covers both lists once; pairs only what overlaps under the buffers *of this
    call* (end-point comparisons in Lean where a closed form exists, a shapely measurement otherwise)"""
    if "raise" in io:
        return f"match_geometries raised ({io['raise']})"
    try:
        tb, fb = _match_buffers(inp)
        ms = io["val"]
        if not _model(ctx, "matcher_cover", {"n": len(inp["src"]), "m": len(inp["tgt"]), "matcher": ms}):
            return "match_geometries does not cover its inputs exactly once with affinities in [0,1] (0 on one-sided entries)"
        out = _model(ctx, "judge_pairs", {"tb": rat(Fraction(tb)), "pred_geoms": [G.geom_json(g) for g in inp["src"]],
                                         "ann_geoms": [G.geom_json(g) for g in inp["tgt"]],
                                         "matches": [[s, t] for s, t, _ in ms]})
        reported = {(s_, t_): a_ for s_, t_, a_ in ms}
        for i, j, v in out["pairs"]:
            g1, g2 = inp["src"][i], inp["tgt"][j]
            if v == "disjoint":
                return (f"paired geometries do not overlap under time_buffer={tb}: {_gtype(g1)} and {_gtype(g2)} "
                        f"(match {(i, j)})")
            if v == "unknown" and _no_overlap(reported.get((i, j)), measured_affinity(g1, g2, tb, fb), g1, g2):
                return (f"paired geometries do not overlap: {_gtype(g1)} {_gshow(g1)} and {_gtype(g2)} {_gshow(g2)} have an "
                        f"empty intersection (match {(i, j)})")
    except leanio.InfraError:
        raise
    except Exception as e:  # noqa: BLE001
        return f"property monitor could not be evaluated on the result: {type(e).__name__}: {str(e)[:200]}"
    return None


# ---------------------------------------------------------------- one call of a history (Lean: Detection.Call)
def _is_match(inp):
    return inp.get("kind") == "match"


def _call_to_model(inp):
    if _is_match(inp):
        return _to_model_match(inp)
    tb0, fb0 = _buffers()
    return {**_to_model_geo(inp), "call": "evaluate", "tb0": rat(tb0), "fb0": rat(fb0)}


def _call_holds(ctx, inp, io):
    if _is_match(inp):
        return _holds_match(ctx, inp, io)
    if isinstance(io, dict) and io.get("raise") == "invalid" and all_unlabelled(inp):
        return None        # known finding C08-K1 (no labelled truth: ValueError); the model must raise as well (compare)
    return _holds_detection(ctx, inp, io)


_CALL = Op("call", None, to_model=_call_to_model, model_op="call", mode="tolerance", holds=_call_holds,
           compare=lambda inp, io, mo: _compare_match(inp, io, mo) if _is_match(inp) else _compare_geo(inp, io, mo))


def _h_build(inp):
    if _is_match(inp):
        return L.build_match(inp)
    return L.build(inp, style={**(inp.get("style") or {}), "uuids": "stable"})


def _h_call(args):
    return L.call_match(args) if args["kind"] == "match" else L.call_detection(args)


def _h_canon(inp, args, res):
    return L.canon_match(res) if args["kind"] == "match" else _canon_detection(inp, args["pos"], res)


def _h_poison(res):
    if isinstance(res, list):          # the list of a direct matcher call: the caller's own
        res.append((0, 0, 0.5))
        res.reverse()
        return True
    return L.poison(res)


def _h_nontrivial(h, out):
    return isinstance(out, dict) and any(isinstance(o, dict) and "val" in o and
                                         (not isinstance(o["val"], dict) or any(c["matches"] for c in o["val"]["clips"]))
                                         for o in out.get("steps", []))


OPS = {
    "detection": Op("detection", _impl_detection, to_model=_to_model_detection, compare=_compare_detection,
                    holds=_holds_detection, nontrivial=_nontrivial, mode="round-once"),
    "detection_geo": Op("detection_geo", _impl_detection, to_model=_to_model_geo, compare=_compare_geo,
                        holds=_holds_detection, nontrivial=_nontrivial, mode="tolerance"),
    "eval_clip": Op("eval_clip", _impl_eval_clip, to_model=_to_model_eval_clip, compare=_compare_eval_clip,
                    holds=_holds_eval_clip, mode="round-once"),
    "pair_clips": Op("pair_clips", _impl_pair_clips, compare=lambda inp, io, mo: None if io == {"val": mo} else
                     f"evaluated clips {io} instead of {mo}", mode="exact"),
    "match_call": Op("match_call", _impl_match, to_model=_to_model_match, compare=_compare_match, holds=_holds_match,
                     model_op="call", mode="tolerance",
                     nontrivial=lambda inp, out: "val" in out and any(s is not None and t is not None for s, t, _ in out["val"])),
    # sequences of calls in one process on shared identities (HISTORIES.md; Lean: C08_history)
    "detection_history": history.history_op("detection_history", _CALL, _h_build, _h_call, _h_canon,
                                            snapshot=L.snapshot, modify=L.retarget, poison=_h_poison,
                                            nontrivial=_h_nontrivial),
}


# ---------------------------------------------------------------- generators
def _distinct_predicted(pool, clips):
    """the predicted tags of one sound event are pairwise different tags (where two of them are the same tag
    with different scores the property does not say which score is 'the' probability)"""
    for c in clips:
        for e in c.get("events", []):
            seen, keep = set(), []
            for t, sc in e["tags"]:
                k = TP.ckey(pool[t])
                if k not in seen:
                    seen.add(k)
                    keep.append([t, sc])
            e["tags"] = keep


def _decorate(rng, inp):
    """what the property does not mention must not matter: the detection confidence of a predicted sound event
    (`SoundEventPrediction.score`: 0, 1/4, 1/2 or 1) and clip-level tags on either side"""
    ids = list(range(len(TP.descriptors(inp))))
    for c in inp["predictions"]:
        for e in c.get("events", []):
            if rng.random() < 0.5:
                e["conf"] = rng.choice(["0", "1/4", "1/2", "1"])
        if rng.random() < 0.25:
            c["tags"] = G.single_label_scores(rng, ids)
    for c in inp["annotations"]:
        if rng.random() < 0.25:
            c["tags"] = G.true_tags(rng, ids)
    return inp


def _pooled(rng, make, lo=1, hi=5):
    """an evalgen detection input over the legacy pool (30 %), an adversarial tag pool, or the three-taxa pool"""
    return _decorate(rng, _pooled_plain(rng, make, lo, hi))


def _pooled_plain(rng, make, lo, hi):
    r = rng.random()
    if r < 0.3:
        return make(G.gen_vocab(rng, lo, hi))
    if r < 0.45:
        pool = [dict(d) for d in TP.TAXA]
        vocab = [0, 1, 2] + rng.sample([3, 4, 5, 7], rng.choice([0, 0, 1, 2]))
        rng.shuffle(vocab)
    else:
        pool = TP.gen_pool(rng)
        vocab = G.gen_vocab(rng, lo, hi + 1)
    inp = make(TP.dedupe_ids(pool, vocab))
    inp["tagpool"] = pool
    _distinct_predicted(pool, inp["predictions"])
    return inp


def _tag_tallies(ctx, inp):
    if inp.get("tagpool") is None:
        ctx.tally("tags:pool=legacy")
        return
    ctx.tally("tags:pool=adversarial")
    pool = [TP.content(d) for d in inp["tagpool"]]
    lv = lambda t: (t["term"]["label"], t["value"])  # noqa: E731
    nv = lambda t: (t["term"]["name"], t["value"])  # noqa: E731
    voc = [pool[t] for t in inp["vocab"]]
    vkeys = {TP.jkey(t) for t in voc}
    if len({lv(t) for t in voc}) < len(voc):
        ctx.tally("tags:vocabulary-classes-share-label-and-value")
    if len({nv(t) for t in voc}) < len(voc):
        ctx.tally("tags:vocabulary-classes-share-name-and-value")
    used = [pool[t] for side in ("annotations", "predictions") for c in inp.get(side, []) for e in c.get("events", [])
            for t in (x[0] if isinstance(x, list) else x for x in e["tags"])]
    if any(TP.jkey(t) not in vkeys and (lv(t) in {lv(v) for v in voc} or nv(t) in {nv(v) for v in voc}) for t in used):
        ctx.tally("tags:near-miss-outside-vocabulary")


def gen_detection(rng):
    inp = _pooled(rng, lambda vocab: G.gen_detection(rng, n_clips=rng.choice([0, 1, 1, 2, 3, 4]), vocab=vocab))
    r = rng.random()
    if r < 0.03:
        inp["predictions"] = []
    elif r < 0.06:
        inp["annotations"] = []
    elif r < 0.2 and inp["predictions"]:
        # a twin: another clip (own uuid) over the same recording and time window as a predicted clip, on one side
        src = rng.choice(inp["predictions"])
        side = rng.choice(["predictions", "annotations"])
        if side == "predictions":
            twin = {"clip": src["clip"] + 100, "events": copy.deepcopy(src["events"])}
        else:
            twin = {"clip": src["clip"] + 100, "events": [{"id": 900 + i, "geom": e["geom"], "tags": [t for t, _ in e["tags"]][:1]}
                                                          for i, e in enumerate(src["events"])]}
        inp[side].insert(rng.randint(0, len(inp[side])), twin)
    return inp


_BOXES = {"A": ["1", "1000", "2", "2000"],          # reference
          "B": ["3/2", "1000", "5/2", "2000"],      # overlaps A by half (IoU 1/3)
          "C": ["2", "1000", "3", "2000"],          # touches A (affinity 0)
          "D": ["7", "1000", "8", "2000"],          # far from A
          "E": ["5/2", "2500", "7/2", "3500"]}      # later *and* higher than A and C: disjoint along both axes


def _diagonal(rng, box):
    """a box of the same size that is disjoint from `box` in time and in frequency, close to it"""
    s, l, e, h = (frac(x) for x in box)
    w, hh = e - s, h - l
    dt, df = rng.choice([Fraction(1, 2), Fraction(1), Fraction(1, 4)]), rng.choice([500, 1000, 250])
    later = rng.random() < 0.5 or s - dt - w < 0
    up = rng.random() < 0.5 or l - df - hh < 0
    s2 = e + dt if later else s - dt - w
    l2 = h + df if up else l - df - hh
    return [rat(s2), rat(l2), rat(s2 + w), rat(l2 + hh)]


def _retype(rng, box, kinds):
    """another geometry type placed on the box's grid points"""
    s, l, e, h = box
    k = rng.choice(kinds)
    if k == "TimeInterval":
        return {"type": "TimeInterval", "coordinates": [s, e]}
    if k == "TimeStamp":
        return {"type": "TimeStamp", "coordinates": rng.choice([s, e, rat((frac(s) + frac(e)) / 2)])}
    if k == "Point":
        return {"type": "Point", "coordinates": [rng.choice([s, e]), rng.choice([l, h])]}
    if k == "LineString":
        return {"type": "LineString", "coordinates": [[s, l], [e, h]]}
    return {"type": "Polygon", "coordinates": [[[s, l], [e, l], [s, h], [s, l]]]}


def gen_geo(rng):
    """detection inputs over all the geometry types `evaluate_clip` can meet, with boxes that are disjoint
    along both axes placed next to annotated ones"""
    inp = _pooled(rng, lambda vocab: G.gen_detection(rng, n_clips=rng.choice([1, 1, 2, 3]), vocab=vocab))
    ann_by = {c["clip"]: c for c in inp["annotations"]}
    for c in inp["annotations"]:
        for e in c["events"]:
            if e["geom"] is not None and rng.random() < 0.25:
                e["geom"] = _retype(rng, e["geom"], ["TimeInterval", "TimeInterval", "TimeStamp", "Polygon", "Point"])
    for c in inp["predictions"]:
        a = ann_by.get(c["clip"])
        boxes = [e["geom"] for e in a["events"] if isinstance(e["geom"], list)] if a else []
        for e in c["events"]:
            if e["geom"] is None:
                continue
            r = rng.random()
            if r < 0.2 and boxes:
                e["geom"] = _diagonal(rng, rng.choice(boxes))
            elif r < 0.5:
                e["geom"] = _retype(rng, e["geom"], ["TimeInterval", "TimeInterval", "TimeStamp", "TimeStamp", "Point",
                                                     "Polygon", "LineString"])
    return inp


# tags 0 and 1 are two classes that differ only in the name of the term (same label, same value); tag 2 is outside
# the vocabulary and differs from tag 0 only in the uri of the term
_NEAR_POOL = [{"term": TP.T_GBIF, "value": "Turdus"}, {"term": TP.T_EBIRD, "value": "Turdus"},
              {"term": TP.T_URI, "value": "Turdus"}]


def _exhaustive_clips(tagpool=None):
    """0-2 predicted x 0-2 annotated events, geometry absent / A / B / C / D, fixed tags"""
    geoms = [None, "A", "B", "D", "E"]
    ptags = [[[0, "3/4"], [1, "1/8"]], [[1, "1/2"]]]
    atags = [[0], [2]]
    for npred in range(3):
        for nann in range(3):
            for pg in itertools.product(geoms, repeat=npred):
                for ag in itertools.product([None, "A", "C"], repeat=nann):
                    case = {"vocab": [0, 1],
                            "preds": [{"id": i, "geom": _BOXES.get(g), "tags": ptags[i % 2]} for i, g in enumerate(pg)],
                            "anns": [{"id": 10 + j, "geom": _BOXES.get(g), "tags": atags[j % 2]} for j, g in enumerate(ag)]}
                    if tagpool is not None:
                        case["tagpool"] = tagpool
                    yield case


def gen_clip(rng):
    d = _pooled(rng, lambda vocab: G.gen_detection(rng, n_clips=1, vocab=vocab))
    out = {"vocab": d["vocab"], "preds": d["predictions"][0]["events"], "anns": d["annotations"][0]["events"]}
    if d.get("tagpool") is not None:
        out["tagpool"] = d["tagpool"]
    return out


def _pair_cases(rng, n):
    # every pair of duplicate-free lists over {0,1,2} in every order, then random longer ones
    ids = [0, 1, 2]
    lists = [list(p) for k in range(4) for p in itertools.permutations(ids, k)]
    for p in lists:
        for a in lists:
            yield {"predictions": p, "annotations": a}
    # twins: clips 100 and 101 are other clips (own uuid) over the recording and time window of clips 0 and 1
    tw = [list(p) for k in range(4) for p in itertools.permutations([0, 100, 1], k)]
    for p in tw:
        for a in tw:
            yield {"predictions": p, "annotations": a}
    for _ in range(n):
        p, a = G.clip_ids(rng, rng.randint(0, 5), rng.randint(0, 3), rng.randint(0, 3))
        if rng.random() < 0.3:
            p = [x + 100 if rng.random() < 0.3 else x for x in p]
            a = [x + 100 if rng.random() < 0.3 else x for x in a]
        yield {"predictions": p, "annotations": a}


# ---------------------------------------------------------------- construction / passing styles (HISTORIES.md 2)
_STYLE_AXES = (("call", ["pos", "pos2"]), ("seq", ["tuple"]), ("num", ["int", "np"]),
               ("via", ["validate", "json", "copy", "deepcopy"]))


def _style(rng, history=False):
    st = {}
    for k, vs in _STYLE_AXES:
        if rng.random() < 0.45:
            st[k] = rng.choice(vs)
    if rng.random() < 0.25:
        st["sub"] = True
    if not history:
        if rng.random() < 0.25:
            st["share"] = True
        if rng.random() < 0.25:
            st["xuuid"] = True
    return st


def _styled(ctx, inp, p=0.35, history=False):
    if ctx.rng.random() < p:
        st = _style(ctx.rng, history)
        if st:
            inp["style"] = st
            for k, v in st.items():
                ctx.tally(f"style:{k}={v}")
    return inp


# ---------------------------------------------------------------- buffered types close to each other, other buffers
_DT = ["0", "1/256", "1/64", "1/32", "1/4", "1"]          # stamps overlap iff dt < 2 * time_buffer
_DF = ["0", "64", "256", "1024"]
_BUFFER_CHOICES = [("1/2", "100"), ("1/16", "1024"), ("1/100", "1000"), ("0", "0"), ("1", "512"), (None, None),
                   ("1/2", None), (None, "2048")]


def _near(rng, kind, t, f):
    t, f = frac(t), frac(f)
    if kind == "TimeStamp":
        return {"type": "TimeStamp", "coordinates": rat(t)}
    if kind == "Point":
        return {"type": "Point", "coordinates": [rat(t), rat(f)]}
    if kind == "MultiPoint":
        return {"type": "MultiPoint", "coordinates": [[rat(t), rat(f)], [rat(t + Fraction(1, 8)), rat(f + 512)]]}
    if kind == "LineString":
        return {"type": "LineString", "coordinates": [[rat(t), rat(f)], [rat(t + Fraction(1, 4)), rat(f + 256)]]}
    if kind == "MultiLineString":
        return {"type": "MultiLineString", "coordinates": [[[rat(t), rat(f)], [rat(t + Fraction(1, 4)), rat(f)]],
                                                           [[rat(t), rat(f + 512)], [rat(t + Fraction(1, 4)), rat(f + 512)]]]}
    if kind == "TimeInterval":
        return {"type": "TimeInterval", "coordinates": [rat(t), rat(t + Fraction(1, 4))]}
    if kind == "MultiPolygon":
        sq = lambda a, b: [[[rat(a), rat(b)], [rat(a + Fraction(1, 4)), rat(b)], [rat(a + Fraction(1, 4)), rat(b + 256)],  # noqa: E731
                            [rat(a), rat(b + 256)], [rat(a), rat(b)]]]
        return {"type": "MultiPolygon", "coordinates": [sq(t, f), sq(t + 1, f + 1024)]}
    return [rat(t), rat(f), rat(t + Fraction(1, 4)), rat(f + 256)]


_NEAR_KINDS = ["TimeStamp", "TimeStamp", "Point", "Point", "LineString", "MultiPoint", "MultiLineString", "TimeInterval",
               "BoundingBox", "MultiPolygon"]


def gen_near(rng):
    """one or two clips whose sound events are of the buffered geometry types (time stamps, points, lines, multi
    points / lines) at small dyadic offsets from each other: whether they overlap depends on the buffers"""
    def make(vocab):
        preds, anns = [], []
        nid = 0
        for c in rng.sample(range(40), rng.choice([1, 1, 2])):
            pe, ae = [], []
            for _ in range(rng.choice([1, 1, 2, 3])):
                t, f = Fraction(rng.randint(1, 16), 2), rng.choice([1000, 2000, 4096])
                ka, kp = rng.choice(_NEAR_KINDS), rng.choice(_NEAR_KINDS)
                nid += 2
                ae.append({"id": nid, "geom": _near(rng, ka, t, f), "tags": G.true_tags(rng, vocab)})
                if rng.random() < 0.85:
                    pe.append({"id": nid + 1, "geom": _near(rng, kp, t + frac(rng.choice(_DT)), f + frac(rng.choice(_DF))),
                               "tags": G.single_label_scores(rng, vocab)})
            rng.shuffle(pe)
            preds.append({"clip": c, "events": pe})
            anns.append({"clip": c, "events": ae})
        return {"task": "sound_event_detection", "vocab": vocab, "predictions": preds, "annotations": anns}
    return _pooled(rng, make)


def _match_of(rng, x, buffers=None, entry=False):
    """a direct call of the matcher on the geometries of one evaluated clip of `x`, with other buffers"""
    ann_by = {c["clip"]: c for c in x["annotations"]}
    cands = [c for c in x["predictions"] if c["clip"] in ann_by]
    if not cands:
        return None
    c = rng.choice(cands)
    src = [e["geom"] for e in c["events"] if e["geom"] is not None]
    tgt = [e["geom"] for e in ann_by[c["clip"]]["events"] if e["geom"] is not None]
    if not src and not tgt:
        return None
    tb, fb = buffers or rng.choice(_BUFFER_CHOICES)
    out = {"kind": "match", "src": src, "tgt": tgt, "tb": tb, "fb": fb}
    st = {}
    if entry and src and tgt:
        # the sibling entry point on one geometry of each side (it shares whatever state the preparation keeps)
        out["src"], out["tgt"] = [rng.choice(src)], [rng.choice(tgt)]
        st["entry"] = "compute_affinity"
    if rng.random() < 0.5:
        st["call"] = rng.choice(["pos", "pos2"])
    if rng.random() < 0.3:
        st["seq"] = "tuple"
    if rng.random() < 0.3:
        st["num"] = rng.choice(["int", "np"])
    if st:
        out["style"] = st
    return out


def gen_match(rng):
    x = gen_near(rng) if rng.random() < 0.7 else gen_geo(rng)
    return _match_of(rng, x, entry=rng.random() < 0.3) or {"kind": "match", "src": [], "tgt": [], "tb": None, "fb": None}


# ---------------------------------------------------------------- boundaries and sizes (HISTORIES.md 4)
def _eps(rng, mag):
    """a power of two that is far below every tolerance a careless comparison would use and still exactly
    representable next to `mag`"""
    top = 52 - max(1, int(mag).bit_length()) - 3
    return Fraction(1, 2 ** min(top, rng.choice([20, 30, 36, 40])))


def gen_boundary(rng):
    """an annotated box / interval A and predicted ones that overlap A by a sliver, touch it exactly, miss it by a
    sliver or differ from it by a sliver, along time or frequency, at small and large magnitudes"""
    def make(vocab):
        t0 = Fraction(rng.choice([0, 1, 3, 1024, 131072]))
        f0 = Fraction(rng.choice([0, 1000, 1 << 20]))
        w, h = Fraction(rng.choice([1, 2, 8])) / rng.choice([1, 2, 4]), Fraction(rng.choice([512, 1000, 4096]))
        et, ef = _eps(rng, t0 + 2 * w + 1), _eps(rng, f0 + 2 * h + 1)
        interval = rng.random() < 0.35
        A = [t0, f0, t0 + w, f0 + h]

        def enc(b):
            if interval:
                return {"type": "TimeInterval", "coordinates": [rat(b[0]), rat(b[2])]}
            return [rat(v) for v in b]
        cands = []
        for d in (-et, 0, et):
            cands.append([t0 + w + d, f0, t0 + 2 * w + d, f0 + h])                       # after A: sliver / touch / gap
            if t0 - w + d >= 0:
                cands.append([t0 - w + d, f0, t0 + d, f0 + h])                            # before A
            cands.append([t0, f0, t0 + w + d, f0 + h])                                    # A made longer / shorter
        if not interval:
            for d in (-ef, 0, ef):
                cands.append([t0, f0 + h + d, t0 + w, f0 + 2 * h + d])                    # above A
                cands.append([t0 + w / 2, f0 + h + d, t0 + 3 * w / 2, f0 + 2 * h + d])    # above, half over in time
            cands.append([t0 + w - et, f0 + h - ef, t0 + 2 * w, f0 + 2 * h])             # corner sliver
            cands.append([t0 + w + et, f0 + h - ef, t0 + 2 * w, f0 + 2 * h])             # corner: time gap only
        pe = [{"id": 10 + i, "geom": enc(b), "tags": G.single_label_scores(rng, vocab)}
              for i, b in enumerate(rng.sample(cands, rng.choice([1, 2, 3])))]
        ae = [{"id": 1, "geom": enc(A), "tags": G.true_tags(rng, vocab)}]
        if rng.random() < 0.3:
            ae.append({"id": 2, "geom": enc(rng.choice(cands)), "tags": G.true_tags(rng, vocab)})
        c = rng.randint(0, 39)
        return {"task": "sound_event_detection", "vocab": vocab, "predictions": [{"clip": c, "events": pe}],
                "annotations": [{"clip": c, "events": ae}]}
    return _pooled(rng, make)


def gen_big(rng, n_pred, n_ann):
    """one clip with many sound events (sizes at which an implementation could switch strategy: > 16 events,
    > 256 events, >= 1024 pairs): annotated boxes on a lattice, each prediction over one of them (or in a gap),
    some without geometry"""
    def make(vocab):
        cell = lambda k: (Fraction(2 * (k % 8)), 1000 + 2000 * (k // 8))      # noqa: E731  (8 columns: rows differ in frequency)
        ae, pe = [], []
        for j in range(n_ann):
            t, f = cell(j)
            ae.append({"id": j, "geom": None if rng.random() < 0.05 else [rat(t), str(f), rat(t + 1), str(f + 1000)],
                       "tags": G.true_tags(rng, vocab)})
        for i in range(n_pred):
            t, f = cell(rng.randrange(max(n_ann, 1)) if rng.random() < 0.8 else n_ann + i)
            dt = rng.choice([0, Fraction(1, 2), Fraction(1, 4), 1])
            pe.append({"id": 10000 + i, "geom": None if rng.random() < 0.05 else [rat(t + dt), str(f), rat(t + dt + 1), str(f + 1000)],
                       "tags": G.single_label_scores(rng, vocab)})
        return {"task": "sound_event_detection", "vocab": vocab, "predictions": [{"clip": 7, "events": pe}],
                "annotations": [{"clip": 7, "events": ae}]}
    return _pooled(rng, make)


# ---------------------------------------------------------------- decimal (non-dyadic) grids: exact touching, one ulp
def _fx(x):
    """the float the code will see, as the exact rational the model is told: on a decimal grid 0.1 + 0.5 is not 0.6,
    and whether two time extents touch, miss or overlap by one ulp is a fact about the floats"""
    return rat(float(x))


def _ulp(x, k):
    import math
    x = float(x)
    for _ in range(abs(k)):
        x = math.nextafter(x, math.inf if k > 0 else -math.inf)
    return x


def _timed(kind, s, e, f=(1000.0, 2000.0)):
    """a geometry of the given kind whose time extent is exactly [s, e] (floats)"""
    lo, hi = f
    if kind == "TimeInterval":
        return {"type": "TimeInterval", "coordinates": [_fx(s), _fx(e)]}
    if kind == "Polygon":
        return {"type": "Polygon", "coordinates": [[[_fx(s), _fx(lo)], [_fx(e), _fx(lo)], [_fx(e), _fx(hi)], [_fx(s), _fx(hi)],
                                                   [_fx(s), _fx(lo)]]]}
    if kind == "MultiPolygon":
        m = (s + e) / 2
        tri = lambda a, b: [[[_fx(a), _fx(lo)], [_fx(b), _fx(lo)], [_fx(b), _fx(hi)], [_fx(a), _fx(lo)]]]   # noqa: E731
        return {"type": "MultiPolygon", "coordinates": [tri(s, m), tri(m, e)]}
    return [_fx(s), _fx(lo), _fx(e), _fx(hi)]


_TIMED_KINDS = ["TimeInterval", "TimeInterval", "BoundingBox", "Polygon", "MultiPolygon"]


def _decimal_pair(kp, ka, ps, pe, as_, ae, vocab=(0, 1), ptags=None, atags=None):
    return {"vocab": list(vocab),
            "preds": [{"id": 1, "geom": _timed(kp, ps, pe), "tags": ptags if ptags is not None else [[0, "3/4"], [1, "1/8"]]}],
            "anns": [{"id": 2, "geom": _timed(ka, as_, ae), "tags": atags if atags is not None else [0]}]}


def _decimal_sweep(top=10, den=10):
    """every pair of time extents on the grid k / den (as floats) of which one ends exactly where the other starts:
    [a, b] and [b, c] for all a < b < c <= top, as two intervals (both orders) and as an interval with a box"""
    for a in range(top + 1):
        for b in range(a + 1, top + 1):
            for c in range(b + 1, top + 1):
                x, y, z = a / den, b / den, c / den
                yield _decimal_pair("TimeInterval", "TimeInterval", x, y, y, z)
                yield _decimal_pair("TimeInterval", "TimeInterval", y, z, x, y)
                yield _decimal_pair("TimeInterval", "BoundingBox", x, y, y, z)
                yield _decimal_pair("BoundingBox", "TimeInterval", y, z, x, y)


def gen_decimal(rng):
    """one clip, a time-only geometry against any geometry with an exact time extent, on a decimal grid: touching
    exactly, one or two ulps apart, one or two ulps over each other, and plain overlaps / gaps; mostly one prediction
    and one annotation, so that the assignment keeps the pair"""
    def make(vocab):
        den = rng.choice([10, 10, 100, 3, 7])
        pe, ae, nid = [], [], 0
        for _ in range(rng.choice([1, 1, 1, 2])):
            a, b, c = sorted(rng.sample(range(0, 4 * den), 3))
            x, y, z = a / den, b / den, c / den
            r = rng.random()
            if r < 0.45:
                first, second = (x, y), (y, z)                                   # touching exactly
            elif r < 0.7:
                k = rng.choice([-2, -1, 1, 2])
                first, second = (x, y), (max(_ulp(y, k), 0.0), z)                 # k ulps apart (k > 0) / over each other
            elif r < 0.85:
                first, second = (x, z), (y, z)                                   # nested, common end
            else:
                first, second = (x, y), ((y + z) / 2, z)                         # a plain gap
            if first[0] >= first[1] or second[0] >= second[1]:
                first, second = (x, y), (y, z)
            kinds = [rng.choice(["TimeInterval", "TimeInterval", "BoundingBox"]), rng.choice(_TIMED_KINDS)]
            rng.shuffle(kinds)
            if rng.random() < 0.5:
                first, second = second, first
            nid += 2
            pe.append({"id": nid, "geom": _timed(kinds[0], *first), "tags": G.single_label_scores(rng, vocab)})
            ae.append({"id": nid + 1, "geom": _timed(kinds[1], *second), "tags": G.true_tags(rng, vocab)})
        c = rng.randint(0, 39)
        return {"task": "sound_event_detection", "vocab": vocab, "predictions": [{"clip": c, "events": pe}],
                "annotations": [{"clip": c, "events": ae}]}
    return _pooled(rng, make)


# ---------------------------------------------------------------- histories (HISTORIES.md 1)
def _shift(g, dt):
    """the geometry moved by `dt` seconds"""
    if g is None:
        return None
    mv = lambda t: rat(frac(t) + dt)                                # noqa: E731
    if not isinstance(g, dict):
        return [mv(g[0]), g[1], mv(g[2]), g[3]]
    k, c = g["type"], g["coordinates"]
    if k == "TimeStamp":
        c2 = mv(c)
    elif k == "TimeInterval":
        c2 = [mv(c[0]), mv(c[1])]
    elif k == "BoundingBox":
        c2 = [mv(c[0]), c[1], mv(c[2]), c[3]]
    elif k == "Point":
        c2 = [mv(c[0]), c[1]]
    elif k in ("LineString", "MultiPoint"):
        c2 = [[mv(p[0]), p[1]] for p in c]
    elif k in ("Polygon", "MultiLineString"):
        c2 = [[[mv(p[0]), p[1]] for p in r] for r in c]
    else:
        c2 = [[[[mv(p[0]), p[1]] for p in r] for r in poly] for poly in c]
    return {"type": k, "coordinates": c2}


def _events_of(x):
    return [(side, ci, ei) for side in ("predictions", "annotations") for ci, c in enumerate(x[side])
            for ei, _ in enumerate(c["events"])]


def _time_typed(g):
    return isinstance(g, dict) and g["type"] in _TIME


def _h_variant_kinds(x, rng):
    """neighbours of a call, by kind: the same clips with another vocabulary / a moved, added, removed or re-tagged
    sound event, and direct calls of the matcher on the same geometries with other buffers"""
    if _is_match(x):
        out = [{**copy.deepcopy(x), "tb": tb, "fb": fb} for tb, fb in rng.sample(_BUFFER_CHOICES, 3)]
        return [("buffers", y) for y in out if (y["tb"], y["fb"]) != (x.get("tb"), x.get("fb"))]
    out = []
    descs = TP.descriptors(x)
    ids, v = list(range(len(descs))), list(x["vocab"])
    cands = []
    if len(v) > 1:
        cands += [v[1:], v[:-1], list(reversed(v)), v[1:] + v[:1]]
    others = [i for i in ids if i not in v]
    if others:
        cands += [[rng.choice(others)] + v[1:], v + [rng.choice(others)], rng.sample(others, min(len(others), rng.randint(1, 3)))]
    cands.append(rng.sample(ids, rng.randint(1, min(len(ids), 5))))
    for cand in cands:
        cand = TP.dedupe_ids(descs, cand)
        if cand and cand != v:
            out.append(("vocab", {**copy.deepcopy(x), "vocab": cand}))
    # a vocabulary that shares a *part* of every class with the old one: the same values under other terms, the same
    # terms under other values, the same labels (a table keyed by a part of the tag would not tell them apart)
    cont = [TP.content(d) for d in descs]
    for part in (lambda t: t["value"], lambda t: TP.jkey(t["term"]), lambda t: t["term"].get("label")):
        twin = []
        for i in v:
            alt = [j for j in ids if j != i and part(cont[j]) == part(cont[i]) and TP.jkey(cont[j]) != TP.jkey(cont[i])]
            twin.append(rng.choice(alt) if alt and rng.random() < 0.8 else i)
        twin = TP.dedupe_ids(descs, twin)
        if twin and twin != v and len(twin) == len(v):
            out.append(("vocab-twin", {**copy.deepcopy(x), "vocab": twin}))
    evs = _events_of(x)
    withg = [(s, ci, ei) for s, ci, ei in evs if x[s][ci]["events"][ei]["geom"] is not None]
    if withg:
        # sound events that meet a time-only geometry go through other code (bounds instead of shapes): three times as likely
        def weight(s, ci, ei):
            other = "annotations" if s == "predictions" else "predictions"
            mates = [q["geom"] for c in x[other] if c["clip"] == x[s][ci]["clip"] for q in c["events"]]
            return 3 if _time_typed(x[s][ci]["events"][ei]["geom"]) or any(_time_typed(g) for g in mates) else 1
        pool = [p for p in withg for _ in range(weight(*p))]
        for _ in range(4):
            s, ci, ei = rng.choice(pool)
            y = copy.deepcopy(x)
            e = y[s][ci]["events"][ei]
            other = "annotations" if s == "predictions" else "predictions"
            partner = [q["geom"] for c in y[other] if c["clip"] == y[s][ci]["clip"] for q in c["events"] if q["geom"] is not None]
            same = [g for g in partner if _gtype(g) == _gtype(e["geom"]) and G.gkey(g) != G.gkey(e["geom"])]
            if same and rng.random() < 0.4:
                e["geom"] = copy.deepcopy(rng.choice(same))                       # now on top of a sound event of the other side
            else:
                e["geom"] = _shift(e["geom"], rng.choice([20, 20, Fraction(1, 2), 1, 3]))   # moved (mostly: away)
            out.append(("moved", y))
        s, ci, ei = rng.choice(withg)
        y = copy.deepcopy(x)
        y[s][ci]["events"][ei]["geom"] = None
        out.append(("geometry-dropped", y))
    if evs:
        s, ci, ei = rng.choice(evs)
        y = copy.deepcopy(x)
        del y[s][ci]["events"][ei]
        out.append(("removed", y))
        s, ci, ei = rng.choice(evs)
        y = copy.deepcopy(x)
        e = copy.deepcopy(y[s][ci]["events"][ei])
        e["id"] = 5000 + max(q["id"] for side in ("predictions", "annotations") for c in x[side] for q in c["events"])
        y[s][ci]["events"].insert(rng.randint(0, len(y[s][ci]["events"])), e)
        out.append(("added", y))
        s, ci, ei = rng.choice(evs)
        y = copy.deepcopy(x)
        e = y[s][ci]["events"][ei]
        if s == "annotations":
            e["tags"] = [rng.choice(ids)] if rng.random() < 0.8 else []
        elif len(e["tags"]) > 1:
            sc = [q[1] for q in e["tags"]]
            e["tags"] = [[q[0], w] for q, w in zip(e["tags"], sc[1:] + sc[:1])]
        else:
            e["tags"] = [[rng.choice(ids), rng.choice(["1/4", "1/2", "1"])]]
        out.append(("retagged", y))
    out = [(k, y) for k, y in out if not all_unlabelled(y)]
    for _ in range(2):
        m = _match_of(rng, x)
        if m is not None:
            out.append(("matcher-call", m))
    m = _match_of(rng, x, entry=True)
    if m is not None and (m.get("style") or {}).get("entry"):
        out.append(("affinity-call", m))
    return out


def _h_variants(x, rng):
    return [y for _k, y in _h_variant_kinds(x, rng)]


H_KINDS = ("vocab", "vocab-twin", "moved", "geometry-dropped", "removed", "added", "retagged", "matcher-call", "affinity-call", "buffers")


def _directed_histories(ctx, base, n):
    """x, a neighbour of x of a chosen kind on the *same live objects* revised in a chosen way, then x again on
    those objects: every (kind of revision x way of revising) in turn"""
    rng = ctx.rng
    out, k = [], 0
    combos = [(kind, how) for kind in H_KINDS for how in H_REUSE]
    tries = 0
    while len(out) < n and tries < 20 * n:
        tries += 1
        kind, how = combos[k % len(combos)]
        x = rng.choice(base)
        ys = [y for kk, y in _h_variant_kinds(x, rng) if kk == kind]
        if not ys:
            if tries % 7 == 0:
                k += 1
            continue
        k += 1
        y = rng.choice(ys)
        seq = [{"inp": copy.deepcopy(x)}, {"inp": copy.deepcopy(y), "reuse": how}, {"inp": copy.deepcopy(x), "reuse": how}]
        if rng.random() < 0.3:
            seq[0]["poison"] = True
        if rng.random() < 0.3:
            seq.append({"inp": copy.deepcopy(y)})
        ctx.tally(f"history:directed:{kind}:{how}")
        out.append({"seq": seq})
    return out


H_REUSE = L.HOWS


def gen_histories(ctx, n):
    rng = ctx.rng
    base = []
    for i in range(max(4, n // 2)):
        r = i % 5
        x = gen_near(rng) if r in (0, 1) else gen_geo(rng) if r == 2 else gen_detection(rng) if r == 3 else gen_match(rng)
        if not _is_match(x):
            if len(x["predictions"]) > 2:
                keep = {c["clip"] for c in x["predictions"][:2]}
                x["predictions"] = x["predictions"][:2]
                x["annotations"] = [c for c in x["annotations"] if c["clip"] in keep] or x["annotations"][:1]
            if all_unlabelled(x):
                continue
            _styled(ctx, x, 0.4, history=True)
            _tagstyled(ctx, x, 0.3)
        base.append(x)
    hs = _directed_histories(ctx, base, n // 2)
    hs += history.sequences(rng, base, n - len(hs), variants=_h_variants, reuse_hows=H_REUSE, poison=True, length=(3, 5))
    for h in hs:
        for st in h["seq"]:
            ctx.tally("history:" + ("match" if _is_match(st["inp"]) else "evaluate") + ":" + (st.get("reuse") or "fresh")
                      + ("+poison" if st.get("poison") else ""))
    return hs


# ---------------------------------------------------------------- polygons with holes (siblings: Polygon / MultiPolygon)
def _ring(t0, f0, t1, f1, cw=False):
    r = [[rat(t0), rat(f0)], [rat(t1), rat(f0)], [rat(t1), rat(f1)], [rat(t0), rat(f1)], [rat(t0), rat(f0)]]
    return r[::-1] if cw else r


def _poly(rect, holes=(), cw=True):
    return [_ring(*rect)] + [_ring(*h, cw=cw) for h in holes]


_HOLE_KINDS = ("polygon-1", "polygon-2", "multi-1+patch", "multi-2+holed-patch", "multi-single-1")
_HOLE_PLACES = ("inside-hole", "equals-hole", "straddles-hole", "covers-hole", "covers-shell", "in-material", "in-second-hole",
                "in-patch", "far")
_HOLE_COUNTER = ("BoundingBox", "Polygon", "MultiPolygon", "ring", "TimeInterval", "Point", "LineString")


def _holed(kind, t0, f0, cw=True):
    """a frame (shell 4 s x 4000 Hz at (t0, f0)) with one or two rectangular holes that touch nothing, as a Polygon
    or inside a MultiPolygon (with a second polygon 2 s further right, itself with or without a hole);
    returns (geometry, holes of the frame, rectangle of the patch or None)"""
    F = Fraction
    t0, f0 = F(t0), F(f0)
    shell = (t0, f0, t0 + 4, f0 + 4000)
    one = [(t0 + 1, f0 + 1000, t0 + 3, f0 + 3000)]
    two = [(t0 + F(1, 2), f0 + 500, t0 + F(3, 2), f0 + 3500), (t0 + F(5, 2), f0 + 500, t0 + F(7, 2), f0 + 3500)]
    patch = (t0 + 6, f0, t0 + 8, f0 + 2000)
    if kind == "polygon-1":
        return {"type": "Polygon", "coordinates": _poly(shell, one, cw)}, one, None
    if kind == "polygon-2":
        return {"type": "Polygon", "coordinates": _poly(shell, two, cw)}, two, None
    if kind == "multi-1+patch":
        return {"type": "MultiPolygon", "coordinates": [_poly(shell, one, cw), _poly(patch)]}, one, patch
    if kind == "multi-2+holed-patch":
        ph = [(t0 + F(13, 2), f0 + 500, t0 + F(15, 2), f0 + 1500)]
        return {"type": "MultiPolygon", "coordinates": [_poly(patch, ph, cw), _poly(shell, two, cw)]}, two, patch
    return {"type": "MultiPolygon", "coordinates": [_poly(shell, one, cw)]}, one, None


def _placed(place, t0, f0, holes, patch):
    """the rectangle of the counterpart, relative to the frame at (t0, f0)"""
    F = Fraction
    t0, f0 = F(t0), F(f0)
    h = holes[0]
    if place == "inside-hole":
        return (h[0] + F(1, 4), h[1] + 250, h[2] - F(1, 4), h[3] - 250)
    if place == "equals-hole":
        return h
    if place == "straddles-hole":                                  # half over the frame's material, half over the hole
        return (h[0] - F(1, 4), h[1] + 250, h[0] + F(1, 4), h[3] - 250)
    if place == "covers-hole":
        return (h[0] - F(1, 4), h[1] - 250, h[2] + F(1, 4), h[3] + 250)
    if place == "covers-shell":
        return (t0, f0, t0 + 4, f0 + 4000)
    if place == "in-material":
        return (t0 + F(1, 8), f0 + 100, t0 + F(3, 8), f0 + 3900)
    if place == "in-second-hole":
        h2 = holes[-1]
        return (h2[0] + F(1, 8), h2[1] + 125, h2[2] - F(1, 8), h2[3] - 125)
    if place == "in-patch":
        q = patch or (t0 + 6, f0, t0 + 8, f0 + 2000)
        return (q[0], q[1], q[0] + F(1, 2), q[1] + 400)
    return (t0 + 20, f0, t0 + 21, f0 + 1000)


def _counterpart(ctype, r):
    """a geometry of the given type over the rectangle `r` (siblings of the box: the same region as a Polygon, as
    one part of a MultiPolygon, as a ring-shaped Polygon, and the time-only / buffered types placed in it)"""
    F = Fraction
    t0, f0, t1, f1 = r
    if ctype == "BoundingBox":
        return [rat(t0), rat(f0), rat(t1), rat(f1)]
    if ctype == "Polygon":
        return {"type": "Polygon", "coordinates": _poly(r)}
    if ctype == "MultiPolygon":
        return {"type": "MultiPolygon", "coordinates": [_poly((t0 + 40, f0, t0 + 41, f0 + 100)), _poly(r)]}
    if ctype == "ring":
        w, hh = (t1 - t0) / 4, (f1 - f0) / 4
        return {"type": "Polygon", "coordinates": _poly(r, [(t0 + w, f0 + hh, t1 - w, f1 - hh)])}
    if ctype == "TimeInterval":
        return {"type": "TimeInterval", "coordinates": [rat(t0), rat(t1)]}
    if ctype == "Point":
        return {"type": "Point", "coordinates": [rat((t0 + t1) / 2), rat((f0 + f1) / 2)]}
    return {"type": "LineString", "coordinates": [[rat(t0 + (t1 - t0) / 4), rat((f0 + f1) / 2)], [rat(t1 - (t1 - t0) / 4), rat((f0 + f1) / 2)]]}


def _hole_clip(kind, place, ctype, holed_side, t0=1, f0=1000, cw=True, extra=False, vocab=(0, 1), ptags=None, atags=None,
               clip=3):
    geom, holes, patch = _holed(kind, t0, f0, cw)
    other = _counterpart(ctype, _placed(place, t0, f0, holes, patch))
    pg, ag = (geom, other) if holed_side == "pred" else (other, geom)
    pe = [{"id": 1, "geom": pg, "tags": ptags if ptags is not None else [[0, "3/4"], [1, "1/8"]]}]
    ae = [{"id": 2, "geom": ag, "tags": atags if atags is not None else [0]}]
    if extra:      # a second pair next to it, so that the clip always has a genuine match as well
        far = (Fraction(t0) + 30, Fraction(f0), Fraction(t0) + 31, Fraction(f0) + 1000)
        pe.append({"id": 3, "geom": _counterpart("BoundingBox", far), "tags": [[1, "1/2"]]})
        ae.append({"id": 4, "geom": _counterpart("Polygon", far), "tags": [1]})
    return {"task": "sound_event_detection", "vocab": list(vocab), "predictions": [{"clip": clip, "events": pe}],
            "annotations": [{"clip": clip, "events": ae}]}


def _hole_sweep(full=False):
    """every (holed shape, placement of the counterpart, counterpart type, side that carries the holes)"""
    for kind in _HOLE_KINDS:
        for place in _HOLE_PLACES:
            if place == "in-second-hole" and "-2" not in kind:
                continue
            if place == "in-patch" and "patch" not in kind:
                continue
            for ctype in _HOLE_COUNTER:
                if not full and ctype in ("Point", "LineString", "TimeInterval") and place not in ("inside-hole", "straddles-hole", "far"):
                    continue
                for side in ("ann", "pred"):
                    yield _hole_clip(kind, place, ctype, side, cw=(side == "ann"), extra=(place == "inside-hole" and ctype == "BoundingBox"))


def gen_holes(rng):
    """one or two clips with holed Polygons / MultiPolygons at random dyadic positions and one to three counterparts
    around their holes, on either side"""
    def make(vocab):
        preds, anns, nid = [], [], 0
        for c in rng.sample(range(40), rng.choice([1, 1, 2])):
            pe, ae = [], []
            for k in range(rng.choice([1, 1, 2])):
                t0, f0 = Fraction(rng.randint(0, 12), 2) + 12 * k, rng.choice([0, 500, 1000, 4096])
                geom, holes, patch = _holed(rng.choice(_HOLE_KINDS), t0, f0, cw=rng.random() < 0.5)
                side = rng.choice(["ann", "pred"])
                nid += 1
                (ae if side == "ann" else pe).append({"id": nid, "geom": geom, "tags": None})
                for _ in range(rng.choice([1, 1, 2, 3])):
                    place = rng.choice(_HOLE_PLACES)
                    nid += 1
                    (pe if side == "ann" else ae).append(
                        {"id": nid, "geom": _counterpart(rng.choice(_HOLE_COUNTER), _placed(place, t0, f0, holes, patch)), "tags": None})
            for e in pe:
                e["tags"] = G.single_label_scores(rng, vocab)
            for e in ae:
                e["tags"] = G.true_tags(rng, vocab)
            rng.shuffle(pe)
            preds.append({"clip": c, "events": pe})
            anns.append({"clip": c, "events": ae})
        return {"task": "sound_event_detection", "vocab": vocab, "predictions": preds, "annotations": anns}
    return _pooled(rng, make)


def _stage_holes(ctx, n):
    sweep = list(_hole_sweep(ctx.thorough()))
    ctx.run_cases(OPS["detection_geo"], sweep)
    ctx.exhaustive["polygons with holes"] = (
        f"{len(sweep)} clips: a frame with 1 / 2 holes as Polygon, inside a MultiPolygon (first or second part, next to a plain "
        "or a holed second polygon) or as a one-part MultiPolygon x a counterpart inside a hole / equal to it / straddling "
        "its edge / covering it / covering the shell / over the material only / in the second hole / in the second polygon / "
        "far away x counterpart as box, Polygon, MultiPolygon part, ring-shaped Polygon, TimeInterval, Point, LineString x "
        "holes on the annotated or on the predicted side")
    cases = [_styled(ctx, gen_holes(ctx.rng), 0.25) for _ in range(n)]
    for c in cases:
        for side in ("predictions", "annotations"):
            for pc in c[side]:
                for e in pc["events"]:
                    if isinstance(e["geom"], dict) and e["geom"]["type"] in ("Polygon", "MultiPolygon"):
                        nh = sum(len(p) - 1 for p in ([e["geom"]["coordinates"]] if e["geom"]["type"] == "Polygon" else e["geom"]["coordinates"]))
                        ctx.tally(f"holes:{side[:4]}:{e['geom']['type']}:holes={min(nh, 3)}")
    ctx.run_cases(OPS["detection_geo"], cases)
    # the same shapes through the first layer / evaluate_clip alone and through direct calls of the matcher
    clips = [{"vocab": c["vocab"], "preds": c["predictions"][0]["events"], "anns": c["annotations"][0]["events"],
              **({"tagpool": c["tagpool"]} if c.get("tagpool") is not None else {})} for c in cases[: max(20, n // 4)]]
    ctx.run_cases(OPS["eval_clip"], clips + [{"vocab": c["vocab"], "preds": c["predictions"][0]["events"],
                                             "anns": c["annotations"][0]["events"]} for c in sweep[::7]])
    ms = [m for m in (_match_of(ctx.rng, c) for c in cases[: max(20, n // 3)]) if m is not None]
    ctx.run_cases(OPS["match_call"], ms + [m for m in (_match_of(ctx.rng, c, buffers=(None, None)) for c in sweep[::5]) if m is not None])


# ---------------------------------------------------------------- construction variants of Tag / Term objects
_VARIANT_POOL = [dict(d) for d in TP.TAXA]


def _variant_clip(tagstyle):
    """the seeded scenario: vocabulary GBIF/Turdus, GBIF/Parus, eBird/Turdus (the first two carry equal terms, built
    separately unless the style shares them); an annotated GBIF/Parus box and an overlapping prediction that gives it
    3/4 (and 1/8 to GBIF/Turdus); a second annotation outside the vocabulary (uri differs) under a prediction"""
    return {"vocab": [0, 1, 2], "tagpool": _VARIANT_POOL, "tagstyle": tagstyle,
            "preds": [{"id": 0, "geom": _BOXES["B"], "tags": [[1, "3/4"], [0, "1/8"]]},
                      {"id": 1, "geom": _BOXES["D"], "tags": [[2, "1/2"], [3, "1/4"], [1, "1/8"]]}],
            "anns": [{"id": 10, "geom": _BOXES["A"], "tags": [1]},
                     {"id": 11, "geom": _BOXES["D"], "tags": [3, 2]}]}


def _variant_sweep():
    """forms pairwise over (vocabulary, annotated, predicted) tags - each tag is looked up on its own, so pairs of
    roles cover the interplay - then the sources of the Term objects x Term classes under a few forms"""
    seen = set()
    forms = TV.FORMS
    for a in forms:
        for b in forms:
            for st in ({"vocab": a, "ann": b}, {"vocab": a, "pred": b}, {"ann": a, "pred": b}):
                st = TV.normalise(st)
                k = core_jkey(st)
                if k not in seen:
                    seen.add(k)
                    yield _variant_clip(st)
    for vm in ("fresh", "shared"):
        for am in TV.TERM_MODES:
            for pm in TV.TERM_MODES:
                for tc in TV.TERM_CLASSES:
                    for fv, fa, fp in (("plain", "plain", "plain"), ("sub", "subx", "plain"), ("plain", "copy", "subdef"),
                                       ("validate", "update", "validate_obj")):
                        st = TV.normalise({"vocab": fv, "ann": fa, "pred": fp, "vocab_term": vm, "ann_term": am, "pred_term": pm,
                                           "termcls": tc})
                        k = core_jkey(st)
                        if k not in seen:
                            seen.add(k)
                            yield _variant_clip(st)


def _tagstyled(ctx, inp, p=0.3):
    if ctx.rng.random() < p:
        st = TV.gen_style(ctx.rng)
        if st:
            inp["tagstyle"] = st
            for k in TV.tallies(st):
                ctx.tally(k)
    return inp


def _stage_tag_variants(ctx, n):
    sweep = list(_variant_sweep())
    ctx.run_cases(OPS["eval_clip"], sweep)
    ctx.exhaustive["tag construction variants"] = (
        f"{len(sweep)} clips: one scenario (two vocabulary classes with equal, separately built terms; a pair annotated with "
        "the second; an annotation outside the vocabulary) x how the Tag objects are made (" + ", ".join(TV.FORMS) + ") "
        "pairwise over vocabulary / annotated / predicted tags x where the Term objects come from (new, one per term, the "
        "Term object of another vocabulary tag) x Term class (plain, subclass, subclass with a field)")
    cases = [_tagstyled(ctx, _styled(ctx, gen_detection(ctx.rng), 0.2), 1.0) for _ in range(n)]
    ctx.run_cases(OPS["detection"], cases)
    for k, v in sorted(TV.FALLBACKS.items()):
        ctx.tally("tagstyle:content-not-preserved:" + k, v)


# ---------------------------------------------------------------- known findings
def _f_no_labelled_truth(f, m):
    if f.kind != "property" or not isinstance(f.impl, dict) or f.impl.get("raise") != "invalid":
        return False
    if f.op in ("detection", "detection_geo"):      # the two operations that run sound_event_detection end to end
        return all_unlabelled(f.inp)
    return False


FINDING_MATCHERS = {"detection_no_labelled_truth": _f_no_labelled_truth}


# ---------------------------------------------------------------- run
def _stage_detection(ctx, n):
    cases = [_tagstyled(ctx, _styled(ctx, gen_detection(ctx.rng))) for _ in range(n)]
    for c in cases:
        _tag_tallies(ctx, c)
        ctx.tally(f"detection:clips={len(c['predictions'])}/{len(c['annotations'])}")
        for pc in c["predictions"]:
            for e in pc["events"]:
                ctx.tally("detection:pred_geom=" + ("yes" if e["geom"] else "no"))
    ctx.run_cases(OPS["detection"], cases)


def _stage_clips(ctx, n):
    ex = list(_exhaustive_clips()) + list(_exhaustive_clips(_NEAR_POOL))
    ctx.run_cases(OPS["eval_clip"], ex)
    ctx.exhaustive["evaluate_clip"] = (f"{len(ex)} clips: 0-2 predicted x 0-2 annotated events, geometry of each in "
                                       "{none, A, half-overlapping B, touching C, far D, diagonal E}, over the legacy tags "
                                       "and over two classes that differ only in the term's name plus a near miss "
                                       "(other uri) outside the vocabulary")
    cases = [_tagstyled(ctx, _styled(ctx, gen_clip(ctx.rng))) for _ in range(n)]
    for c in cases:
        _tag_tallies(ctx, {"tagpool": c.get("tagpool"), "vocab": c["vocab"],
                           "predictions": [{"events": c["preds"]}], "annotations": [{"events": c["anns"]}]})
    ctx.run_cases(OPS["eval_clip"], cases)


def _stage_geo(ctx, n):
    cases = [_tagstyled(ctx, _styled(ctx, gen_geo(ctx.rng)), 0.2) for _ in range(n)]
    for c in cases:
        for side in ("predictions", "annotations"):
            for pc in c[side]:
                for e in pc["events"]:
                    ctx.tally("geo:" + side[:4] + "=" + ("none" if e["geom"] is None else _gtype(e["geom"])))
    # the box-only generator as well: the matcher inside the model must agree with the first layer
    cases += [gen_detection(ctx.rng) for _ in range(n // 3)]
    ctx.run_cases(OPS["detection_geo"], cases)


# ---------------------------------------------------------------- tie 1: the matcher's buffers
def _tables(ctx):
    try:
        tb, fb = matcher_buffers()
    except Exception as e:  # noqa: BLE001
        ctx.pre_failed.append("matcher_buffers")
        ctx.fail("obligation", "matcher_buffers", detail=f"the matcher's default buffers cannot be read: {e!r}",
                 extra={"op": "detection_geo"})
        return
    # hypotheses `tb_nonneg`, `fb_nonneg` of `GeoInputs` for the constants the code matches with
    ctx.obligation("matcher_buffers",
                   f"example : (0 : Rat) ≤ {st.lit(Fraction(tb))} ∧ (0 : Rat) ≤ {st.lit(Fraction(fb))} := by decide +kernel\n",
                   {"op": "detection_geo", "extracted": {"time_buffer": tb, "freq_buffer": fb}})


# ---------------------------------------------------------------- tie 1b: symbolic traces
_STUB_SERIAL = itertools.count()


class _GeomStub:
    """a geometry stand-in: `.type` and `.coordinates`; its serialisations are different on every request, so that
    a cache keyed by the serialised geometry (a correct rewrite) neither fails on the stub nor answers one traced
    path with the symbolic result of another"""

    def __init__(self, type, coordinates):
        self.type = type
        self.coordinates = coordinates

    def model_dump_json(self, *a, **kw):
        return '{"type": "%s", "stub": %d}' % (self.type, next(_STUB_SERIAL))

    def model_dump(self, *a, **kw):
        return {"type": self.type, "stub": next(_STUB_SERIAL)}


class _AreaOnly:
    def __init__(self, area):
        self.area = area


def _smax(a, b):
    """`max a b` as one symbolic term (no path split: the stub is not the code under trace)"""
    a, b = Sym.lift(a), Sym.lift(b)
    return Sym(f"(max {a.e} {b.e})", lambda env, a=a, b=b: max(a.f(env), b.f(env)))


def _smin(a, b):
    a, b = Sym.lift(a), Sym.lift(b)
    return Sym(f"(min {a.e} {b.e})", lambda env, a=a, b=b: min(a.f(env), b.f(env)))


def _sym_extremum(builtin, sym2):
    """`max` / `min` for a module under trace: one symbolic term when a symbolic number takes part (so that a
    closed-form rewrite of the code does not explode into paths), the builtin otherwise"""
    def f(*args, **kw):
        xs = list(args[0]) if len(args) == 1 and not kw else list(args)
        if kw or not xs or not any(isinstance(x, Sym) for x in xs):
            return builtin(*args, **kw)
        out = xs[0]
        for x in xs[1:]:
            out = sym2(out, x)
        return out
    return f


class _patched:
    """temporarily set module attributes (restored / removed afterwards)"""

    def __init__(self, mod, **attrs):
        self.mod, self.attrs, self.saved = mod, attrs, {}

    def __enter__(self):
        for k, v in self.attrs.items():
            self.saved[k] = self.mod.__dict__.get(k, _patched)
            setattr(self.mod, k, v)

    def __exit__(self, *exc):
        for k, v in self.saved.items():
            if v is _patched:
                delattr(self.mod, k)
            else:
                setattr(self.mod, k, v)


class _RectStub:
    """what GEOS computes for axis-parallel rectangles (contract `BoxExact`), on symbolic coordinates"""

    def __init__(self, c):
        self.c = tuple(c)
        self.bounds = self.c

    @property
    def area(self):
        s, l, e, h = self.c
        return (e - s) * (h - l)

    def intersection(self, o):
        s1, l1, e1, h1 = self.c
        s2, l2, e2, h2 = o.c
        return _AreaOnly(_smax(0, _smin(e1, e2) - _smax(s1, s2)) * _smax(0, _smin(h1, h2) - _smax(l1, l2)))


class _Row:
    """an encoded score row on symbolic scores"""

    def __init__(self, xs):
        self.xs = list(xs)
        self.shape = (len(self.xs),)

    def sum(self, *a, **kw):
        t = 0
        for x in self.xs:
            t = t + x
        return t

    def __getitem__(self, k):
        return self.xs[k]

    def __len__(self):
        return len(self.xs)

    def __iter__(self):
        return iter(self.xs)


class _Rec:
    def __init__(self, **kw):
        self.__dict__.update(kw)


def _symbolic_ties(ctx):
    import importlib
    A = importlib.import_module("soundevent.evaluation.affinity")
    D = importlib.import_module("soundevent.evaluation.tasks.sound_event_detection")
    from soundevent import data as real_data

    # (a) compute_affinity on two bounding boxes, for all coordinates: the closed form the model judges with
    BV = ["s1", "l1", "e1", "h1", "s2", "l2", "e2", "h2"]
    sy = {n: Sym.var(n) for n in BV}

    smax, smin = _sym_extremum(max, _smax), _sym_extremum(min, _smin)

    def run_boxes():
        with _patched(A, geometry_to_shapely=lambda g: _RectStub(g.coordinates),
                      compute_bounds=lambda g: tuple(g.coordinates), max=smax, min=smin):
            return A.compute_affinity(_GeomStub("BoundingBox", [sy[n] for n in BV[:4]]),
                                      _GeomStub("BoundingBox", [sy[n] for n in BV[4:]]))
    ctx.sym_tie("ext_box_affinity", run_boxes, BV, "Rat",
                "some (SE.Affinity.iouC (SE.Affinity.boxArea s1 l1 e1 h1) (SE.Affinity.boxArea s2 l2 e2 h2) "
                "(SE.Affinity.boxInter s1 l1 e1 h1 s2 l2 e2 h2))",
                tactic="unfold ext_box_affinity SE.Affinity.iouC SE.Affinity.boxArea SE.Affinity.boxInter\n  se_close",
                meta={"op": "detection_geo"}, catch=(ValueError,))

    # (b) the time branch
    def run_time():
        with _patched(A, compute_bounds=lambda g: tuple(g.coordinates), max=smax, min=smin):
            return A.compute_affinity_in_time(_GeomStub("TimeInterval", [sy[n] for n in BV[:4]]),
                                              _GeomStub("TimeInterval", [sy[n] for n in BV[4:]]))
    # (compute_affinity_in_time and evaluate_sound_event are helpers outside `__all__`: when one is renamed or
    # inlined there is nothing to trace — noted, not an alarm; the differential runs still cover the behaviour)
    if callable(getattr(A, "compute_affinity_in_time", None)):
        ctx.sym_tie("ext_time_affinity", run_time, BV, "Rat", "some (SE.Affinity.timeIoU s1 e1 s2 e2)",
                    tactic="unfold ext_time_affinity SE.Affinity.timeIoU\n  se_close", meta={"op": "detection_geo"})
    else:
        ctx.note("symbolic tie ext_time_affinity skipped: affinity.compute_affinity_in_time no longer exists")
    if not callable(getattr(D, "evaluate_sound_event", None)):
        ctx.note("symbolic ties ext_pair_score_* skipped: sound_event_detection.evaluate_sound_event no longer exists")
        return

    # (c) evaluate_sound_event: score and affinity of a pair, for every true class of a three-tag vocabulary
    RV = ["r0", "r1", "r2", "a"]
    ry = {n: Sym.var(n) for n in RV}

    class _DataStub:
        Match = _Rec
        Feature = _Rec

        def __getattr__(self, k):
            return getattr(real_data, k)

    # the helper is called by parameter name, whatever its current signature: the encodings either through the
    # (stubbed) encoding functions or handed in directly; a parameter this tie does not know -> nothing to trace
    import inspect
    try:
        params = inspect.signature(D.evaluate_sound_event).parameters
    except (TypeError, ValueError):
        params = {}
    known = {"sound_event_prediction", "sound_event_annotation", "encoder", "affinity", "true_class",
             "predicted_class_scores"}
    unknown = [n for n, q in params.items() if n not in known and q.default is inspect.Parameter.empty
               and q.kind not in (inspect.Parameter.VAR_POSITIONAL, inspect.Parameter.VAR_KEYWORD)]
    if not params or unknown or "affinity" not in params:
        ctx.note("symbolic ties ext_pair_score_* skipped: evaluate_sound_event has a signature this tie does not know "
                 f"({list(params)})")
        return

    def _find_match(r):
        if hasattr(r, "score") and hasattr(r, "affinity"):
            return r
        if isinstance(r, (tuple, list)):
            for x in r:
                if hasattr(x, "score") and hasattr(x, "affinity"):
                    return x
        raise ValueError("evaluate_sound_event returns no match")

    for k in (None, 0, 1, 2):
        def run_score(k=k):
            saved = {n: getattr(D, n) for n in ("data", "classification_encoding", "prediction_encoding") if hasattr(D, n)}
            D.data = _DataStub()
            D.classification_encoding = lambda tags, encoder: k
            D.prediction_encoding = lambda tags, encoder: _Row([ry["r0"], ry["r1"], ry["r2"]])
            try:
                kw = {"sound_event_prediction": _Rec(tags=[]), "sound_event_annotation": _Rec(tags=[]), "encoder": None,
                      "affinity": ry["a"], "true_class": k, "predicted_class_scores": _Row([ry["r0"], ry["r1"], ry["r2"]])}
                m = _find_match(D.evaluate_sound_event(**{n: v for n, v in kw.items() if n in params}))
                return (m.score, m.affinity)
            finally:
                for n in ("data", "classification_encoding", "prediction_encoding"):
                    if n in saved:
                        setattr(D, n, saved[n])
                    elif hasattr(D, n):
                        delattr(D, n)
        name = "ext_pair_score_" + ("none" if k is None else str(k))
        y = "none" if k is None else f"(some {k})"
        ctx.sym_tie(name, run_score, RV, "Rat × Rat", f"some (SE.Metrics.tcp ⟨{y}, [r0, r1, r2]⟩, a)",
                    tactic=(f"unfold {name}\n  simp only [SE.Metrics.tcp, SE.Metrics.noneScore, List.getD, List.getElem?_cons_zero, "
                            "List.getElem?_cons_succ, Option.getD_some, List.sum_cons, List.sum_nil]\n  try grind"),
                    meta={"op": "detection"}, catch=(ValueError,))


def _stage_pairing(ctx, n):
    cases = list(_pair_cases(ctx.rng, n))
    for c in cases[512:]:
        _styled(ctx, c, 0.4)
        if "style" in c:
            c["style"] = {k: v for k, v in c["style"].items() if k in ("call", "seq", "sub")}
    # a run with many clips (a size at which an implementation could switch strategy)
    ids = list(range(1000, 2100))
    ctx.rng.shuffle(ids)
    cases.append({"predictions": ids, "annotations": ctx.rng.sample(ids, 600) + list(range(3000, 3050)), "style": {"call": "pos"}})
    ctx.run_cases(OPS["pair_clips"], cases)
    ctx.exhaustive["pair_clips"] = ("all pairs of duplicate-free id lists over {0,1,2} (16 x 16 orders) and over {0, twin of 0, 1} "
                                    "(a twin: another clip over the same recording and time window)")


def _stage_boundaries(ctx, n):
    cases = [_styled(ctx, gen_boundary(ctx.rng), 0.25) for _ in range(n)]
    ctx.tally("boundary:cases", len(cases))
    ctx.run_cases(OPS["detection_geo"], cases)
    near = [_styled(ctx, gen_near(ctx.rng), 0.25) for _ in range(n // 2)]
    ctx.tally("near:cases", len(near))
    ctx.run_cases(OPS["detection_geo"], near)


def _stage_decimal(ctx, n):
    sweep = list(_decimal_sweep(10, 10)) + (list(_decimal_sweep(12, 100)) if ctx.thorough() else [])
    ctx.run_cases(OPS["eval_clip"], sweep)
    ctx.exhaustive["touching time extents"] = (f"{len(sweep)} clips: [a, b] against [b, c] for all a < b < c on the grid k/10 (k <= 10) as "
                                               "floats, interval / interval in both orders and interval / box: the pair shares no time")
    cases = [_styled(ctx, gen_decimal(ctx.rng), 0.2) for _ in range(n)]
    ctx.tally("decimal:cases", len(cases))
    ctx.run_cases(OPS["detection_geo"], cases)


def _stage_sizes(ctx):
    sizes = [(17, 3), (3, 18), (260, 2), (33, 32)] + ([(40, 40), (2, 300), (64, 17)] if ctx.thorough() else [])
    cases = [gen_big(ctx.rng, n, m) for n, m in sizes]
    for (n, m), c in zip(sizes, cases):
        ctx.tally(f"size:{n}x{m}")
    ctx.run_cases(OPS["detection_geo"], cases)
    ctx.run_cases(OPS["detection"], cases[:2])


def _stage_match(ctx, n):
    cases = [gen_match(ctx.rng) for _ in range(n)]
    for c in cases:
        ctx.tally(f"match:buffers={c.get('tb')}/{c.get('fb')}")
    ctx.run_cases(OPS["match_call"], cases)


def _stage_histories(ctx, n):
    ctx.run_cases(OPS["detection_history"], gen_histories(ctx, n))


# ---------------------------------------------------------------- tie 1: positional order of the parameters
def _signatures(ctx):
    import importlib
    import inspect
    D = importlib.import_module("soundevent.evaluation.tasks.sound_event_detection")
    C = importlib.import_module("soundevent.evaluation.tasks.common")
    try:
        matcher = G._matcher()
    except Exception:  # noqa: BLE001
        matcher = None
    fns = [("sound_event_detection", getattr(D, "sound_event_detection", None), 3), ("evaluate_clip", getattr(D, "evaluate_clip", None), 3),
           ("match_geometries", matcher, 4), ("iterate_over_valid_clips", getattr(C, "iterate_over_valid_clips", None), 2)]
    rows, bad = [], []
    for name, fn, k in fns:
        if not callable(fn):
            bad.append(f"{name} no longer exists")
            continue
        ps = [q for q in inspect.signature(fn).parameters.values()
              if q.kind in (inspect.Parameter.POSITIONAL_ONLY, inspect.Parameter.POSITIONAL_OR_KEYWORD)]
        rows.append((name, [q.name for q in ps[:k]]))
        if any(q.default is inspect.Parameter.empty for q in ps[k:]):
            bad.append(f"{name} has further required positional parameters: {[q.name for q in ps[k:]]}")
    if bad:
        ctx.pre_failed.append("signatures")
        ctx.fail("obligation", "signatures", detail="; ".join(bad), extra={"op": "detection"})
        return
    import json
    lit = "[" + ", ".join("(" + json.dumps(n) + ", [" + ", ".join(json.dumps(x) for x in ps) + "])" for n, ps in rows) + "]"
    ctx.obligation("signatures", f"example : {lit} = SE.Detection.signatures := by decide\n",
                   {"op": "detection", "extracted": {n: ps for n, ps in rows}})


# ---------------------------------------------------------------- triage: which replays are self-contained
def _fresh_impls(items, timeout=600):
    """the implementation's outputs on `items` [(op name, input)], each in a new interpreter state
    (harness/c08_worker.py: one forked child per item); None where that cannot be had"""
    import json
    import os
    import subprocess
    import sys
    from ..c08_worker import MARK
    outs = [None] * len(items)
    try:
        p = subprocess.run([sys.executable, "-m", "harness.c08_worker"],
                           input=json.dumps({"items": [{"op": op, "input": inp} for op, inp in items]}),
                           cwd=leanio.VERIF, env=dict(os.environ), stdout=subprocess.PIPE, stderr=subprocess.DEVNULL, text=True,
                           timeout=timeout)
        for line in p.stdout.splitlines():
            if line.startswith(MARK):
                rec = json.loads(line[len(MARK):])
                outs[rec["k"]] = rec["out"]
    except Exception:  # noqa: BLE001
        pass
    return outs


def _judge_again(ctx, op, inp, io):
    if op.holds is not None:
        msg = op.holds(ctx, inp, io)
        if msg:
            return msg
    if op.no_model or op.compare is None:
        return None
    return op.compare(inp, io, ctx.model(op.model_op, op.to_model(inp)))


def _triage(ctx):
    """The library may carry state from one call to the next; then a failure seen late in this run need not show
    when its input is replayed alone.  The smallest failing inputs are run once more in a new interpreter and judged
    again.  One that fails there too is a self-contained replay (its record then carries the fresh observation).
    One that passes there depends on what was called before: it is listed last, and the history replays - the
    whole sequence of calls is the input - are checked the same way and listed first.  Nothing is dropped, the
    verdict does not change."""
    import sys
    from .. import core
    findings = core.load_findings(ctx.pid)
    me = sys.modules[__name__]
    fs = [f for f in ctx.failures if f.kind == "property" and f.op in OPS and f.inp is not None
          and core.match_finding(me, findings, f) is None]
    if not fs:
        return
    size = lambda f: len(core_jkey(f.inp))                     # noqa: E731

    def smallest(cands, k):
        seen, out = set(), []
        for f in sorted(cands, key=size):
            sig = (f.op, f.detail[:40])
            if sig not in seen:
                seen.add(sig)
                out.append(f)
        return out[:k]

    plain = [f for f in fs if f.op != "detection_history"]
    hist = sorted((f for f in fs if f.op == "detection_history"), key=size)[:40]
    batch = smallest(plain, 3) + hist
    ios = _fresh_impls([(f.op, f.inp) for f in batch])

    def again(f, io):
        if io is None:
            return None
        try:
            return _judge_again(ctx, OPS[f.op], f.inp, io)
        except leanio.InfraError:
            raise
        except Exception:  # noqa: BLE001
            return None

    verdicts = [(f, io, again(f, io) if io is not None else None) for f, io in zip(batch, ios)]
    # histories are only moved to the front when a plain failure turned out to depend on what ran before it (or
    # there is no plain failure): a plain input that fails on its own is the smaller replay
    promote = not plain or any(io is not None and not msg for f, io, msg in verdicts if f.op != "detection_history")
    for f, io, msg in verdicts:
        if io is None:
            continue
        if f.op != "detection_history":
            if msg:
                f.detail += " [replay checked: fails in a new interpreter as well]"
                ctx.tally("triage:self-contained")
            else:
                sig = f.detail[:40]
                for g in plain:
                    if g.op == f.op and g.detail[:40] == sig:
                        g.size = (lambda g=g: 10 ** 9 + size(g))       # listed last
                f.detail += (" [observed in this run only: the same input passes in a new interpreter - the failure "
                             "depends on what was called before; see the history replays]")
                ctx.tally("triage:history-dependent")
        elif msg:
            f.extra = {**(f.extra or {}), "first_seen_as": f.detail[:300]}
            f.detail = msg + " [replay checked: this is what a new interpreter shows]"
            f.impl = io
            if promote:
                f.size = (lambda f=f: size(f) // 1000)             # self-contained history: first
            ctx.tally("triage:self-contained-history")
        else:
            f.size = (lambda f=f: 10 ** 9 + size(f))
            ctx.tally("triage:history-dependent-history")


def run(ctx):
    ctx.stage("tables", _tables, ctx)
    ctx.stage("signatures", _signatures, ctx)
    ctx.stage("symbolic-ties", _symbolic_ties, ctx)
    ctx.stage("discharge", ctx.discharge, ["Proofs.C08", "SoundeventModel.Tactics"])
    ctx.stage("corpus", ctx.run_corpus, OPS)
    ctx.stage("detection", _stage_detection, ctx, ctx.budget(1000, 12000))
    ctx.stage("detection-geo", _stage_geo, ctx, ctx.budget(750, 9000))
    ctx.stage("evaluate_clip", _stage_clips, ctx, ctx.budget(800, 12000))
    ctx.stage("pairing", _stage_pairing, ctx, ctx.budget(200, 3000))
    ctx.stage("boundaries", _stage_boundaries, ctx, ctx.budget(300, 4000))
    ctx.stage("decimal-grids", _stage_decimal, ctx, ctx.budget(300, 4000))
    ctx.stage("sizes", _stage_sizes, ctx)
    ctx.stage("matcher-calls", _stage_match, ctx, ctx.budget(250, 3000))
    ctx.stage("holes", _stage_holes, ctx, ctx.budget(150, 2000))
    ctx.stage("tag-variants", _stage_tag_variants, ctx, ctx.budget(150, 2000))
    # last: direct matcher calls with other buffers inside histories must not colour the plain cases above
    ctx.stage("histories", _stage_histories, ctx, ctx.budget(160, 1600))
    ctx.stage("triage", _triage, ctx)


def search(ctx, failures):
    ctx.run_cases(OPS["detection_geo"], [gen_geo(ctx.rng) for _ in range(300)])
    ctx.run_cases(OPS["detection"], [gen_detection(ctx.rng) for _ in range(300)])
    ctx.run_cases(OPS["eval_clip"], list(_exhaustive_clips()) + list(_exhaustive_clips(_NEAR_POOL)))
    ctx.run_cases(OPS["detection_geo"], [gen_boundary(ctx.rng) for _ in range(200)])
    ctx.run_cases(OPS["eval_clip"], list(_decimal_sweep(10, 10)))
    ctx.run_cases(OPS["detection_geo"], [gen_decimal(ctx.rng) for _ in range(300)])
    ctx.run_cases(OPS["match_call"], [gen_match(ctx.rng) for _ in range(200)])
    ctx.run_cases(OPS["detection_geo"], list(_hole_sweep()) + [gen_holes(ctx.rng) for _ in range(100)])
    ctx.run_cases(OPS["eval_clip"], list(_variant_sweep()))
    ctx.run_cases(OPS["detection_history"], gen_histories(ctx, 120))
    ctx.stage("triage", _triage, ctx)
