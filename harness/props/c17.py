"""C17 — Cropping and extending keep data on its coordinates and hit the requested size."""
import inspect
import itertools
import math
from fractions import Fraction

from ..core import Op, jkey
from ..rat import rat, frac, tol_eq
from ..axis_common import guarded, f, fl, is_err, dy, rats, canon_exc
from .. import c17_calls as calls
from .. import history

PROPERTY = "C17"
LEAN_MODULE = "Proofs.C17"
_T = "SE.Proofs.C17."
THEOREMS = [_T + n for n in [
    "C17_crop_exact", "C17_crop_rejects", "C17_extend_lattice", "C17_extend_keeps", "C17_extend_fill",
    "C17_width", "C17_placement", "C17_regular_axis_continues", "C17_step_known", "C17_arange_by_count",
    "C17_crop_bounds", "C17_extend_plan", "C17_extend_exact", "C17_width_keeps", "C17_crop_window",
    "C17_step_options", "C17_extend_closed", "C17_crop_closed", "C17_width_closed", "C17_step_closed",
    "C17_history_on_lattice", "C17_extend_twice", "C17_positional_binding", "C17_crop_positional", "C17_extend_positional",
    "C17_width_positional", "C17_step_positional", "C17_session_pointwise", "C17_session_replay", "C17_truthful_attribute"]]
LEVEL_TEXT = ("Lean theorems over the rational model of crop_dim (exactly the samples in the requested interval when no "
              "coordinate lies within eps of an open end), extend_dim (the whole result = filled samples on the lattice points "
              "below, the array itself, filled samples on the lattice points above; exactly the lattice points inside the "
              "requested interval) and adjust_dim_width / crop_dim_width / extend_dim_width (exactly `width` samples for every "
              "width >= 1, placement at start / centre / end, every original sample kept whatever it holds - NaN, +-inf, the "
              "fill value itself -, new samples filled, a regular axis continues on its lattice) hold for all inputs and any "
              "cell type. The numeric kernels of crop_dim (slice bounds) and extend_dim (np.arange calls and their guards) are "
              "extracted from the current source by symbolic execution and proved equal to the model for all inputs on every "
              "run (32 ties); the rest of the model is tied by exact differential runs on dyadic axes (every width 1..2n+3, "
              "three positions, all closedness flags, step from attribute or estimated, data with NaN / inf / fill-equal cells "
              "over 1-3 dimensions); defaults (eps, tolerances, closedness) are re-extracted from the signatures on every run. "
              "Histories: the class of arrays the theorems speak about (non-empty piece of the lattice, step known) is proved "
              "closed under every operation, and chains of 2-4 calls, each on the real output of the previous one, are "
              "compared call by call with the composed model. Calling conventions: Python's argument binding is part of the "
              "model (bindArgs with the model's signature tables); for any current signature whose leading positional parameters "
              "are the documented ones (re-extracted with inspect.signature on every run, 7 table obligations) every way of passing "
              "the optional arguments - k leading ones positionally in the documented order, the rest by keyword - is proved to "
              "bind each parameter to the value meant for it, and every such call style is run against the real code. Sessions "
              "(consecutive independent calls in one process on fresh, reused-and-changed and caller-edited objects) are judged "
              "call by call: the session model is proved pointwise and replay-stable. Library-produced inputs: an array on a "
              "regular lattice whose step attribute is truthful is proved to be treated exactly like the array without the "
              "attribute, so arrays produced by other library functions are judged by the lattice of their coordinates.")
LEVEL_NOTE = ("Unmodelled: binary64 rounding of numpy arange with a fractional step and of `end + k * step` (probed on the "
              "real code by the free-mode monitors with steps 0.01, 1/3, 0.004, 1/44100: length, data on coordinates, "
              "coordinates within 2^-40 of the lattice); xarray sel / reindex are modelled as label slice / label lookup. "
              "Requested open ends within eps of a coordinate are excluded by hypothesis, as in the property. "
              "Symbolic ties cover the arithmetic before the hand-over to xarray; crop_dim_width / extend_dim_width (integer "
              "index arithmetic) and get_dim_step (numpy reductions) are tied by generator-bounded correspondence, the "
              "defaults and the positional order of the signatures by table obligations. Sessions, construction paths (11 ways "
              "of building the array, 3 dimension names, 4 layouts, float32 / int64 axes, numpy scalar arguments), option "
              "products, tolerance-sized offsets around every comparison and size thresholds (16 .. 1025 samples) are "
              "generator-bounded correspondence on dyadic axes; every lattice point of a few non-dyadic axes is swept by the "
              "free-mode monitors. Data types (int16 / int32 / int64 / bool / float32 / float64) x fill values (integral, "
              "fractional, NaN, +-inf) and arrays produced by other library functions (create_*_range, *_dim_from_array, "
              "set_dim_attrs, resize, C17's own functions; premise monitor: a step attribute agrees with the coordinates) are "
              "generator-bounded correspondence as well: the theorems are generic in the cell type, the model has no data type.")
TECHNIQUE = ("Lean 4 proof over model; symbolic-trace equality obligations for the crop_dim / extend_dim kernels; table "
             "obligations for the signature defaults and the positional order of the seven public signatures; exact "
             "differential correspondence on dyadic axes (single calls in every call style, chained histories, sessions of "
             "independent calls); free-mode monitors for arange rounding")
RULE = ("dyadic axes of 1-40 points x every width 1..2n+3 x three positions x step attribute present/absent; crop and "
        "extend requests on, between and beyond coordinates with all closedness flags; cells with NaN / +-inf / fill-equal "
        "values over 1-d, 2-d and 3-d layouts; histories of 2-4 crop_dim / extend_dim / adjust_dim_width calls on "
        "the previous output; get_dim_step options; decimal-step monitors; every public function x every number of "
        "leading optional arguments passed positionally in the documented order x every flag / option combination; "
        "11 construction paths x 3 dimension names x 4 layouts; pairwise option products; offsets of 2^-20 .. 2^-40 "
        "relative size around every comparison at magnitudes 2^-7 .. 2^20; axis lengths / widths 16 .. 1025; sessions "
        "of 3-5 independent calls (x, a neighbour of x, x again) with reused-and-changed arrays (in place, shallow / "
        "deep copy, assign_coords), poisoned results, arguments snapshotted (values, coordinates, attributes) and "
        "earlier results read again; every coordinate / lattice point of non-dyadic axes (steps 0.01, 0.1, 1/3, 0.29); "
        "data types int16 / int32 / int64 / bool / float32 / float64 x fill values 0, -9, 77, 1/2, -9/4, 1e-3, NaN, +-inf x every "
        "filling and non-filling function; 13 first producers (library constructors) x resize to 6 sizes / C17's own functions "
        "as producers x the function under test, on dyadic (exact) and decimal (free-mode) axes; "
        "non-trivial = the implementation returned an array; distinct = distinct (operation, input)")
TRUSTED = ["the documented parameter order written down in harness/c17_calls.py DOCUMENTED (it must agree with the model's "
           "tables: any disagreement shows as a mismatch on the unchanged tree)",
           "xarray sel / reindex, pandas slice_indexer, numpy arange / diff / mean / isclose (modelled, validated by correspondence)",
           "symbolic tracer stubs of an xarray.DataArray with one range dimension (harness/props/c17.py _kernel_stubs)"]
ASSUMPTIONS = ["binary64 arithmetic is exact on the dyadic axes used for the exact comparisons",
               "axes strictly increasing with unique coordinates, step > 0 (the property's quantifier: regular axes); the "
               "kernel ties identify coords[0] / coords[-1] with the minimum / maximum label accordingly",
               "free-mode monitors: requested ends are nominal lattice points or half-way between two; the expected "
               "number of samples is the nominal count"]
NOT_COMPARED = ["error messages (only the error class)", "`start` / `stop` attributes written by extend_dim",
                "dtype of the data (an integer array may come back as float; cell values are compared numerically: a new "
                "sample must hold the fill value, an original sample its value)",
                "float32 data with a fill value float32 cannot hold (1e-3): the new samples hold the fill value rounded to "
                "single precision, a representation effect the property does not speak about - not generated",
                "what ops.resize and the create_* / *_dim_from_array / set_dim_attrs constructors return (not C17's functions): "
                "their output is read back and taken as the input; an untruthful step attribute they leave is tallied and noted, "
                "and the C17 call on it is judged against the lattice of the coordinates",
                "extension of a one-point axis that has no step attribute (the estimated step is NaN)",
                "adjust_dim_range (not part of the property; its signature is not in the table obligation either)",
                "whether a result is a view or a copy of its argument (crop_dim returns xarray views, adjust_dim_width with "
                "the current width returns its argument): a result is read again after later calls only while the caller "
                "has not written into its argument or into a result of the same argument",
                "auxiliary (non-index) coordinates, the array's name and attributes on the result",
                "eps passed as numpy.float32 (end - eps would be float32 arithmetic); calls that Python itself rejects "
                "(too many positional arguments, a parameter given twice)",
                "non-dyadic axes: only length, placement of the data, kept coordinates and lattice continuation within "
                "tolerance are checked on the real output (the rational model cannot exhibit arange rounding)"]

LAYOUTS = calls.LAYOUTS
OTHER_SHAPE = calls.OTHER_SHAPE
SPECIAL = calls.SPECIAL
_ncols = calls.ncols
_cell_float = calls.cell_float
_cell_of = calls.cell_of
_norm_data = calls.norm_data


# ------------------------------------------------------------------ implementations
# Arrays are built by harness/c17_calls.py (several construction paths, verified content); the functions under test
# are called by `calls.invoke` the way the request says (keywords, or the first k optional arguments positionally
# in the documented order).
def _mk(coords, data, step_attr, layout="1d", int_axis=False, int_data=False, dim="time", build="time_dim", data_dtype=None):
    return calls.make_array(coords, data, step_attr, layout, int_axis, int_data, dim, build, data_dtype=data_dtype)


def _out(arr, layout="1d", dim="time"):
    return calls.out_of(arr, layout, dim)


_arr_of = calls.array_of


def _snapshot(arr, dim="time"):
    return calls.snapshot(arr, dim)


def _observed(arr, fn, layout, dim="time"):
    """call the operation; an argument that comes back changed (values, coordinates, attributes) is reported"""
    before = _snapshot(arr, dim)
    r = fn(arr)
    if _snapshot(arr, dim) != before:
        return {"raise": "crash:input-array-mutated"}
    return _out(r, layout, dim)


def _q(inp, key):
    return calls._num(inp, key)


def _fn(fname):
    """the function under test, looked up when it is called (a renamed / removed function is an observation)"""
    from soundevent.arrays import operations as ops
    from soundevent.arrays import dimensions as dims
    return getattr(dims if fname in ("get_dim_step", "estimate_dim_step") else ops, fname)


def _call(fname, arr, inp):
    return calls.invoke(fname, _fn(fname), arr, inp)


@guarded
def _impl_crop(inp):
    return _observed(_arr_of(inp), lambda a: _call("crop_dim", a, inp), inp.get("layout", "1d"), inp.get("dim", "time"))


@guarded
def _impl_extend(inp):
    return _observed(_arr_of(inp), lambda a: _call("extend_dim", a, inp), inp.get("layout", "1d"), inp.get("dim", "time"))


def _call_width(arr, inp):
    return _call(calls.WIDTH_FN[inp["fn"]], arr, inp)


@guarded
def _impl_width(inp):
    return _observed(_arr_of(inp), lambda a: _call_width(a, inp), inp.get("layout", "1d"), inp.get("dim", "time"))


def _step_fname(inp):
    return "estimate_dim_step" if inp.get("via") == "estimate" else "get_dim_step"


@guarded
def _impl_dim_step(inp):
    arr = _mk(fl(inp["coords"]), [0] * len(inp["coords"]), f(inp.get("step_attr")), build=inp.get("build", "time_dim"))
    if inp.get("via") == "estimate":
        r = float(_call("estimate_dim_step", arr.coords["time"].data, {k: v for k, v in inp.items() if k != "estimate_step"}))
    else:
        r = float(_call("get_dim_step", arr, inp))
    return {"val": None if r != r else rat(r)}


def _cmp_dim_step(inp, io, mo):
    if is_err(io) or is_err(mo) or io.get("val") is None or mo.get("val") is None:
        return None if io == mo else "implementation and model disagree"
    # the mean of exact differences: one correctly rounded division
    return None if float(frac(mo["val"])) == float(frac(io["val"])) else "step differs from the correctly rounded mean"


@guarded
def _impl_dim_range(inp):
    from soundevent.arrays import dimensions as dims
    arr = _mk(fl(inp["coords"]), [0] * len(inp["coords"]), None)
    lo, hi = dims.get_dim_range(arr, "time")
    return {"val": [rat(float(lo)), rat(float(hi)), rat(float(dims.get_dim_width(arr, "time")))]}


# ---- histories: every call works on the array the previous call returned (attributes and all)
def _apply_step(arr, st, dim="time"):
    fn = st["fn"]
    st = dict(st, dim=dim)
    if fn == "crop_dim":
        return _call("crop_dim", arr, st)
    if fn == "extend_dim":
        return _call("extend_dim", arr, st)
    return _call("adjust_dim_width", arr, st)


@guarded
def _impl_history(inp):
    layout, dim = inp.get("layout", "1d"), inp.get("dim", "time")
    arr = _arr_of(inp)
    outs = []
    for st in inp["steps"]:
        try:
            before = _snapshot(arr, dim)
            r = _apply_step(arr, st, dim)
            o = {"raise": "crash:input-array-mutated"} if _snapshot(arr, dim) != before else _out(r, layout, dim)
        except Exception as e:  # noqa: BLE001 - an exception of the real code is the observation of that call
            o = canon_exc(e)
        outs.append(o)
        if is_err(o):
            break
        arr = r          # the real object: coordinates, data and whatever attributes the call left on it
    return {"val": outs}


def _cmp_history(inp, io, mo):
    if is_err(io) or is_err(mo):
        return None if io == mo else "implementation and model disagree"
    a, b = io["val"], mo["val"]
    for k, st in enumerate(inp["steps"]):
        if k >= len(a) or k >= len(b):
            return None if len(a) == len(b) else f"call {k + 1} ({st['fn']}): one side stopped earlier"
        if a[k] != b[k]:
            return (f"call {k + 1} of the history ({st['fn']} on the result of call {k}) disagrees with the model applied to "
                    f"the array as it was before that call: impl={jkey(a[k])[:200]} model={jkey(b[k])[:200]}")
        if is_err(b[k]):
            return None
        n = len(b[k]["val"]["coords"])
        if n == 0 or (n < 2 and inp.get("step_attr") is None):
            return None       # an empty axis / a one-point axis without step: outside the quantifier from here on
    return None


# ---- free mode (decimal steps): the real code only, judged by the property
def _free_data(inp):
    return list(inp["data"]) if inp.get("data") is not None else list(range(1, inp["n"] + 1))


def _free_axis(inp):
    import numpy as np
    a0, step, n = f(inp["a0"]), f(inp["step"]), inp["n"]
    coords = a0 + step * np.arange(n)
    return coords, _mk(coords, _free_data(inp), step if inp["attr"] else None, inp.get("layout", "1d"),
                       build=inp.get("build", "time_dim"), data_dtype=inp.get("data_dtype"))


def _free_result(o, coords):
    if is_err(o):
        return o
    return {"val": {"coords": fl(o["val"]["coords"]), "data": o["val"]["data"], "orig": [float(c) for c in coords]}}


@guarded
def _impl_width_free(inp):
    coords, arr = _free_axis(inp)
    req = {"fn": "adjust", "w": inp["w"], "fill": inp["fill"], "pos": inp["pos"], "call": inp.get("call"), "argty": inp.get("argty")}
    o = _observed(arr, lambda a: _call_width(a, req), inp.get("layout", "1d"))
    return _free_result(o, coords)


def _placement(n, w, pos):
    """offset of the original data inside the result (extension) / of the window inside the data (crop)"""
    if w >= n:
        extra = w - n
        return {"start": 0, "center": extra // 2, "end": extra}[pos]
    return {"start": 0, "center": max(0, n // 2 - w // 2), "end": n - w}[pos]


def _lattice_ok(cs, c0, i0, step_q):
    """cs[i] within tolerance of c0 + (i - i0) * step (exact rationals of the floats)"""
    for i, c in enumerate(cs):
        if not tol_eq(c0 + (i - i0) * step_q, c):
            return f"coordinate {i} = {c!r} is off the axis lattice"
    for a, b in zip(cs, cs[1:]):
        if not a < b:
            return "coordinates not strictly increasing"
    return None


def _same_data(observed, expected, layout):
    return _norm_data(observed, layout) == _norm_data(expected, layout)


def _holds_width_free(ctx, inp, out):
    if is_err(out):
        return "adjust_dim_width raised: %s" % out["raise"]
    n, w, pos, fill = inp["n"], inp["w"], inp["pos"], inp["fill"]
    layout = inp.get("layout", "1d")
    data = _free_data(inp)
    r = out["val"]
    cs, ds, orig = r["coords"], r["data"], r["orig"]
    if len(cs) != w:
        return f"{len(cs)} samples for width {w} (axis of {n}, position {pos})"
    off = _placement(n, w, pos)
    if w >= n:
        exp = [fill] * off + data + [fill] * (w - n - off)
        if cs[off:off + n] != orig:
            return "original coordinates not kept in place"
        i0 = off
    else:
        exp = data[off:off + w]
        if cs != orig[off:off + w]:
            return "cropped window is not the requested one"
        i0 = -off
    if not _same_data(ds, exp, layout):
        return "data not on its coordinates / wrong placement / new samples not filled"
    return _lattice_ok(cs, frac(inp["a0"]), i0, frac(inp["step"]))


@guarded
def _impl_extend_free(inp):
    coords, arr = _free_axis(inp)
    step = f(inp["step"])
    start = float(coords[0]) - inp["kl2"] / 2 * step
    stop = float(coords[-1]) + inp["kr2"] / 2 * step
    req = {"start": rat(start), "stop": rat(stop), "fill": inp["fill"], "lc": inp["lc"], "rc": inp["rc"],
           "argty": inp.get("argty"), "call": inp.get("call")}       # argty "np": the same numbers as numpy scalars
    o = _observed(arr, lambda a: _call("extend_dim", a, req), inp.get("layout", "1d"))
    return _free_result(o, coords)


def _nominal(k2, closed):
    """number of lattice points beyond the axis end inside an end that lies k2 half-steps away"""
    if k2 % 2 == 1:
        return k2 // 2
    k = k2 // 2
    return k if closed else max(k - 1, 0)


def _holds_extend_free(ctx, inp, out):
    if is_err(out):
        return "extend_dim raised: %s" % out["raise"]
    n, fill = inp["n"], inp["fill"]
    r = out["val"]
    cs, ds, orig = r["coords"], r["data"], r["orig"]
    nl = _nominal(inp["kl2"], inp["lc"])
    nr = _nominal(inp["kr2"], inp["rc"])
    if len(cs) != nl + n + nr:
        return (f"{len(cs)} samples, the axis lattice has {nl} + {n} + {nr} points in the requested "
                f"{'[' if inp['lc'] else '('}start, stop{']' if inp['rc'] else ')'}")
    if cs[nl:nl + n] != orig:
        return "original coordinates not kept in place"
    if not _same_data(ds, [fill] * nl + _free_data(inp) + [fill] * nr, inp.get("layout", "1d")):
        return "data not on its coordinates / new samples not filled"
    return _lattice_ok(cs, frac(inp["a0"]), nl, frac(inp["step"]))


# ---- crop in free mode: decimal axes, requested ends half-way between coordinates or on them
@guarded
def _impl_crop_free(inp):
    coords, arr = _free_axis(inp)
    step = f(inp["step"])
    start = float(coords[inp["i"]]) - (step / 2 if inp["half_l"] else 0.0)
    stop = float(coords[inp["j"]]) + (step / 2 if inp["half_r"] else 0.0)
    start, stop = max(start, float(coords[0])), min(stop, float(coords[-1]))
    req = {"start": rat(start), "stop": rat(stop), "lc": inp["lc"], "rc": inp["rc"], "argty": inp.get("argty"),
           "call": inp.get("call")}
    o = _observed(arr, lambda a: _call("crop_dim", a, req), inp.get("layout", "1d"))
    if is_err(o):
        return o
    return {"val": {"coords": fl(o["val"]["coords"]), "data": o["val"]["data"], "orig": [float(c) for c in coords],
                    "start": start, "stop": stop}}


def _holds_crop_free(ctx, inp, out):
    if is_err(out):
        return "crop_dim raised: %s" % out["raise"]
    r = out["val"]
    lc, rc, s, e = inp["lc"], inp["rc"], r["start"], r["stop"]
    keep = [k for k, c in enumerate(r["orig"]) if (s <= c if lc else s < c) and (c <= e if rc else c < e)]
    if r["coords"] != [r["orig"][k] for k in keep]:
        return "crop_dim did not return exactly the coordinates inside the requested interval"
    data = _free_data(inp)
    if not _same_data(r["data"], [data[k] for k in keep], inp.get("layout", "1d")):
        return "data not on its coordinates"
    return None


# ---- library-produced inputs: the array handed to a C17 function is what other library functions returned
# (create_*_range, *_dim_from_array, set_dim_attrs, ops.resize, and C17's own crop_dim / extend_dim / adjust_dim_width).
# The produced array is read back (coordinates, cells, `step` attribute): that content is the input of the final
# call.  Premise monitor: "the step attribute, if present, agrees with the coordinates within the estimation
# tolerance" (rtol 1e-5, atol 1e-8), evaluated after every producing step.  The expected result continues the
# lattice of the coordinates - which is the attribute's lattice whenever the attribute is truthful.
C17_PRODUCERS = ("crop_dim", "extend_dim", "width")
_P_RTOL, _P_ATOL = Fraction(1, 100000), Fraction(1, 100000000)


def _read_axis(arr, dim):
    """(coordinates as Fractions, step attribute as Fraction | None | 'bad', lattice step | None, regular?)"""
    import numpy as np
    cs = [Fraction(float(c)) for c in np.asarray(arr.coords[dim].values)]
    a = arr.coords[dim].attrs.get("step")
    try:
        attr = None if a is None else Fraction(float(a))
    except (TypeError, ValueError, OverflowError):
        attr = "bad"
    lat, regular = None, True
    if len(cs) >= 2:
        lat = (cs[-1] - cs[0]) / (len(cs) - 1)
        tol = _P_ATOL + _P_RTOL * abs(lat)
        regular = lat > 0 and all(abs((b - a_) - lat) <= tol for a_, b in zip(cs, cs[1:]))
    return cs, attr, lat, regular


def _attr_truthful(attr, lat):
    if attr == "bad":
        return False
    if attr is None or lat is None:
        return True
    return abs(attr - lat) <= _P_ATOL + _P_RTOL * abs(lat)


def _rel_request(spec, cs, step):
    """a request given relative to the axis as it is (half-steps beyond the ends, coordinate indices, width
    difference) -> the request in absolute numbers (exact rationals)"""
    n = len(cs)
    fn = spec["fn"]
    if fn == "extend_dim":
        req = {"fn": fn, "start": None if spec.get("none_l") else rat(cs[0] - Fraction(spec["kl2"], 2) * step),
               "stop": None if spec.get("none_r") else rat(cs[-1] + Fraction(spec["kr2"], 2) * step),
               "lc": spec["lc"], "rc": spec["rc"], "fill": spec["fill"], "eps": None}
    elif fn == "crop_dim":
        i = min(spec["i"], n - 1)
        j = min(max(spec["j"], i), n - 1)
        st = max(cs[i] - (step / 2 if spec.get("half_l") else 0), cs[0])
        en = min(cs[j] + (step / 2 if spec.get("half_r") else 0), cs[-1])
        req = {"fn": fn, "start": rat(st), "stop": rat(en), "lc": spec["lc"], "rc": spec["rc"], "eps": None}
    else:
        req = {"fn": "width", "w": max(1, n + spec["dw"]), "fill": spec["fill"], "pos": spec["pos"]}
    if spec.get("call") is not None:
        req["call"] = spec["call"]
    return req


def _first_array(p, dim, layout):
    """the first producer: an array built through the library's constructors (or plainly)"""
    import numpy as np
    import xarray as xr
    from soundevent.arrays import dimensions as dims
    kind = p["p"]
    a0, step, n = f(p["a0"]), f(p["step"]), p["n"]
    k = _ncols(layout)
    if kind == "range":
        how = p.get("how", "step")
        if p["fn"] == "create_range_dim":
            kw = {"size": n} if how == "size" else {"step": step}
            var = dims.create_range_dim(dim, a0, a0 + n * step, **kw)
        elif p["fn"] == "create_frequency_range":
            var = dims.create_frequency_range(a0, a0 + n * step, step, name=dim)
        else:
            kw = {"samplerate": 1 / step} if how == "samplerate" else {"step": step}
            var = dims.create_time_range(a0, a0 + n * step, name=dim, **kw)
        m = int(var.shape[0])
        c = np.asarray(var.values)
    else:
        c = a0 + step * np.arange(n)
        m = n
        if kind == "from_array":
            how = p.get("how", "step")
            kw = {"step": step} if how == "step" else {"estimate_step": True} if how == "estimate" else {"samplerate": 1 / step}
            if p["fn"] == "frequency" and how == "samplerate":
                kw = {"step": step}
            ctor = dims.create_frequency_dim_from_array if p["fn"] == "frequency" else dims.create_time_dim_from_array
            var = ctor(c, name=dim, **kw)
        else:
            var = xr.Variable((dim,), c, attrs={"step": step} if (kind == "plain" and p.get("attr")) else {})
    data = [[("nan" if (i % 7 == 3 and j == 0) else (i + 1) + 100 * j) for j in range(k)] if k > 1 else ("nan" if i % 7 == 3 else i + 1)
            for i in range(m)]
    arr = calls._assemble(calls._matrix(data, layout, False), var, c, dim, layout)
    if kind == "set_dim_attrs":
        arr = dims.set_dim_attrs(arr, dim, step=step)
    return arr


def _produce_step(arr, p, dim):
    """one transforming producer applied to the real object"""
    if p["p"] == "resize":
        from soundevent.arrays import operations as ops
        n = arr.sizes[dim]
        size = {"double": 2 * n, "quad": 4 * n, "half": max(n // 2, 1), "same": n, "plus3": n + 3, "third": max(n // 3, 1)}[p["size"]]
        kw = {dim: size}
        return ops.resize(arr, method=p.get("method", "linear"), **kw) if p.get("method") else ops.resize(arr, **kw)
    cs, attr, lat, _reg = _read_axis(arr, dim)
    step = lat if lat is not None else attr
    return _apply_step(arr, _rel_request(p, cs, step), dim)


def _impl_produced(inp):
    dim, layout = inp.get("dim", "time"), inp.get("layout", "1d")
    chain = inp["chain"]
    trail, culprit = [], None
    try:
        arr = _first_array(chain[0], dim, layout)
    except Exception as e:  # noqa: BLE001 - the constructors are not under test here
        return {"val": {"skip": "producer-raised:" + chain[0]["p"] + ":" + type(e).__name__}}
    for k, p in enumerate(chain):
        if k > 0:
            cs, attr, lat, regular = _read_axis(arr, dim)
            if not cs or not regular or (lat is None and attr in (None, "bad")):
                return {"val": {"skip": "outside-quantifier-after:" + "+".join(trail)}}
            try:
                arr = _produce_step(arr, p, dim)
            except Exception as e:  # noqa: BLE001
                return {"val": {"skip": "producer-raised:" + p.get("fn", p["p"]) + ":" + type(e).__name__}}
        name = "resize" if p["p"] == "resize" else ("create_%s_dim_from_array" % p["fn"]) if p["p"] == "from_array" else p.get("fn", p["p"])
        trail.append(name)
        cs, attr, lat, regular = _read_axis(arr, dim)
        if culprit is None and not _attr_truthful(attr, lat):
            culprit = {"step": k, "producer": name, "attr": None if attr in (None, "bad") else rat(attr),
                       "lattice": None if lat is None else rat(lat)}
    cs, attr, lat, regular = _read_axis(arr, dim)
    if not cs or not regular or (lat is None and attr in (None, "bad")):
        return {"val": {"skip": "outside-quantifier-after:" + "+".join(trail)}}
    truthful = _attr_truthful(attr, lat)
    step = attr if (attr not in (None, "bad") and truthful) else lat
    if step is None or step <= 0:
        return {"val": {"skip": "no-step-after:" + "+".join(trail)}}
    produced = _out(arr, layout, dim)
    if is_err(produced):
        return {"val": {"skip": "producer-changed-shape:" + "+".join(trail)}}
    req = _rel_request(inp["call"], cs, step)
    try:
        before = _snapshot(arr, dim)
        r = _apply_step(arr, req, dim)
        out = {"raise": "crash:input-array-mutated"} if _snapshot(arr, dim) != before else _out(r, layout, dim)
    except Exception as e:  # noqa: BLE001 - an exception of the real code is the observation
        out = canon_exc(e)
    return {"val": {"produced": produced["val"], "step_attr": None if attr in (None, "bad") else rat(attr), "step": rat(step),
                    "truthful": truthful, "culprit": culprit, "trail": trail, "request": req, "out": out}}


def _holds_produced(ctx, inp, io):
    if is_err(io):
        return "the driver of the construction path raised %s" % io["raise"]
    v = io["val"]
    if "skip" in v:
        ctx.tally("produced:skipped:" + v["skip"].split(":")[0])
        return None
    trail, req, out = v["trail"], v["request"], v["out"]
    layout = inp.get("layout", "1d")
    ctx.tally("produced:" + ">".join(trail) + ">" + req["fn"])
    cul = v["culprit"]
    if cul is not None:
        what = (f"after `{cul['producer']}` (step {cul['step']} of {' -> '.join(trail)}) the `step` attribute {cul['attr']} contradicts "
                f"the coordinates (spacing {cul['lattice']})")
        if cul["producer"] in C17_PRODUCERS and cul["step"] > 0:
            return what + ": the function returned an axis that later calls cannot continue on its own lattice"
        ctx.tally("produced:untruthful-step-attribute-from:" + cul["producer"])
        note = "construction paths: " + what.split(" (step")[0] + " left a `step` attribute that contradicts the coordinates (not one of C17's functions)"
        if note not in ctx.notes:
            ctx.note(note)
    cs = [frac(c) for c in v["produced"]["coords"]]
    step = frac(v["step"])
    data = v["produced"]["data"]
    nums = [frac(req[k]) for k in ("start", "stop") if req.get(k) is not None] + [step]
    exact = all(c == cs[0] + i * step for i, c in enumerate(cs)) and all(float(q) == q and q.denominator <= (1 << 30) for q in nums + cs)
    suffix = "" if v["truthful"] else (f" [the input's step attribute {v['step_attr']} contradicts its coordinates (spacing {v['step']}); "
                                        f"produced by {' -> '.join(trail)}]")
    if exact:
        ctx.tally("produced:judged-exact")
        full = dict(req, coords=v["produced"]["coords"], data=data, step_attr=v["step"], layout=layout)
        mo = ctx.model({"crop_dim": "crop_dim", "extend_dim": "extend_dim", "width": "width"}[req["fn"]],
                       calls.to_model(_SESSION_FN[req["fn"]], dict(full, fn="adjust") if req["fn"] == "width" else
                                      {k: x for k, x in full.items() if k != "fn" and not (req["fn"] == "crop_dim" and k == "step_attr")}))
        o = {k: x for k, x in out.items() if k != "trace"}
        if o != mo:
            return (f"{req['fn']} on the array produced by {' -> '.join(trail)} disagrees with the model on that array: "
                    f"impl={jkey(o)[:200]} model={jkey(mo)[:200]}" + suffix)
        return None
    # non-dyadic axes: the property evaluated on the real output (length, placement, fill, lattice within tolerance)
    ctx.tally("produced:judged-free")
    n = len(cs)
    base = {"n": n, "layout": layout, "data": data, "a0": rat(cs[0]), "step": v["step"]}
    fo = None if is_err(out) else {"val": {"coords": fl(out["val"]["coords"]), "data": out["val"]["data"], "orig": [float(c) for c in cs]}}
    call = inp["call"]
    if req["fn"] == "width":
        msg = _holds_width_free(ctx, dict(base, w=req["w"], pos=req["pos"], fill=req["fill"]), fo or out)
    elif req["fn"] == "extend_dim":
        msg = _holds_extend_free(ctx, dict(base, fill=req["fill"], kl2=0 if call.get("none_l") else call["kl2"],
                                           kr2=0 if call.get("none_r") else call["kr2"], lc=True if call.get("none_l") else call["lc"],
                                           rc=True if call.get("none_r") else call["rc"]), fo or out)
    else:
        if fo is not None:
            fo["val"].update(start=f(req["start"]), stop=f(req["stop"]))
        msg = _holds_crop_free(ctx, dict(base, lc=req["lc"], rc=req["rc"]), fo or out)
    return None if msg is None else f"{req['fn']} on the array produced by {' -> '.join(trail)}: {msg}" + suffix


_NOOP = dict(model_op="noop", to_model=lambda inp: {}, compare=lambda inp, io, mo: None, mode="tolerance")


def _tm(fname, drop=()):
    return lambda inp: calls.to_model(fname, inp, drop)


def _tm_width(inp):
    return calls.to_model(calls.WIDTH_FN.get(inp.get("fn"), "adjust_dim_width"), inp)


def _tm_history(inp):
    out = calls.to_model("crop_dim", {k: v for k, v in inp.items() if k != "steps"})
    out["steps"] = [calls.to_model(_SESSION_FN[st["fn"]], st) for st in inp["steps"]]
    return out


# ---- sessions: independent calls in one process (harness/history.py): the same array with other options, the same
# axis with other data, an array object that is changed and used again, results the caller writes into, results
# read again after later calls.  Every call is judged by the model of that call (`runSession`, theorem
# C17_session_pointwise); the replay is the whole session.
_SESSION_FN = {"crop_dim": "crop_dim", "extend_dim": "extend_dim", "width": "adjust_dim_width"}
H_REUSE = ("inplace", "shallow_copy", "deep_copy", "assign_coords")


class _Live:
    """a returned array kept alive, with the state of its argument's family when it was returned"""
    def __init__(self, arr, fam):
        self.arr, self.fam, self.gen, self.first = arr, fam, fam["gen"], None


def _s_build(inp):
    return {"arr": _arr_of(inp), "inp": inp, "fam": {"gen": 0}}


def _s_call(args):
    inp = args["inp"]
    return _Live(_call(_SESSION_FN[inp["fn"]], args["arr"], inp), args["fam"])


def _s_canon(inp, args, res):
    if res.first is not None and res.gen != res.fam["gen"]:
        # the caller has since written into the argument (or into a result of its family): selections of xarray are
        # views of the argument's buffers, so this result may legitimately have followed; it is not read again
        return res.first
    out = _out(res.arr, inp.get("layout", "1d"), inp.get("dim", "time"))
    if res.first is None:
        res.first = out
    return out


def _s_snapshot(args):
    return _snapshot(args["arr"], args["inp"].get("dim", "time"))


def _same_shape(a, b):
    return all(a.get(k, d) == b.get(k, d) for k, d in (("layout", "1d"), ("dim", "time"), ("int_axis", False), ("int_data", False),
                                                    ("data_dtype", None))) \
        and len(a["coords"]) == len(b["coords"]) and not a.get("f32_axis") and not b.get("f32_axis")


def _s_modify(args, inp, how):
    """the array object of the previous step made to carry this step's content: written into in place, through a
    shallow / deep copy, or by assign_coords - nothing an earlier call remembered about the object (or about its
    buffers, its attribute dictionaries) may survive the change"""
    import copy
    import numpy as np
    import xarray as xr
    old = args["inp"]
    if not _same_shape(old, inp) or (old.get("build") == "aux") != (inp.get("build") == "aux"):
        return None
    dim, layout = inp.get("dim", "time"), inp.get("layout", "1d")
    arr = args["arr"]
    fresh = calls.make_array(fl(inp["coords"]), inp["data"], f(inp.get("step_attr")), layout, inp.get("int_axis", False),
                             inp.get("int_data", False), dim, "plain", data_dtype=inp.get("data_dtype"))
    c = np.asarray(fresh.coords[dim].values)
    attrs = {} if inp.get("step_attr") is None else {"step": f(inp["step_attr"])}
    if how == "deep_copy":
        arr = copy.deepcopy(arr)
    elif how == "shallow_copy":
        arr = arr.copy(deep=False)
    if how == "assign_coords":
        arr = arr.assign_coords({dim: xr.Variable((dim,), c, attrs=attrs)}).copy(data=np.asarray(fresh.transpose(*arr.dims).values))
    elif how == "inplace" and np.asarray(arr.coords[dim].values).tobytes() == c.tobytes() \
            and arr.coords[dim].dtype == c.dtype:
        live = arr.coords[dim].attrs          # the same index object; only its attributes (the step) change
        live.pop("step", None)
        live.update(attrs)
    else:
        arr.coords[dim] = xr.Variable((dim,), c, attrs=attrs)
    if how != "assign_coords":
        try:
            arr.data[...] = np.asarray(fresh.transpose(*arr.dims).values)     # the same buffer, new content
        except ValueError:       # a read-only buffer: replace it
            arr.data = np.asarray(fresh.transpose(*arr.dims).values).copy()
    args["fam"]["gen"] += 1
    return {"arr": arr, "inp": inp, "fam": args["fam"]}


def _s_poison(res):
    """the caller edits what it got back: data, coordinate attributes, array attributes"""
    arr = res.arr
    res.fam["gen"] += 1
    try:
        if arr.size:
            arr.data[...] = 31337
    except ValueError:
        pass
    for cn in list(arr.coords):
        arr.coords[cn].attrs["step"] = 123.456
        arr.coords[cn].attrs["poisoned"] = True
    arr.attrs["step"] = 654.321
    return True


def _session_nontrivial(inp, out):
    return isinstance(out, dict) and "steps" in out and sum(1 for o in out["steps"] if not is_err(o)) >= 2


_SESSION_DRIVER = history.history_op("session", Op("call", None), _s_build, _s_call, _s_canon, snapshot=_s_snapshot,
                                     modify=_s_modify, poison=_s_poison)


def _holds_session(ctx, h, io):
    if is_err(io):
        return f"the session driver raised {io['raise']}"
    for n in io.get("notes", []):
        if n["what"] == "argument-mutated":
            return f"call {n['step']}: the call changed its argument in place (values, coordinates or attributes)"
        if n["what"] == "result-changed-later":
            return (f"the result returned by call {n['step']} changed after later calls "
                    f"(was {jkey(n['first'])[:160]} now {jkey(n['now'])[:160]})")
    mo = ctx.model("session", {"calls": [dict(calls.to_model(_SESSION_FN[st["inp"]["fn"]], st["inp"]), fn=st["inp"]["fn"])
                                         for st in h["seq"]]})
    if is_err(mo):
        return "the model rejects the session: %s" % mo["raise"]
    trail = []
    for k, (st, out, m) in enumerate(zip(h["seq"], io["steps"], mo["val"])):
        trail.append(st["inp"]["fn"] + ":" + ("reuse:" + str(st["reuse"]) if st.get("reuse") else "fresh") + ("+poison" if st.get("poison") else ""))
        o = {k2: v for k2, v in out.items() if k2 != "trace"} if isinstance(out, dict) else out
        if o != m:
            return (f"call {k} of the session ({' -> '.join(trail)}) disagrees with the model of that call on the array it was "
                    f"given: impl={jkey(o)[:200]} model={jkey(m)[:200]}")
    return None


_HARNESS_KEYS = calls.HARNESS_KEYS

OPS = {
    "crop_dim": Op("crop_dim", _impl_crop, to_model=_tm("crop_dim", {"step_attr"})),
    "extend_dim": Op("extend_dim", _impl_extend, to_model=_tm("extend_dim")),
    "width": Op("width", _impl_width, to_model=_tm_width),
    "history": Op("history", _impl_history, to_model=_tm_history, compare=_cmp_history,
                  nontrivial=lambda inp, out: not is_err(out) and len(out["val"]) >= 2 and not is_err(out["val"][1])),
    "session": Op("session", _SESSION_DRIVER.impl, holds=_holds_session, compare=lambda inp, io, mo: None, no_model=True,
                  nontrivial=_session_nontrivial),
    "dim_step": Op("dim_step", _impl_dim_step, to_model=lambda inp: calls.to_model(_step_fname(inp), inp, {"build"}),
                   compare=_cmp_dim_step, mode="round-once"),
    "dim_range": Op("dim_range", _impl_dim_range),
    "width_free": Op("width_free", _impl_width_free, holds=_holds_width_free, **_NOOP),
    "extend_free": Op("extend_free", _impl_extend_free, holds=_holds_extend_free, **_NOOP),
    "crop_free": Op("crop_free", _impl_crop_free, holds=_holds_crop_free, **_NOOP),
    "produced": Op("produced", _impl_produced, holds=_holds_produced, compare=lambda inp, io, mo: None, no_model=True,
                   nontrivial=lambda inp, out: not is_err(out) and "out" in out["val"] and not is_err(out["val"]["out"])),
}


# ------------------------------------------------------------------ tie 1: defaults of the signatures
def _defaults(ctx):
    from soundevent.arrays import operations as ops
    from soundevent.arrays import dimensions as dims

    def default(fn, name):
        p = inspect.signature(fn).parameters.get(name)
        if p is None or p.default is inspect.Parameter.empty:
            raise LookupError(f"{fn.__name__} has no default for `{name}`")
        return p.default

    def lit(x):
        q = Fraction(x)
        return f"(({q.numerator} : Rat) / {q.denominator})"

    facts = []
    for fn in (ops.crop_dim, ops.extend_dim):
        facts.append(f"SE.Axis.defaultEps = {lit(default(fn, 'eps'))}")
        if default(fn, "left_closed") is not True or default(fn, "right_closed") is not False:
            ctx.fail("obligation", "defaults", detail=f"{fn.__name__}: closedness defaults are no longer [start, stop)")
    est = getattr(dims, "estimate_dim_step", None)     # public helper; get_dim_step is what the operations call
    for fn in [dims.get_dim_step] + ([est] if est is not None else []):
        facts.append(f"SE.Axis.defaultRtol = {lit(default(fn, 'rtol'))}")
        facts.append(f"SE.Axis.defaultAtol = {lit(default(fn, 'atol'))}")
        if default(fn, "check_tolerance") is not True:
            ctx.fail("obligation", "defaults", detail=f"{fn.__name__}: check_tolerance default changed")
    if default(dims.get_dim_step, "estimate_step") is not True:
        ctx.fail("obligation", "defaults", detail="get_dim_step no longer estimates the step by default")
    src = "\n".join(f"example : {fact} := by decide +kernel" for fact in dict.fromkeys(facts))
    ctx.obligation("signature-defaults", src, {"op": "crop_dim"})


def _signature_order(ctx):
    """Tie 1: the positional order of the public signatures.  The parameters a caller can pass positionally
    (POSITIONAL_ONLY / POSITIONAL_OR_KEYWORD, in order) are re-extracted with inspect.signature and must start with the
    model's table (`SE.Axis.sigCropDim` ...: the order `bindArgs` uses for the positional arguments of a request).
    Keyword-only parameters cannot be reached positionally: their order is free.  Parameters after the documented ones
    must be optional.  One obligation per function; a vanished function is a broken obligation, not a crash."""
    P = inspect.Parameter
    for fname, table in calls.MODEL_TABLE.items():
        name = "signature-order:" + fname
        meta = {"op": "dim_step" if fname in ("get_dim_step", "estimate_dim_step") else
                "width" if fname.endswith("_width") else fname}
        try:
            params = list(inspect.signature(_fn(fname)).parameters.values())
        except Exception as e:  # noqa: BLE001
            ctx.pre_failed.append(name)
            ctx.fail("obligation", name, detail=f"the signature of {fname} cannot be read: {e!r}", extra=meta)
            continue
        positional = [p.name for p in params if p.kind in (P.POSITIONAL_ONLY, P.POSITIONAL_OR_KEYWORD)]
        lead, opts = calls.DOCUMENTED[fname]
        documented = lead + [o[0] for o in opts]
        extra = [p.name for p in params if p.name not in documented and p.default is P.empty
                 and p.kind not in (P.VAR_POSITIONAL, P.VAR_KEYWORD)]
        if extra:
            ctx.fail("obligation", name, detail=f"{fname} has new required parameters {extra}", extra=meta)
        lit = "[" + ", ".join('"%s"' % n.replace('"', "") for n in positional) + "]"
        ctx.obligation(name, f"example : SE.Axis.sigOK SE.Axis.{table} {lit} = true := by decide", meta)
        ctx.tally("signature-order:" + fname)


# ------------------------------------------------------------------ tie 1b: the numeric kernels of crop_dim / extend_dim
_DIM = "time"
_FLAGS = [(True, False), (False, True), (True, True), (False, False)]


def _kernel_stubs():
    """Stand-ins for an array with one range dimension.  They answer what crop_dim / extend_dim ask of
    an array (range, step attribute, coordinate values, label slice, reindex) with symbolic numbers and
    record the calls that hand over to xarray.  Behaviour is observed, not names: locals, helper
    functions, the order of independent statements may change freely."""
    import numpy
    from ..symtrace import Sym, Untraceable

    class HSym(Sym):
        """a symbolic argument that may be put into a dictionary key (identity hash): a memo keyed by the full input
        misses on every traced call (each call has its own array token, see `tobytes`), so the trace runs through the
        computation itself"""
        __slots__ = ()

        def __hash__(self):
            return id(self)

    def hvar(n):
        v = Sym.var(n)
        return HSym(v.e, v.f)

    sy = {n: hvar(n) for n in ("cs", "ce", "step", "s", "e", "eps")}
    tokens = itertools.count(1)

    class SBytes:
        """what identifies the content of a symbolic array in a cache key: unique per array object"""
        def __init__(self, tok, what):
            self.key = ("symbolic-array-%d-%s" % (tok, what)).encode()

        def tobytes(self, *a, **k):
            return self.key

    class SData(SBytes):
        dtype = numpy.dtype("float64")

    class SArr:
        """coordinate values: the original ones and / or generated pieces, in order"""
        dtype = numpy.dtype("float64")
        ndim = 1

        def __init__(self, pieces, tok=0):
            self.pieces = list(pieces)
            self.tok = tok

        def tobytes(self, *a, **k):
            return ("symbolic-coords-%d-%r" % (self.tok, self.pieces)).encode()

        def __getitem__(self, k):
            if isinstance(k, int) and not isinstance(k, bool):
                if k == -1 and self.pieces and self.pieces[-1] == ("orig",):
                    return sy["ce"]      # increasing axis: the last coordinate is the maximum
                if k == 0 and self.pieces and self.pieces[0] == ("orig",):
                    return sy["cs"]
                # an element of a generated piece: an opaque number.  It may be stored (attributes) but if it
                # reaches the slice bounds / arange arguments the obligation refers to an unknown name and fails
                return Sym.var("opaque_generated_coordinate")
            if isinstance(k, slice) and len(self.pieces) == 1 and self.pieces[0][0] == "arange":
                _, a, b, c, rev, drop = self.pieces[0]
                if (k.start, k.stop, k.step) == (None, None, -1):
                    return SArr([("arange", a, b, c, not rev, drop)])
                if (k.start, k.stop, k.step) in ((1, None, None), (1, None, 1)) and not rev:
                    return SArr([("arange", a, b, c, rev, drop + 1)])
            raise Untraceable(f"unsupported indexing {k!r} of the coordinate array")

        def min(self, *a, **k):
            if self.pieces == [("orig",)]:
                return sy["cs"]
            raise Untraceable("min of generated coordinates")

        def max(self, *a, **k):
            if self.pieces == [("orig",)]:
                return sy["ce"]
            raise Untraceable("max of generated coordinates")

        def astype(self, *a, **k):
            return self

        def copy(self, *a, **k):
            return SArr(self.pieces)

        def __len__(self):
            raise Untraceable("length of the coordinate array")

    class SMask:
        """a boolean mask over the labels, given by inclusive bounds: `(labels >= lo) & (labels <= hi)`"""
        def __init__(self, lo=None, hi=None):
            self.lo, self.hi = lo, hi

        def __and__(self, o):
            if not isinstance(o, SMask) or (self.lo is not None and o.lo is not None) or (self.hi is not None and o.hi is not None):
                raise Untraceable("unsupported combination of label masks")
            return SMask(self.lo if self.lo is not None else o.lo, self.hi if self.hi is not None else o.hi)

        __rand__ = __and__

    class SCoord:
        """`arr.coords[dim]` / `arr.indexes[dim]` / `arr[dim]`"""
        dtype = numpy.dtype("float64")
        dims = (_DIM,)
        __hash__ = None

        def __init__(self, tok=0):
            self.attrs = {"step": sy["step"], "units": "s"}
            self.tok = tok

        def __ge__(self, v):
            return SMask(lo=v)

        def __le__(self, v):
            return SMask(hi=v)

        data = property(lambda self: SArr([("orig",)], self.tok))
        values = property(lambda self: SArr([("orig",)], self.tok))

        def to_numpy(self):
            return SArr([("orig",)], self.tok)

        def min(self, *a, **k):
            return sy["cs"]

        def max(self, *a, **k):
            return sy["ce"]

        def __getitem__(self, k):
            return SArr([("orig",)], self.tok)[k]

    class SMap:
        def __init__(self, tok=0):
            self.c = SCoord(tok)

        def __getitem__(self, key):
            if key != _DIM:
                raise KeyError(key)
            return self.c

        def __contains__(self, key):
            return key == _DIM

        def get(self, key, default=None):
            return self.c if key == _DIM else default

    class SResult:
        """what the label slice / the reindexing returned"""
        def __init__(self, kind, payload):
            self.kind, self.payload = kind, payload
            self.coords = SMap(next(tokens))
            self.attrs = {}

        def __getitem__(self, key):
            return self.coords[key]

        def copy(self, *a, **k):       # a cached / returned copy of the result is the result
            return self

    class SDataArray:
        dims = (_DIM,)
        ndim = 1
        name = None
        dtype = numpy.dtype("float64")

        def __init__(self):
            self.tok = next(tokens)
            self.coords = SMap(self.tok)
            self.indexes = SMap(self.tok)
            self.attrs = {}
            self.shape = ("symbolic-length-%d" % self.tok,)      # usable in a key, not in arithmetic

        values = property(lambda self: SData(self.tok, "values"))
        data = property(lambda self: SData(self.tok, "values"))

        def copy(self, *a, **k):
            return self

        def __getitem__(self, key):
            return self.coords[key]

        def _one(self, indexers, kw):
            d = dict(indexers or {})
            d.update(kw)
            if list(d) != [_DIM]:
                raise Untraceable("indexers of another dimension")
            return d[_DIM]

        def sel(self, indexers=None, method=None, tolerance=None, drop=False, **kw):
            sl = self._one(indexers, kw)
            if not isinstance(sl, slice) or sl.step is not None or method is not None:
                raise Untraceable("crop_dim no longer takes a plain label slice")
            return SResult("sel", (sl.start, sl.stop))

        def where(self, cond, other=None, drop=False):
            if not isinstance(cond, SMask) or cond.lo is None or cond.hi is None or not drop:
                raise Untraceable("crop_dim no longer selects an inclusive label range")
            return SResult("sel", (cond.lo, cond.hi))

        @property
        def loc(self):
            outer = self

            class Loc:
                def __getitem__(self, key):
                    return outer.sel(key if isinstance(key, dict) else {_DIM: key})
            return Loc()

        def reindex(self, indexers=None, method=None, tolerance=None, copy=True, fill_value=None, **kw):
            cs = self._one(indexers, kw)
            if not isinstance(cs, SArr) or method is not None:
                raise Untraceable("extend_dim no longer reindexes onto the generated coordinates")
            return SResult("reindex", cs.pieces)

    real_arange, real_concat = numpy.arange, numpy.concatenate

    def arange(*a, **kw):
        kw = dict(kw)
        kw.pop("dtype", None)
        kw.pop("like", None)
        vals = list(a) + list(kw.values())
        if not any(isinstance(x, Sym) for x in vals):
            return real_arange(*a, **kw)
        names = ["start", "stop", "step"]
        if len(a) == 1 and "stop" not in kw:
            args = {"start": 0, "stop": a[0]}
        else:
            args = dict(zip(names, a))
        args.update(kw)
        return SArr([("arange", args.get("start", 0), args["stop"], args.get("step", 1), False, 0)])

    def concatenate(seq, *a, **kw):
        seq = list(seq)
        if not any(isinstance(x, SArr) for x in seq):
            return real_concat(seq, *a, **kw)
        if not all(isinstance(x, SArr) for x in seq):
            raise Untraceable("concatenation of symbolic and concrete coordinates")
        return SArr([p for x in seq for p in x.pieces])

    class patched:
        def __enter__(self):
            numpy.arange, numpy.concatenate = arange, concatenate

        def __exit__(self, *exc):
            numpy.arange, numpy.concatenate = real_arange, real_concat

    return sy, SDataArray, patched, Untraceable


def _symbolic_ties(ctx):
    from soundevent.arrays import operations as ops
    from .. import symx
    sy, SDataArray, patched, Untraceable = _kernel_stubs()
    V = ["cs", "ce", "step", "s", "e", "eps"]
    bl = {True: "true", False: "false"}

    def crop_thunk(kw):
        def run():
            with patched():
                r = ops.crop_dim(SDataArray(), _DIM, eps=sy["eps"], **kw)
            if getattr(r, "kind", None) != "sel":
                raise Untraceable("crop_dim did not return the label slice of the array")
            return r.payload
        return run

    def plan_leaf(r):
        if getattr(r, "kind", None) != "reindex":
            raise Untraceable("extend_dim did not return the reindexed array")
        pieces = list(r.payload)
        if pieces.count(("orig",)) != 1:
            raise Untraceable("the original coordinates are not kept as one block")
        i = pieces.index(("orig",))
        left, right = pieces[:i], pieces[i + 1:]

        def side(ps, rev, drop):
            if not ps:
                return "none"
            if len(ps) != 1 or ps[0][4] != rev or ps[0][5] != drop:
                raise Untraceable("new coordinates are no longer generated outward from the axis ends by arange")
            return "some (%s, %s, %s)" % tuple(symx.num(x) for x in ps[0][1:4])
        return f"some ({side(left, True, 0)}, {side(right, False, 1)})"

    def extend_thunk(kw):
        def run():
            with patched():
                return ops.extend_dim(SDataArray(), _DIM, eps=sy["eps"], fill_value=0, **kw)
        return run

    for has_s in (True, False):
        for has_e in (True, False):
            for lc, rc in _FLAGS:
                kw = {"left_closed": lc, "right_closed": rc}
                if has_s:
                    kw["start"] = sy["s"]
                if has_e:
                    kw["stop"] = sy["e"]
                tag = f"{'s' if has_s else 'n'}{'e' if has_e else 'n'}_{'c' if lc else 'o'}{'c' if rc else 'o'}"
                margs = f"{'(some s)' if has_s else 'none'} {'(some e)' if has_e else 'none'}"
                name = f"ext_crop_bounds_{tag}"
                ctx.sym_tie(name, crop_thunk(kw), V, "Rat × Rat",
                            f"SE.Axis.cropBounds cs ce {margs} {bl[lc]} {bl[rc]} eps",
                            tactic=f"unfold {name} SE.Axis.cropBounds\n  se_c17", meta={"op": "crop_dim"})
                name = f"ext_extend_plan_{tag}"
                symx.sym_tie(ctx, name, extend_thunk(kw), V,
                             "Option (Option SE.Axis.ArangeArgs × Option SE.Axis.ArangeArgs)",
                             f"SE.Axis.extendPlan cs ce ce step {margs} eps {bl[lc]} {bl[rc]}", plan_leaf,
                             tactic=f"unfold {name} SE.Axis.extendPlan\n  se_c17", meta={"op": "extend_dim"})


# ------------------------------------------------------------------ generators
def _axis(rng, n, k=None):
    k = k if k is not None else rng.choice([0, 1, 2, 3, 6])
    a0 = dy(rng, -8, 40, k)
    step = dy(rng, 2.0 ** -k, 4, k)
    return a0, step, [a0 + i * step for i in range(n)]


# every kind of fill value: integral, fractional (dyadic and not: 1e-3 is the binary64 number), NaN, +-inf
FRACTIONAL_FILLS = ["1/2", "-9/4", rat(1e-3)]
FILLS = [0, 0, -9, 77, "nan", "inf", "-inf"] + FRACTIONAL_FILLS
FILL_KINDS = [0, -9, 77, "nan", "inf", "-inf"] + FRACTIONAL_FILLS
_fill_fits = calls.fill_fits


def _cells(rng, n, k, fill):
    """data of n samples over k other positions: mostly distinct numbers, with NaN, +-inf and cells equal to
    the fill value mixed in (the operations must move cells, never reinterpret them)"""
    kind = rng.choice(["ramp", "ramp", "mixed", "mixed", "nan-heavy", "fill-equal"])
    rows = []
    for i in range(n):
        row = []
        for j in range(k):
            base = (i + 1) + 100 * j
            r = rng.random()
            if kind == "ramp":
                c = base
            elif kind == "mixed":
                c = "nan" if r < 0.15 else "inf" if r < 0.22 else "-inf" if r < 0.29 else fill if r < 0.4 else base
            elif kind == "nan-heavy":
                c = "nan" if r < 0.6 else base
            else:
                c = fill if r < 0.5 else base
            row.append(c)
        rows.append(row[0] if k == 1 else row)
    return rows


def _base(rng, coords, step, attr=None, layout=None, fill=0):
    n = len(coords)
    attr = (rng.random() < 0.5 or n < 2) if attr is None else attr
    layout = layout or rng.choice(LAYOUTS)
    b = {"coords": rats(coords), "data": _cells(rng, n, _ncols(layout), fill), "step_attr": rat(step) if attr else None,
         "layout": layout}
    if rng.random() < 0.15:
        b["argty"] = rng.choice(["np", "int"])
    if rng.random() < 0.2 and all(isinstance(c, int) for row in _norm_data(b["data"], layout) for c in row):
        # integer-typed / single-precision data with *every* kind of fill value (fractional, NaN, +-inf, integral):
        # the new samples must hold the fill value, whatever type the result needs for that
        r = rng.random()
        if r < 0.3:
            b["int_data"] = True
        else:
            dt = rng.choice(["int16", "int32", "int64", "float32"])
            if _fill_fits(dt, fill):
                b["data_dtype"] = dt
    return b


def _width_cases(ctx, lengths):
    rng = ctx.rng
    for n in lengths:
        a0, step, coords = _axis(rng, n)
        for attr in ([True, False] if n >= 2 else [True]):
            for w in range(1, 2 * n + 4):
                for pos in ("start", "center", "end"):
                    fill = rng.choice(FILLS)
                    b = _base(rng, coords, step, attr, fill=fill)
                    b.update({"fn": "adjust", "w": w, "fill": fill, "pos": pos})
                    yield b
        # defaults: no fill value (0), no position ("start")
        for w in (max(n - 1, 1), n + 2):
            for drop in ("fill", "pos", "both"):
                b = _base(rng, coords, step, True, fill=0)
                b.update({"fn": "adjust", "w": w, "fill": None if drop != "pos" else 5, "pos": None if drop != "fill" else "end"})
                yield b
        # rejected requests and the two halves called directly
        b = _base(rng, coords, step, True)
        for w, fn, pos in [(0, "adjust", "start"), (-1, "adjust", "end"), (n + 2, "adjust", "middle"),
                           (max(n - 1, 1), "adjust", "middle"), (n, "crop", "start"), (n + 1, "crop", "end"),
                           (n, "extend", "start"), (max(n - 1, 0), "extend", "center"), (n + 3, "extend", "center"),
                           (max(n - 1, 0), "crop", "center"), (n + 2, "extend", "bogus"), (0, "crop", "start"),
                           (0, "crop", "end"), (max(n - 1, 0), "crop", None), (n + 2, "extend", None)]:
            c = dict(b)
            c.update({"fn": fn, "w": w, "fill": 0, "pos": pos})
            yield c
    # integer-typed axis (the docstring examples), estimated step 1.0
    for n in (2, 5, 10):
        for w in range(1, 2 * n + 4):
            for pos in ("start", "center", "end"):
                yield {"coords": rats(range(n)), "data": list(range(1, n + 1)), "step_attr": None, "layout": "1d",
                       "int_axis": True, "int_data": w % 2 == 0, "fn": "adjust", "w": w, "fill": 0, "pos": pos}
    # irregular axis without the attribute: the step estimate is rejected
    yield {"coords": rats([0, 1, 3]), "data": [1, 2, 3], "step_attr": None, "layout": "1d",
           "fn": "adjust", "w": 5, "fill": 0, "pos": "start"}
    yield {"coords": rats([0, 1, 3]), "data": [1, "nan", 3], "step_attr": "1", "layout": "1d",
           "fn": "adjust", "w": 5, "fill": 0, "pos": "end"}
    # the smallest arrays that hold a NaN / an infinity / the fill value itself
    for data, fill in [([1, "nan", 3], 0), (["nan"], 0), (["inf", "-inf"], 0), ([0, 5, 0], 0), ([7, 7], 7),
                       (["nan", "nan"], "nan"), ([1, 2], "inf"), ([[1, "nan", 3], ["nan", 5, 6]], -9)]:
        n = len(data)
        layout = "2d-last" if isinstance(data[0], list) else "1d"
        for w in range(1, n + 4):
            for pos in ("start", "center", "end"):
                yield {"coords": rats(range(n)), "data": data, "step_attr": "1", "layout": layout,
                       "fn": "adjust", "w": w, "fill": fill, "pos": pos}


def _probe_points(rng, coords, step):
    """request end points: on coordinates, between them, a quarter step off"""
    pts = set(coords)
    for c in coords:
        pts.add(c + step / 2)
        pts.add(c + step / 4)
        pts.add(c - step / 4)
    return sorted(pts)


def _crop_cases(ctx, n_axes):
    rng = ctx.rng
    for _ in range(n_axes):
        n = rng.choice([1, 2, 3, 5, 8, 13, 40])
        a0, step, coords = _axis(rng, n)
        pts = [p for p in _probe_points(rng, coords, step) if coords[0] <= p <= coords[-1]]
        for _ in range(ctx.budget(40, 120)):
            s, e = rng.choice(pts), rng.choice(pts)
            if s > e and rng.random() < 0.9:
                s, e = e, s
            b = _base(rng, coords, step)
            b.update({"start": rat(s) if rng.random() < 0.85 else None, "stop": rat(e) if rng.random() < 0.85 else None,
                      "lc": rng.random() < 0.5, "rc": rng.random() < 0.5,
                      "eps": rng.choice([None, None, None, rat(Fraction(1, 1 << 20)), rat(step / 8), rat(step / 2)])})
            if rng.random() < 0.1:      # the closedness defaults [start, stop)
                b["lc"] = b["rc"] = None
            yield b
        # outside the axis, reversed
        b = _base(rng, coords, step)
        for s, e in [(coords[0] - step / 4, coords[-1]), (coords[0], coords[-1] + step / 4), (coords[-1], coords[0] - 1)]:
            c = dict(b)
            c.update({"start": rat(s), "stop": rat(e), "lc": True, "rc": False, "eps": None})
            yield c
    # every pair of ends on a small axis around zero (coordinates of both signs and zero itself)
    for coords in ([Fraction(i) for i in range(-3, 4)], [Fraction(i, 2) for i in range(-2, 2)], [Fraction(0)],
                   [Fraction(-5, 4), Fraction(-1, 4)]):
        for s in coords:
            for e in coords:
                if s <= e:
                    for lc, rc in _FLAGS:
                        for argty in (None, "int", "np"):      # ends as float, as Python int where whole, as numpy scalar
                            yield {"coords": rats(coords), "data": [("nan" if i % 3 == 1 else i) for i in range(len(coords))],
                                   "step_attr": None, "layout": "1d", "start": rat(s), "stop": rat(e), "lc": lc, "rc": rc,
                                   "eps": None, "argty": argty}
    # decimal axes: crop only compares (stop - eps is the one rounded operation, far from every coordinate)
    import numpy as np
    for step in (0.01, 0.1, 1 / 3, 0.004):
        for n in (5, 12):
            coords = [float(c) for c in (0.3 + step * np.arange(n))]
            for i in range(n):
                for j in range(i, n):
                    for lc, rc in _FLAGS:
                        yield {"coords": rats(coords), "data": list(range(1, n + 1)), "step_attr": rat(step),
                               "layout": "1d", "start": rat(coords[i]), "stop": rat(coords[j]), "lc": lc, "rc": rc,
                               "eps": None}


def _extend_cases(ctx, n_axes):
    rng = ctx.rng
    offs = [Fraction(0), Fraction(1, 4), Fraction(1, 2), Fraction(3, 4)]
    for _ in range(n_axes):
        n = rng.choice([1, 2, 3, 5, 8, 13, 40])
        a0, step, coords = _axis(rng, n)
        for kl in (0, 1, 2, 5):
            for kr in (0, 1, 3):
                for lc in (True, False):
                    for rc in (True, False):
                        fo, go = rng.choice(offs), rng.choice(offs)
                        fill = rng.choice(FILLS)
                        b = _base(rng, coords, step, fill=fill)
                        b.update({"start": rat(coords[0] - (kl + fo) * step), "stop": rat(coords[-1] + (kr + go) * step),
                                  "fill": fill, "lc": lc, "rc": rc,
                                  "eps": rng.choice([None, None, None, rat(Fraction(1, 1 << 20)), rat(step / 8), rat(step / 2)])})
                        if rng.random() < 0.1:
                            b["start"] = None
                        if rng.random() < 0.1:
                            b["stop"] = None
                        if rng.random() < 0.08 and isinstance(fill, int):      # defaults: fill 0, [start, stop)
                            b["fill"] = None
                            b["lc"] = b["rc"] = None
                            b["data"] = _cells(rng, n, _ncols(b["layout"]), 0)
                            b.pop("int_data", None)
                            b.pop("data_dtype", None)
                        yield b
        # not containing the axis, reversed: extend_dim does not crop
        b = _base(rng, coords, step)
        for s, e in [(coords[0] + step / 4, coords[-1] + step), (coords[0] - step, coords[-1] - step / 4),
                     (coords[-1] + 1, coords[0])]:
            c = dict(b)
            c.update({"start": rat(s), "stop": rat(e), "fill": 0, "lc": True, "rc": False, "eps": None})
            yield c
    # half-step axis, every combination of whole / half ends, given as float, Python int or numpy scalar
    half = [Fraction(0), Fraction(1, 2), Fraction(1)]
    for s in (Fraction(-1), Fraction(-1, 2), Fraction(0), None):
        for e in (Fraction(1), Fraction(3, 2), Fraction(2), None):
            for lc, rc in _FLAGS:
                for argty in (None, "int", "np"):
                    yield {"coords": rats(half), "data": [1, "nan", 3], "step_attr": "1/2" if lc else None, "layout": "1d",
                           "start": None if s is None else rat(s), "stop": None if e is None else rat(e), "fill": -9,
                           "lc": lc, "rc": rc, "eps": None, "argty": argty}
    # the smallest arrays that hold a NaN / an infinity / the fill value itself
    for data, fill in [([1, "nan", 3], 0), (["nan"], 0), (["inf", "-inf"], 0), ([0, 5, 0], 0), ([7, 7], 7),
                       (["nan", "nan"], "nan"), ([1, 2], "-inf")]:
        n = len(data)
        for kl in (0, 2):
            for kr in (0, 1):
                yield {"coords": rats(range(n)), "data": data, "step_attr": "1", "layout": "1d", "start": rat(-kl),
                       "stop": rat(n - 1 + kr), "fill": fill, "lc": True, "rc": True, "eps": None}


def _half(a0, step, h):
    """the point h half-steps from a0"""
    return a0 + Fraction(h, 2) * step


def _first_inside(h, closed):
    """smallest lattice index k with 2k >= h (closed) / 2k > h (open)"""
    return -((-h) // 2) if closed else h // 2 + 1


def _last_inside(h, closed):
    return h // 2 if closed else -((-h) // 2) - 1


def _history_step(rng, kind, kmin, kmax, a0, step, fill):
    """one call that stays inside the property's quantifier for an axis a0 + k * step, kmin <= k <= kmax;
    returns (call, new kmin, new kmax) or None"""
    n = kmax - kmin + 1
    lc, rc = rng.choice(_FLAGS)
    if kind == "extend_dim":
        hs = 2 * kmin - rng.choice([0, 0, 1, 2, 3, 4, 7])
        he = 2 * kmax + rng.choice([0, 0, 1, 2, 3, 5, 6])
        if not lc and hs == 2 * kmin:
            hs -= 1
        if not rc and he == 2 * kmax:
            he += 1
        st = {"fn": "extend_dim", "start": rat(_half(a0, step, hs)), "stop": rat(_half(a0, step, he)), "lc": lc, "rc": rc,
              "fill": fill, "eps": None}
        nmin, nmax = min(kmin, _first_inside(hs, lc)), max(kmax, _last_inside(he, rc))
        r = rng.random()
        if r < 0.12:
            st["start"], nmin = None, kmin
        elif r < 0.24:
            st["stop"], nmax = None, kmax
        return st, nmin, nmax
    if kind == "crop_dim":
        hs = rng.randint(2 * kmin, 2 * kmax)
        he = rng.randint(hs, 2 * kmax)
        if rng.random() < 0.3:
            he = 2 * kmax                 # up to the very end of the axis as it is now
        if rng.random() < 0.2:
            hs = 2 * kmin
        st = {"fn": "crop_dim", "start": rat(_half(a0, step, hs)), "stop": rat(_half(a0, step, he)), "lc": lc, "rc": rc, "eps": None}
        nmin, nmax = max(kmin, _first_inside(hs, lc)), min(kmax, _last_inside(he, rc))
        r = rng.random()
        if r < 0.12:
            st["start"], nmin = None, kmin
        elif r < 0.24:
            st["stop"], nmax = None, kmax
        return st, nmin, nmax
    w = rng.randint(max(1, n - 3), n + 4)
    pos = rng.choice(["start", "center", "end"])
    off = _placement(n, w, pos)
    st = {"fn": "width", "w": w, "fill": fill, "pos": pos}
    if w >= n:
        return st, kmin - off, kmin - off + w - 1
    return st, kmin + off, kmin + off + w - 1


_HISTORY_SHAPES = [("extend_dim", "extend_dim"), ("extend_dim", "crop_dim"), ("extend_dim", "crop_dim", "extend_dim"),
                   ("crop_dim", "extend_dim"), ("extend_dim", "width"), ("width", "extend_dim"), ("width", "crop_dim"),
                   ("crop_dim", "crop_dim"), ("extend_dim", "extend_dim", "crop_dim"), ("extend_dim", "width", "crop_dim", "extend_dim"),
                   ("crop_dim", "width", "extend_dim"), ("extend_dim", "extend_dim", "extend_dim")]


def _history_cases(ctx, count):
    """chains of 2-4 calls, each on the output of the previous one; the generator follows the axis (as lattice
    indices) so that every request stays inside the quantifier: crops inside, extensions containing the axis"""
    rng = ctx.rng
    kinds = ["extend_dim", "crop_dim", "width"]
    for i in range(count):
        n = rng.choice([1, 2, 3, 5, 8, 13])
        a0, step, coords = _axis(rng, n)
        if i < 6 * len(_HISTORY_SHAPES):
            shape = _HISTORY_SHAPES[i % len(_HISTORY_SHAPES)]
        else:
            shape = [rng.choice(kinds) for _ in range(rng.randint(2, 4))]
        fill = rng.choice(FILLS)
        b = _base(rng, coords, step, attr=True if rng.random() < 0.7 else None, fill=fill)
        b.pop("argty", None)
        if rng.random() < 0.3:
            b["build"] = rng.choice(calls.BUILDS[1:])
        if rng.random() < 0.2:
            b["dim"] = rng.choice(calls.DIMS[1:])
        kmin, kmax, steps = 0, n - 1, []
        for kind in shape:
            got = _history_step(rng, kind, kmin, kmax, a0, step, rng.choice([fill, fill, rng.choice(FILLS)]))
            st, kmin, kmax = got
            if rng.random() < 0.1:
                st["argty"] = rng.choice(["np", "int"])
            if rng.random() < 0.15:
                st["call"] = rng.randint(0, calls.n_optional(_SESSION_FN[st["fn"]]))
            steps.append(st)
            if kmax < kmin or (kmax == kmin and b["step_attr"] is None):
                break
        if not all(_fill_fits(b.get("data_dtype"), st.get("fill")) for st in steps):
            b.pop("data_dtype")
        if len(steps) >= 2:
            b["steps"] = steps
            ctx.tally(f"history:{len(steps)}-calls")
            ctx.tally("history:first-two=" + ">".join(st["fn"].split("_")[0] for st in steps[:2]))
            yield b
    # integer axis 0..4 (the docstring arrays), whole-number requests
    for shape in _HISTORY_SHAPES:
        kmin, kmax, steps = 0, 4, []
        for kind in shape:
            st, kmin, kmax = _history_step(rng, kind, kmin, kmax, Fraction(0), Fraction(1), 0)
            steps.append(st)
            if kmax < kmin:
                break
        if len(steps) >= 2:
            yield {"coords": rats(range(5)), "data": [1, 2, "nan", 4, 5], "step_attr": None if rng.random() < 0.5 else "1",
                   "layout": "1d", "steps": steps}


def _step_cases(ctx):
    """get_dim_step / estimate_dim_step with every option: attribute, estimate, tolerances, switches"""
    rng = ctx.rng
    tols = [None, "0", rat(Fraction(1, 4)), rat(Fraction(1, 64)), rat(Fraction(1, 1 << 20))]
    for _ in range(ctx.budget(300, 3000)):
        n = rng.choice([1, 2, 3, 3, 5, 9, 17])
        a0, step, coords = _axis(rng, n, rng.choice([0, 1, 3]))
        if rng.random() < 0.6 and n >= 3:     # make it irregular by a dyadic amount
            i = rng.randrange(1, n)
            d = step * rng.choice([Fraction(1, 2), Fraction(1, 8), Fraction(1, 1 << 12), Fraction(1, 1 << 24)])
            coords = coords[:i] + [c + d for c in coords[i:]]
        inp = {"coords": rats(coords), "step_attr": rat(step * 3) if rng.random() < 0.2 else None,
               "rtol": rng.choice(tols), "atol": rng.choice(tols),
               "check_tolerance": rng.choice([None, True, False]), "estimate_step": rng.choice([None, None, True, False]),
               "via": "estimate" if rng.random() < 0.25 else None}
        if inp["via"] == "estimate":
            inp["step_attr"] = None
            inp["estimate_step"] = None
        # stay away from the tolerance boundary unless everything is exact
        ds = [b - a for a, b in zip(coords, coords[1:])]
        if ds:
            mean = sum(ds) / len(ds)
            rt = frac(inp["rtol"]) if inp["rtol"] is not None else Fraction(1e-5)
            at = frac(inp["atol"]) if inp["atol"] is not None else Fraction(1e-8)
            tol = at + rt * abs(mean)
            exact = float(mean) == mean and inp["rtol"] is not None and inp["atol"] is not None
            if not exact and any(abs(abs(d - mean) - tol) <= Fraction(1, 1 << 30) * max(1, tol) for d in ds):
                continue
        if rng.random() < 0.3:
            inp["call"] = rng.randint(0, calls.n_optional(_step_fname(inp)))
            ctx.tally(f"call:{_step_fname(inp)}:{inp['call']}")
        if rng.random() < 0.2:
            inp["build"] = rng.choice(calls.BUILDS[1:])
        yield inp


def _range_cases(ctx):
    rng = ctx.rng
    for _ in range(ctx.budget(60, 400)):
        n = rng.choice([1, 2, 5, 9])
        _a0, _step, coords = _axis(rng, n)
        yield {"coords": rats(coords)}


FREE_STEPS = [0.01, 1 / 3, 0.004, 1 / 44100, 0.1, 1e-3, 0.25, 1 / 22050, 0.3, 2.5]
FREE_STARTS = [0.0, 0.3, 12.7, 2.0, 100.03]
FREE_FILLS = [0, -9, "nan", "inf", "-inf"] + FRACTIONAL_FILLS


def _free_cells(rng, n, fill):
    """None = the ramp 1..n; otherwise cells with NaN / inf / the fill value among them"""
    if rng.random() < 0.5:
        return None
    return [("nan" if r < 0.25 else "inf" if r < 0.35 else fill if r < 0.5 else i + 1)
            for i, r in ((i, rng.random()) for i in range(n))]


def _width_free_cases(ctx):
    rng = ctx.rng
    for step in FREE_STEPS:
        for n in (1, 2, 5, 10, 37):
            for a0 in FREE_STARTS[:3]:
                for w in sorted({max(1, n - 3), n, n + 1, n + 2, n + 7, 2 * n + 1, 2 * n + 3}):
                    for pos in ("start", "end", "center"):
                        fill = rng.choice(FREE_FILLS)
                        yield {"a0": rat(a0), "step": rat(step), "n": n, "attr": n < 2 or rng.random() < 0.5,
                               "w": w, "pos": pos, "fill": fill, "layout": "1d", "data": _free_cells(rng, n, fill)}
    for _ in range(ctx.budget(400, 8000)):
        n = rng.randint(1, 60)
        fill = rng.choice(FREE_FILLS)
        yield {"a0": rat(rng.choice(FREE_STARTS + [rng.uniform(-3, 30)])),
               "step": rat(rng.choice(FREE_STEPS + [rng.uniform(1e-4, 2)])), "n": n, "attr": n < 2 or rng.random() < 0.5,
               "w": rng.randint(1, 2 * n + 3), "pos": rng.choice(["start", "end", "center"]), "fill": fill,
               "layout": rng.choice(LAYOUTS), "data": _free_cells(rng, n, fill), "call": rng.choice([None, None, None, 0, 1, 2, 3, "kwall"]),
               "argty": "np" if rng.random() < 0.2 else None, "build": rng.choice(["time_dim", "time_dim"] + calls.BUILDS[1:])}


def _free_typed(rng, cases):
    """the ramp 1..n stored as int16 / int32 / int64 / float32 data in some of the free-mode cases"""
    for c in cases:
        if c.get("data") is None and rng.random() < 0.35:
            dt = rng.choice(["int16", "int32", "int64", "float32"])
            if _fill_fits(dt, c.get("fill")):
                c["data_dtype"] = dt
        yield c


def _inside_quantifier(c):
    """an open end must lie strictly beyond the axis end (the requested interval contains the axis)"""
    if not c["lc"] and c["kl2"] == 0:
        c["kl2"] = 1
    if not c["rc"] and c["kr2"] == 0:
        c["kr2"] = 1
    return c


def _extend_free_cases(ctx):
    for c in _free_typed(ctx.rng, _extend_free_raw(ctx)):
        yield _inside_quantifier(c)


def _extend_free_raw(ctx):
    rng = ctx.rng
    for step in FREE_STEPS:
        for n in (1, 2, 5, 12):
            for a0 in FREE_STARTS[:4]:
                for kl2 in (0, 2, 3, 6):
                    for kr2 in (0, 2, 5, 8):
                        lc, rc = rng.choice(_FLAGS)
                        fill = rng.choice(FREE_FILLS)
                        yield {"a0": rat(a0), "step": rat(step), "n": n, "attr": True, "kl2": kl2, "kr2": kr2,
                               "lc": lc, "rc": rc, "fill": fill, "layout": "1d", "data": _free_cells(rng, n, fill)}
    for _ in range(ctx.budget(600, 10000)):
        n = rng.randint(1, 40)
        fill = rng.choice(FREE_FILLS)
        yield {"a0": rat(rng.choice(FREE_STARTS + [rng.uniform(-3, 30)])),
               "step": rat(rng.choice(FREE_STEPS + [rng.uniform(1e-3, 2)])), "n": n, "attr": n < 2 or rng.random() < 0.6,
               "kl2": rng.randint(0, 12), "kr2": rng.randint(0, 12), "lc": rng.random() < 0.5, "rc": rng.random() < 0.5,
               "fill": fill, "layout": rng.choice(LAYOUTS), "data": _free_cells(rng, n, fill),
               "argty": "np" if rng.random() < 0.3 else None, "call": rng.choice([None, None, None, 2, 4, 6, "kwall"]),
               "build": rng.choice(["time_dim", "time_dim"] + calls.BUILDS[1:])}


def _crop_free_cases(ctx):
    rng = ctx.rng
    steps = [s for s in FREE_STEPS if s >= 1e-3]
    for _ in range(ctx.budget(500, 6000)):
        n = rng.randint(1, 30)
        i = rng.randrange(n)
        j = rng.randrange(i, n)
        yield {"a0": rat(rng.choice(FREE_STARTS + [-1.7, rng.uniform(-3, 30)])), "step": rat(rng.choice(steps + [rng.uniform(1e-3, 2)])),
               "n": n, "attr": rng.random() < 0.5, "i": i, "j": j, "half_l": rng.random() < 0.5, "half_r": rng.random() < 0.5,
               "lc": rng.random() < 0.5, "rc": rng.random() < 0.5, "layout": rng.choice(LAYOUTS),
               "data": _free_cells(rng, n, 0), "argty": "np" if rng.random() < 0.3 else None,
               "call": rng.choice([None, None, None, 2, 3, 4, 5, "kwall"]), "build": rng.choice(["time_dim", "time_dim"] + calls.BUILDS[1:])}


# ------------------------------------------------------------------ construction paths, call styles (HISTORIES.md section 2)
ARGTYS = [None, "int", "np", "np32", "npint"]
_OP_FN = {"crop_dim": "crop_dim", "extend_dim": "extend_dim"}


def _fname_of(op, case):
    return calls.WIDTH_FN[case["fn"]] if op == "width" else _OP_FN[op]


def _styled(ctx, op, cases, p_call=0.25, p_build=0.3, p_dim=0.2):
    """the same requests, passed and built in other legitimate ways: the first k optional arguments positionally in
    the documented order (k = 0: everything by keyword, "kwall": the array and the dimension too), arrays from other
    construction paths, other dimension names, other scalar types, non-contiguous data"""
    rng = ctx.rng
    for c in cases:
        if rng.random() < p_call:
            fname = _fname_of(op, c)
            c["call"] = rng.choice(list(range(calls.n_optional(fname) + 1)) + ["kwall"])
            ctx.tally(f"call:{fname}:{c['call']}")
        if rng.random() < p_build:
            c["build"] = rng.choice(calls.BUILDS[1:])
            ctx.tally("build:" + c["build"])
        if rng.random() < p_dim:
            c["dim"] = rng.choice(calls.DIMS[1:])
        if c.get("layout") in ("2d-last", "3d-mid") and rng.random() < 0.3:
            c["noncontig"] = True
        if c.get("argty") is None and not c.get("int_axis") and rng.random() < 0.12:
            c["argty"] = rng.choice(ARGTYS[1:])
        yield c


def _positional_cases(ctx):
    """every public function x every way of passing its optional arguments (k leading ones positionally in the
    documented order, k = 0 .. all; all by keyword; array and dimension by keyword too) x every combination of the
    flags / options, on small axes where each flag changes the answer"""
    rng = ctx.rng
    axes = [([Fraction(i) for i in range(10)], None), ([Fraction(i, 2) for i in range(-2, 4)], "1/2")]
    out = {"crop_dim": [], "extend_dim": [], "width": []}
    flagsets = _FLAGS + [(None, None), (None, True), (False, None)]
    for coords, attr in axes:
        n = len(coords)
        data = [("nan" if i == 1 else i + 1) for i in range(n)]
        base = {"coords": rats(coords), "data": data, "step_attr": attr, "layout": "1d"}
        # crop_dim: requests whose ends are coordinates, so that each flag decides one sample
        for s, e in [(coords[2], coords[n - 3]), (None, coords[n - 3]), (coords[2], None), (coords[0], coords[-1]), (coords[3], coords[3])]:
            for lc, rc in flagsets:
                for eps in (None, "1/1024"):
                    for style in [None] + list(range(6)) + ["kwall"]:
                        out["crop_dim"].append(dict(base, start=None if s is None else rat(s), stop=None if e is None else rat(e),
                                                    lc=lc, rc=rc, eps=eps, call=style))
        # extend_dim: requests whose ends are lattice points beyond the axis
        step = coords[1] - coords[0]
        for s, e in [(coords[0] - 2 * step, coords[-1] + 3 * step), (None, coords[-1] + step), (coords[0] - step, None),
                     (coords[0], coords[-1])]:
            for lc, rc in flagsets:
                for fill in (None, -9, "nan"):
                    eps = rng.choice([None, "1/1024"])
                    for style in [None] + list(range(7)) + ["kwall"]:
                        if (lc is False and s == coords[0]) or (rc is False and e == coords[-1]):
                            continue      # an open end on the axis end does not contain the axis: outside the quantifier
                        out["extend_dim"].append(dict(base, start=None if s is None else rat(s), stop=None if e is None else rat(e),
                                                      lc=lc, rc=rc, eps=eps, fill=fill, call=style))
    # the width family
    for n in (1, 4, 5):
        coords = [Fraction(3, 2) + Fraction(i, 4) for i in range(n)]
        base = {"coords": rats(coords), "data": [("nan" if i == 1 else i + 1) for i in range(n)], "step_attr": "1/4", "layout": "1d"}
        for fn in ("adjust", "crop", "extend"):
            nopt = calls.n_optional(calls.WIDTH_FN[fn])
            for w in sorted({max(n - 2, 1), max(n - 1, 1), n, n + 1, n + 2, n + 3}):
                if (fn == "crop" and w >= n) or (fn == "extend" and w <= n):
                    continue
                for pos in (None, "start", "center", "end"):
                    for fill in ((None,) if fn == "crop" else (None, -9)):
                        for style in [None] + list(range(nopt + 1)) + ["kwall"]:
                            out["width"].append(dict(base, fn=fn, w=w, pos=pos, fill=fill, call=style))
    for op, cs in out.items():
        ctx.tally("positional-product:" + op, len(cs))
    return out


def _path_cases(ctx):
    """every construction path x every dimension name x every layout, one crop / extend / width request each"""
    rng = ctx.rng
    out = {"crop_dim": [], "extend_dim": [], "width": []}
    for build in calls.BUILDS:
        for dim in calls.DIMS:
            for layout in LAYOUTS:
                n = rng.choice([1, 2, 5, 8])
                a0, step, coords = _axis(rng, n, rng.choice([0, 1, 2]))
                fill = rng.choice(FILLS)
                for attr in ([True, False] if n >= 2 else [True]):
                    b = _base(rng, coords, step, attr, layout, fill)
                    b.update({"build": build, "dim": dim, "noncontig": rng.random() < 0.5})
                    b.pop("argty", None)
                    lc, rc = rng.choice(_FLAGS)
                    i, j = sorted((rng.randrange(n), rng.randrange(n)))
                    out["crop_dim"].append(dict(b, start=rat(coords[i]), stop=rat(coords[j]), lc=lc, rc=rc, eps=None))
                    kl, kr = rng.choice([0, 1, 2, 3]), rng.choice([0, 1, 2, 3])
                    out["extend_dim"].append(dict(b, start=rat(coords[0] - (kl + Fraction(1, 2)) * step),
                                                  stop=rat(coords[-1] + (kr + Fraction(1, 2)) * step), lc=lc, rc=rc, eps=None, fill=fill))
                    for w in (max(n - 1, 1), n, n + 3):
                        out["width"].append(dict(b, fn="adjust", w=w, fill=fill, pos=rng.choice(["start", "center", "end"])))
    # float32 axes (coordinates, steps and every lattice point reached are float32 numbers)
    for n in (1, 3, 6):
        coords = [Fraction(5, 4) + Fraction(i, 4) for i in range(n)]
        for attr in ([True, False] if n >= 2 else [True]):
            b = {"coords": rats(coords), "data": [i + 1 for i in range(n)], "step_attr": "1/4" if attr else None, "layout": "1d",
                 "f32_axis": True}
            for lc, rc in _FLAGS:
                out["crop_dim"].append(dict(b, start=rat(coords[0]), stop=rat(coords[-1]), lc=lc, rc=rc, eps=None))
                out["extend_dim"].append(dict(b, start=rat(coords[0] - Fraction(3, 4)), stop=rat(coords[-1] + Fraction(1, 2)),
                                              lc=lc, rc=rc, eps=None, fill=-9))
            for w in range(1, n + 4):
                for pos in ("start", "center", "end"):
                    out["width"].append(dict(b, fn="adjust", w=w, fill=-9, pos=pos))
    return out


# ------------------------------------------------------------------ products of options (HISTORIES.md section 3)
def _product_cases(ctx):
    """every option of a function against every other option and every class of input, all siblings (start / center /
    end, left / right, the three width functions): layouts, attribute presence, dimension names rotate underneath"""
    rng = ctx.rng
    out = {"crop_dim": [], "extend_dim": [], "width": []}
    rot = [0]

    def under(b):
        rot[0] += 1
        b["layout"] = LAYOUTS[rot[0] % 4]
        b["dim"] = calls.DIMS[(rot[0] // 4) % 3]
        return b

    fills = FILL_KINDS
    for n in (1, 2, 5, 6):
        a0, step, coords = _axis(rng, n, 2)
        for w in sorted({1, max(n - 1, 1), n, n + 1, n + 2, n + 3, 2 * n, 2 * n + 1}):
            for pos in ("start", "center", "end"):
                for fill in fills:
                    for attr in ([True, False] if n >= 2 else [True]):
                        b = under({"coords": rats(coords), "step_attr": rat(step) if attr else None})
                        b["data"] = _cells(rng, n, _ncols(b["layout"]), fill)
                        out["width"].append(dict(b, fn="adjust", w=w, fill=fill, pos=pos))
                        if w > n:
                            out["width"].append(dict(b, fn="extend", w=w, fill=fill, pos=pos))
                    if w < n:
                        out["width"].append(dict(b, fn="crop", w=w, fill=None, pos=pos))
    for n in (1, 2, 5):
        a0, step, coords = _axis(rng, n, 2)
        # classes of a requested end: absent, the axis end, a coordinate, between two coordinates
        starts = [None, coords[0], coords[n // 2], coords[n // 2] - step / 2 if n > 1 else coords[0]]
        stops = [None, coords[-1], coords[n // 2], coords[n // 2] + step / 2 if n > 1 else coords[-1]]
        for s in starts:
            for e in stops:
                for lc, rc in _FLAGS:
                    for eps in (None, rat(step / 8)):
                        b = under({"coords": rats(coords), "step_attr": rat(step) if rot[0] % 2 else None})
                        b["data"] = _cells(rng, n, _ncols(b["layout"]), 0)
                        out["crop_dim"].append(dict(b, start=None if s is None else rat(s), stop=None if e is None else rat(e),
                                                    lc=lc, rc=rc, eps=eps))
        starts = [None, coords[0], coords[0] - 2 * step, coords[0] - step * Fraction(5, 2), coords[0] - step / 4]
        stops = [None, coords[-1], coords[-1] + 3 * step, coords[-1] + step * Fraction(3, 2), coords[-1] + step / 4]
        for s in starts:
            for e in stops:
                for lc, rc in _FLAGS:
                    if (not lc and s == coords[0]) or (not rc and e == coords[-1]):
                        continue
                    for fill in (fills if ctx.thorough() else fills[:1] + fills[1::2] + [rng.choice(fills)]):
                        b = under({"coords": rats(coords), "step_attr": rat(step) if (rot[0] % 2 or n < 2) else None})
                        b["data"] = _cells(rng, n, _ncols(b["layout"]), fill)
                        out["extend_dim"].append(dict(b, start=None if s is None else rat(s), stop=None if e is None else rat(e),
                                                      lc=lc, rc=rc, eps=rng.choice([None, rat(step / 8)]), fill=fill))
    for op, cs in out.items():
        ctx.tally("option-product:" + op, len(cs))
    return out


# ------------------------------------------------------------------ data types x fill values
def _dtype_fill_cases(ctx):
    """every data type (int16 / int32 / int64 / bool / float32 / float64) x every kind of fill value (integral,
    fractional, NaN, +-inf) x every function that fills (extend_dim, extend_dim_width, adjust_dim_width at the three
    positions) and every function that does not (crop_dim, crop_dim_width, adjust_dim_width narrowing / same width).
    The property pins the cell values - every new sample holds the fill value, every original sample stays on its
    coordinate - not the data type of the result: values are compared numerically."""
    rng = ctx.rng
    out = {"crop_dim": [], "extend_dim": [], "width": [], "history": []}
    rot = 0
    for dt in calls.DATA_DTYPES + [None]:
        for fill in FILL_KINDS:
            if not _fill_fits(dt, fill):
                ctx.tally("dtype-fill:not-representable-in-float32")
                continue
            rot += 1
            n = (3, 4, 5)[rot % 3]
            a0, step, coords = _axis(rng, n, rot % 3)
            layout, dim = LAYOUTS[rot % 4], calls.DIMS[(rot // 4) % 3]
            k = _ncols(layout)
            if dt == "bool":
                data = [[(i + j) % 2 for j in range(k)] if k > 1 else i % 2 for i in range(n)]
            else:
                data = [[(i + 1) + 100 * j for j in range(k)] if k > 1 else i + 1 for i in range(n)]
            b = {"coords": rats(coords), "data": data, "layout": layout, "dim": dim}
            if dt is not None:
                b["data_dtype"] = dt
            ctx.tally(f"dtype-fill:{dt or 'float64'}")
            half = Fraction(1, 2)
            for attr, (s, e, lc, rc) in zip((True, False, True), [(coords[0] - (2 + half) * step, coords[-1] + (1 + half) * step, True, False),
                                                                  (None, coords[-1] + 2 * step, True, True),
                                                                  (coords[0] - step, None, True, False)]):
                out["extend_dim"].append(dict(b, step_attr=rat(step) if attr else None, start=None if s is None else rat(s),
                                              stop=None if e is None else rat(e), lc=lc, rc=rc, eps=None, fill=fill,
                                              call=rng.choice([None, None, 3, 6])))
            for pos in ("start", "center", "end"):
                out["width"].append(dict(b, step_attr=rat(step), fn="extend", w=n + 3, fill=fill, pos=pos))
                out["width"].append(dict(b, step_attr=None, fn="adjust", w=n + 2, fill=fill, pos=pos, call=rng.choice([None, 2, 3])))
            out["width"].append(dict(b, step_attr=rat(step), fn="adjust", w=n, fill=fill, pos="center"))
            out["width"].append(dict(b, step_attr=rat(step), fn="adjust", w=n - 1, fill=fill, pos="end"))
            out["width"].append(dict(b, step_attr=None, fn="crop", w=n - 1, fill=None, pos="center"))
            out["crop_dim"].append(dict(b, step_attr=None, start=rat(coords[1]), stop=rat(coords[-1]), lc=True, rc=rot % 2 == 0, eps=None))
            # a chain: the first call may change the data type of the array, the second fills again
            other = FILL_KINDS[(rot * 5) % len(FILL_KINDS)]
            if _fill_fits(dt, other):
                out["history"].append(dict(b, step_attr=rat(step), steps=[
                    {"fn": "extend_dim", "start": rat(coords[0] - step), "stop": rat(coords[-1] + step * half), "lc": True, "rc": False,
                     "fill": fill, "eps": None},
                    {"fn": "width", "w": n + 4, "fill": other, "pos": ("start", "center", "end")[rot % 3]},
                    {"fn": "crop_dim", "start": rat(coords[0] - step), "stop": rat(coords[-1] + 2 * step), "lc": True, "rc": True, "eps": None}]))
    for op, cs in out.items():
        ctx.tally("dtype-fill:" + op, len(cs))
    return out


def _stage_dtype_fill(ctx):
    groups = _dtype_fill_cases(ctx)
    _run_by_op(ctx, groups)
    ctx.run_cases(OPS["history"], groups["history"])
    ctx.exhaustive["dtype-fill"] = (f"data types {calls.DATA_DTYPES + ['float64']} x fill values {FILL_KINDS} (float32 data only with fill "
                                    "values float32 can hold) x extend_dim (3 requests), extend_dim_width / adjust_dim_width widening x "
                                    "start / center / end, adjust_dim_width same width / narrowing, crop_dim_width, crop_dim, and one "
                                    "3-call chain extend_dim -> adjust_dim_width -> crop_dim")


# ------------------------------------------------------------------ boundaries and sizes (HISTORIES.md section 4)
def _boundary_cases(ctx):
    """offsets of relative size 1e-6 .. 1e-12 on both sides of every comparison the functions make (request against
    the axis range, request ends against each other, coordinates against the eps-shifted ends), at small and large
    magnitudes; everything dyadic, so the comparison with the model is exact"""
    out = {"crop_dim": [], "extend_dim": []}
    for a0, step in [(Fraction(0), Fraction(1)), (Fraction(1 << 20), Fraction(1)), (Fraction(-(1 << 20)), Fraction(1, 64)),
                     (Fraction(3, 1024), Fraction(1, 1024)), (Fraction(1 << 16), Fraction(64))]:
        n = 6
        coords = [a0 + i * step for i in range(n)]
        base = {"coords": rats(coords), "data": [i + 1 for i in range(n)], "layout": "1d"}
        mag = max(abs(coords[0]), abs(coords[-1]), step)
        deltas = [Fraction(0)] + [d for k in ((20, 30, 40) if ctx.thorough() else (20, 40)) for d in (mag / (1 << k), -mag / (1 << k))]
        eps = step / 16
        for d in deltas:
            for lc, rc in _FLAGS:
                for attr in ((None, rat(step)) if ctx.thorough() else (rat(step) if lc == rc else None,)):
                    b = dict(base, step_attr=attr, lc=lc, rc=rc, eps=rat(eps))
                    # crop: the request against the axis range and the two ends against each other
                    out["crop_dim"].append(dict(b, start=rat(coords[0] + d), stop=rat(coords[3])))
                    out["crop_dim"].append(dict(b, start=rat(coords[1]), stop=rat(coords[-1] + d)))
                    out["crop_dim"].append(dict(b, start=rat(coords[2]), stop=rat(coords[2] + d)))
                    # crop: a coordinate exactly on / just beside the eps-shifted end
                    out["crop_dim"].append(dict(b, start=rat(coords[1] - eps + d), stop=rat(coords[4])))
                    out["crop_dim"].append(dict(b, start=rat(coords[1]), stop=rat(coords[4] + eps + d)))
                    out["crop_dim"].append(dict(b, start=rat(coords[1] + d), stop=rat(coords[4] + d)))
                    # extend: the shifted ends against the lattice points beyond the axis and against the axis ends
                    e = dict(b, fill=-9)
                    out["extend_dim"].append(dict(e, start=rat(coords[0] - 2 * step + d), stop=rat(coords[-1] + 2 * step + d)))
                    out["extend_dim"].append(dict(e, start=rat(coords[0] - 2 * step + eps + d), stop=rat(coords[-1] + 2 * step - eps + d)))
                    out["extend_dim"].append(dict(e, start=rat(coords[0] - 2 * step - eps + d), stop=rat(coords[-1] + 2 * step + eps + d)))
                    out["extend_dim"].append(dict(e, start=rat(coords[0] - step + d), stop=rat(coords[-1] + d)))
                    out["extend_dim"].append(dict(e, start=rat(coords[0] + d), stop=rat(coords[-1] + step + d)))
    for op, cs in out.items():
        ctx.tally("boundary:" + op, len(cs))
    return out


SIZE_THRESHOLDS = [16, 17, 255, 256, 257, 1023, 1024, 1025]


def _size_cases(ctx):
    """axis lengths and widths around the sizes where an implementation could switch strategy"""
    rng = ctx.rng
    out = {"crop_dim": [], "extend_dim": [], "width": []}
    for n in SIZE_THRESHOLDS + ([2047, 2048, 2049, 4097] if ctx.thorough() else []):
        a0, step, coords = _axis(rng, n, rng.choice([0, 1, 3]))
        for attr in (True, False):
            b = {"coords": rats(coords), "data": [("nan" if i % 97 == 5 else i + 1) for i in range(n)],
                 "step_attr": rat(step) if attr else None, "layout": "1d"}
            for pos in ("start", "center", "end"):
                for w in (1, n - 1, n, n + 1, n + 16, n + 17):
                    out["width"].append(dict(b, fn="adjust", w=w, fill=-9, pos=pos))
            lc, rc = rng.choice(_FLAGS)
            out["crop_dim"].append(dict(b, start=rat(coords[1]), stop=rat(coords[-2]), lc=lc, rc=rc, eps=None))
            out["crop_dim"].append(dict(b, start=rat(coords[n // 2]), stop=None, lc=rc, rc=lc, eps=None))
            out["extend_dim"].append(dict(b, start=rat(coords[0] - 3 * step), stop=rat(coords[-1] + step * Fraction(5, 2)), lc=lc, rc=rc,
                                          eps=None, fill=77))
    # widths crossing a threshold from a short axis
    for w in SIZE_THRESHOLDS:
        n = 9
        a0, step, coords = _axis(rng, n, 1)
        for pos in ("start", "center", "end"):
            out["width"].append({"coords": rats(coords), "data": list(range(1, n + 1)), "step_attr": rat(step), "layout": "1d",
                                 "fn": "adjust", "w": w, "fill": "nan", "pos": pos})
    return out


# ------------------------------------------------------------------ sessions (HISTORIES.md section 1)
def _session_variants(x, rng):
    """neighbours of a call: inputs that share part of x (the same array with other options, the same axis with other
    data, the same data on a shifted / rescaled axis, the same request with the defaults, another function on the same
    array, another way of passing the same arguments)"""
    out = []
    fn = x["fn"]
    n = len(x["coords"])
    cs = [frac(c) for c in x["coords"]]
    k = _ncols(x.get("layout", "1d"))

    def v(**kw):
        y = dict(x)
        y.update(kw)
        out.append(y)

    # the same axis, other data (a cache keyed by the coordinates / the shape)
    v(data=[[1000 + i * k + j for j in range(k)] if k > 1 else 1000 + i for i in range(n)])
    # the same data, the axis shifted by one step / scaled by two (a cache keyed by the data or by the size)
    d = (cs[1] - cs[0]) if n >= 2 else (frac(x["step_attr"]) if x.get("step_attr") else Fraction(1))
    sh = {"coords": rats([c + d for c in cs])}
    for key in ("start", "stop"):
        if x.get(key) is not None:
            sh[key] = rat(frac(x[key]) + d)
    v(**sh)
    if x.get("step_attr") is not None and n >= 1:
        sc = {"coords": rats([cs[0] + (c - cs[0]) * 2 for c in cs]), "step_attr": rat(frac(x["step_attr"]) * 2)}
        for key in ("start", "stop"):
            if x.get(key) is not None:
                sc[key] = rat(cs[0] + (frac(x[key]) - cs[0]) * 2)
        v(**sc)
    if n >= 2:      # the step attribute dropped / added (a regular axis: the estimate is the same step)
        v(step_attr=None if x.get("step_attr") is not None else rat(d))
    # the same array, other options; then the plain call (options must not stick)
    if fn in ("crop_dim", "extend_dim"):
        v(lc=not x["lc"] if x.get("lc") is not None else False)
        v(rc=not x["rc"] if x.get("rc") is not None else True)
        v(lc=None, rc=None, eps=None)
        v(eps=rat(d / rng.choice([2, 8])) if x.get("eps") is None else None)
    if fn in ("extend_dim", "width"):
        v(fill=rng.choice([f_ for f_ in FILLS if f_ != x.get("fill")]))
        v(fill=None)
    if fn == "width":
        v(pos=rng.choice([p for p in ("start", "center", "end") if p != x.get("pos")]))
        v(pos=None)
        v(w=x["w"] + rng.choice([1, 2]))
        if x["w"] > 1:
            v(w=x["w"] - 1)
        # another function on the same array
        v(fn="extend_dim", start=rat(cs[0] - 2 * d), stop=rat(cs[-1] + d), lc=True, rc=True, eps=None)
        v(fn="crop_dim", start=rat(cs[0]), stop=rat(cs[-1]), lc=True, rc=n < 2, eps=None)
    else:
        v(fn="width", w=n + 2, fill=x.get("fill", 0), pos="center")
        v(fn="width", w=n, fill=0, pos="start")          # same width: the function hands the argument back
    # the same call passed differently
    fname = _SESSION_FN[fn]
    v(call=rng.choice(list(range(calls.n_optional(fname) + 1))) if x.get("call") is None else None)
    v(dim=rng.choice([dn for dn in calls.DIMS if dn != x.get("dim", "time")]))
    return [y for y in out if not (y["fn"] != "crop_dim" and len(y["coords"]) < 2 and y.get("step_attr") is None)
            and _fill_fits(y.get("data_dtype"), y.get("fill"))]


def _session_cases(ctx, count):
    rng = ctx.rng
    base = []
    for op, gen in (("crop_dim", _crop_cases(ctx, 6)), ("extend_dim", _extend_cases(ctx, 6)),
                    ("width", _width_cases(ctx, [1, 2, 3, 5, 8]))):
        pool = [c for c in gen if len(c["coords"]) <= 13 and not c.get("int_axis") and _dyadic_case(c)]
        rng.shuffle(pool)
        for c in pool[:ctx.budget(60, 400)]:
            if op == "width":
                if c["fn"] != "adjust" or c.get("pos") not in (None, "start", "center", "end"):
                    continue
                c = {k: v for k, v in c.items() if k != "fn"}
            if op != "crop_dim" and len(c["coords"]) < 2 and c.get("step_attr") is None:
                continue
            c["fn"] = op
            base.append(c)
    hs = history.sequences(rng, base, count, variants=_session_variants, reuse_hows=H_REUSE, poison=True)
    for h in hs:
        for st in h["seq"]:
            ctx.tally("session:" + (st.get("reuse") or "fresh") + ("+poison" if st.get("poison") else ""))
    return hs


# ------------------------------------------------------------------ every lattice point of non-dyadic axes (free mode)
SWEEP_STEPS = [0.01, 0.1, 1 / 3, 0.29]


def _sweep_axes(ctx):
    if ctx.thorough():
        return [(s, a0) for s in SWEEP_STEPS for a0 in (0.0, 0.3, 12.7)]
    return [(0.01, 0.0)] + [(s, 0.3) for s in SWEEP_STEPS]


def _crop_sweep_cases(ctx):
    """crop_dim with one end on *every* coordinate of a few non-dyadic axes (not random positions)"""
    rng = ctx.rng
    n = 100 if ctx.thorough() else 60
    for step, a0 in _sweep_axes(ctx):
        if True:
            for i in range(n):
                for closed in (True, False):
                    other = rng.random() < 0.5
                    common = {"a0": rat(a0), "step": rat(step), "n": n, "attr": i % 2 == 0, "half_l": False, "half_r": False,
                              "layout": "1d", "data": None}
                    yield dict(common, i=i, j=n - 1, lc=closed, rc=other)
                    yield dict(common, i=0, j=i, lc=other, rc=closed)


def _extend_sweep_cases(ctx):
    """extend_dim with the requested end on every lattice point (and half-way point) up to 60 steps beyond the axis"""
    rng = ctx.rng
    for step, a0 in _sweep_axes(ctx):
        if True:
            for h in range(0, 121 if ctx.thorough() else 81):
                for closed in (True, False):
                    fill = rng.choice(FREE_FILLS)
                    common = {"a0": rat(a0), "step": rat(step), "n": 7, "attr": h % 3 != 0, "fill": fill, "layout": "1d", "data": None}
                    yield _inside_quantifier(dict(common, kl2=0, kr2=h, lc=True, rc=closed))
                    yield _inside_quantifier(dict(common, kl2=h, kr2=0, lc=closed, rc=True))


def _width_sweep_cases(ctx):
    """adjust_dim_width to every width up to 60 beyond the axis, three positions"""
    rng = ctx.rng
    for step, a0 in _sweep_axes(ctx):
        if True:
            n = 10
            for w in range(1, n + (61 if ctx.thorough() else 41)):
                for pos in ("start", "center", "end"):
                    yield {"a0": rat(a0), "step": rat(step), "n": n, "attr": w % 2 == 0, "w": w, "pos": pos,
                           "fill": rng.choice(FREE_FILLS), "layout": "1d", "data": None}


# ------------------------------------------------------------------ library-produced inputs (construction paths through the library)
_FIRSTS = [{"p": "plain", "attr": True}, {"p": "plain", "attr": False},
           {"p": "range", "fn": "create_time_range", "how": "step"}, {"p": "range", "fn": "create_time_range", "how": "samplerate"},
           {"p": "range", "fn": "create_frequency_range"}, {"p": "range", "fn": "create_range_dim", "how": "step"},
           {"p": "range", "fn": "create_range_dim", "how": "size"},
           {"p": "from_array", "fn": "time", "how": "step"}, {"p": "from_array", "fn": "time", "how": "samplerate"},
           {"p": "from_array", "fn": "time", "how": "estimate"}, {"p": "from_array", "fn": "frequency", "how": "step"},
           {"p": "from_array", "fn": "frequency", "how": "estimate"}, {"p": "set_dim_attrs"}]
_RESIZES = ["double", "half", "quad", "same", "plus3", "third"]


def _rel_call(rng, kind, fill=None):
    fill = rng.choice(FILL_KINDS) if fill is None else fill
    lc, rc = rng.choice(_FLAGS)
    if kind == "extend_dim":
        c = _inside_quantifier({"fn": kind, "kl2": rng.choice([0, 1, 2, 3, 4, 7]), "kr2": rng.choice([0, 1, 2, 3, 5, 6]), "lc": lc, "rc": rc, "fill": fill})
        r = rng.random()
        if r < 0.1:
            c["none_l"] = True
        elif r < 0.2:
            c["none_r"] = True
        return c
    if kind == "crop_dim":
        i = rng.randrange(0, 6)
        return {"fn": kind, "i": i, "j": i + rng.randrange(0, 8), "half_l": rng.random() < 0.5, "half_r": rng.random() < 0.5, "lc": lc, "rc": rc}
    return {"fn": "width", "dw": rng.choice([-2, -1, 0, 1, 2, 3, 5]), "pos": rng.choice(["start", "center", "end"]), "fill": fill}


def _produced_cases(ctx, count):
    """first producer (a constructor of the library, or a plain array) -> 0-2 transforming producers (ops.resize,
    crop_dim, extend_dim, adjust_dim_width) -> the C17 call under test, on dyadic axes (judged exactly by the model)
    and on decimal ones (judged by the property on the real output)"""
    rng = ctx.rng

    def first(tpl, decimal=False):
        n = rng.choice([2, 3, 4, 6, 8, 10])
        if decimal:
            a0, step = rng.choice([0.0, 0.3, 1.0]), rng.choice([0.1, 0.01, 1 / 3, 0.05])
            p = dict(tpl, a0=rat(a0), step=rat(step), n=n)
        else:
            k = rng.choice([0, 1, 2, 3])
            a0, step, _ = _axis(rng, n, k)
            if tpl.get("how") == "samplerate":
                step = Fraction(1, 1 << k)      # 1 / samplerate must be the very step
            p = dict(tpl, a0=rat(a0), step=rat(step), n=n)
        return p

    def case(chain, call, layout=None, dim=None):
        c = {"chain": chain, "call": call, "layout": layout or rng.choice(["1d", "1d", "2d-first", "2d-last"]),
             "dim": dim or rng.choice(calls.DIMS)}
        if rng.random() < 0.15:
            call["call"] = rng.randint(0, calls.n_optional(_SESSION_FN[call["fn"]]))
        return c

    # systematic: every first producer x (nothing | every resize) x every function under test
    for tpl in _FIRSTS:
        for mid in [None] + _RESIZES:
            for kind in ("extend_dim", "width", "width", "crop_dim"):
                chain = [first(tpl)] + ([{"p": "resize", "size": mid}] if mid else [])
                call = _rel_call(rng, kind)
                if kind == "width" and call["dw"] <= 0 and rng.random() < 0.7:
                    call["dw"] = rng.choice([1, 2, 4])
                yield case(chain, call)
    # the seeded shapes of wave 5 with decimal steps: create_time_range(0, 1, 0.1) -> resize -> widen
    for tpl in _FIRSTS:
        for mid in ("double", "half", "plus3"):
            for kind in ("extend_dim", "width"):
                yield case([first(tpl, decimal=True), {"p": "resize", "size": mid}], _rel_call(rng, kind, fill=rng.choice([0, -7, "nan", "1/2"])), layout="1d")
    for _ in range(count):
        chain = [first(rng.choice(_FIRSTS), decimal=rng.random() < 0.2)]
        for _k in range(rng.choice([0, 1, 1, 2])):
            r = rng.random()
            if r < 0.4:
                t = {"p": "resize", "size": rng.choice(_RESIZES)}
                if rng.random() < 0.2:
                    t["method"] = rng.choice(["linear", "nearest"])
                chain.append(t)
            else:
                chain.append(dict(_rel_call(rng, rng.choice(["extend_dim", "extend_dim", "crop_dim", "width"])), p="c17"))
        yield case(chain, _rel_call(rng, rng.choice(["extend_dim", "extend_dim", "width", "width", "crop_dim"])))


def _stage_produced(ctx):
    ctx.run_cases(OPS["produced"], _produced_cases(ctx, ctx.budget(500, 5000)))
    ctx.exhaustive["library-produced"] = ("first producer (plain with / without step attribute, create_time_range by step / samplerate, "
                                          "create_frequency_range, create_range_dim by step / size, create_time_dim_from_array by step / "
                                          "samplerate / estimate, create_frequency_dim_from_array by step / estimate, set_dim_attrs) x "
                                          f"(no transformer | ops.resize to {_RESIZES}) x extend_dim / adjust_dim_width / crop_dim; the "
                                          "same with decimal steps (0.1, 0.01, 1/3, 0.05) x resize double / half / plus3 x widening")


QUICK_LENGTHS = [1, 2, 3, 4, 5, 7, 8, 12, 16, 25, 40]


def _stage_obligations(ctx):
    ctx.stage("signature-defaults", _defaults, ctx)
    ctx.stage("signature-order", _signature_order, ctx)
    ctx.stage("symbolic-ties", _symbolic_ties, ctx)
    ctx.discharge(["SoundeventModel.Axis", "SoundeventModel.AxisOps", "SoundeventModel.Tactics"])


def _stage_width(ctx):
    lengths = list(range(1, 41)) if ctx.thorough() else QUICK_LENGTHS
    ctx.run_cases(OPS["width"], _styled(ctx, "width", _width_cases(ctx, lengths), p_call=0.15, p_build=0.15))
    ctx.exhaustive["width"] = (f"dyadic axes of lengths {lengths[0]}..{lengths[-1]} ({len(lengths)} lengths): every width "
                               "1..2n+3 x start/center/end x step attribute present/absent")
    ctx.exhaustive["crop_dim"] = "axes -3..3, -1..1/2 (step 1/2), [0], [-5/4, -1/4]: every pair of ends on coordinates x 4 closedness flags"


def _dyadic_case(c):
    """every number of the request is a binary64 number with few bits (the exact comparison needs it)"""
    qs = [frac(x) for x in c["coords"]] + [frac(c[k]) for k in ("start", "stop", "eps", "step_attr") if c.get(k) is not None]
    return all(float(q) == q and q.denominator <= (1 << 30) for q in qs)


def _exactly_representable(c):
    """the request values, and the eps-shifted ends the code forms from them, are binary64 numbers"""
    qs = [frac(c[k]) for k in ("start", "stop") if c.get(k) is not None]
    if c.get("eps") is not None:
        e = frac(c["eps"])
        qs += [q + e for q in qs] + [q - e for q in qs]
    return all(float(q) == q for q in qs + [frac(x) for x in c["coords"]])


def _run_by_op(ctx, groups, styled=False):
    for op in ("crop_dim", "extend_dim", "width"):
        cs = groups.get(op) or []
        if styled:
            cs = _styled(ctx, op, cs)
        ctx.run_cases(OPS[op], cs)


def _stage_positional(ctx):
    _run_by_op(ctx, _positional_cases(ctx))
    ctx.exhaustive["positional"] = ("crop_dim, extend_dim, adjust_dim_width, crop_dim_width, extend_dim_width: every number k of leading "
                                    "optional arguments passed positionally in the documented order (k = 0 .. all), all by keyword, "
                                    "array and dimension by keyword x every combination of closedness flags (given / default) / "
                                    "position / fill value, on the axes 0..9 and -1..3/2 (step 1/2)")


def _stage_paths(ctx):
    _run_by_op(ctx, _path_cases(ctx))
    ctx.exhaustive["construction"] = (f"{len(calls.BUILDS)} construction paths ({', '.join(calls.BUILDS)}) x dimension names "
                                      f"{calls.DIMS} x layouts {LAYOUTS}; float32 axes")


def _stage_products(ctx):
    _run_by_op(ctx, _product_cases(ctx), styled=True)


def _stage_boundaries(ctx):
    groups = _boundary_cases(ctx)
    _run_by_op(ctx, {op: [c for c in cs if _exactly_representable(c)] for op, cs in groups.items()})
    _run_by_op(ctx, _size_cases(ctx))
    ctx.exhaustive["sizes"] = f"axis lengths / widths {SIZE_THRESHOLDS}: widths 1, n-1, n, n+1, n+16, n+17 x three positions"


def _stage_sessions(ctx):
    ctx.run_cases(OPS["session"], _session_cases(ctx, ctx.budget(400, 3000)))


def _stage_sweeps(ctx):
    ctx.run_cases(OPS["crop_free"], _crop_sweep_cases(ctx))
    ctx.run_cases(OPS["extend_free"], _extend_sweep_cases(ctx))
    ctx.run_cases(OPS["width_free"], _width_sweep_cases(ctx))
    ctx.exhaustive["lattice-sweeps"] = (f"steps {SWEEP_STEPS} x starts 0, 0.3: crop_dim with an end on every one of 60 (thorough: 100) coordinates; "
                                        "extend_dim with an end on every lattice / half-way point up to 40 (thorough: 60) steps beyond the "
                                        "axis; adjust_dim_width to every width 1..50 (70) of a 10-sample axis")


def _flush_stats(ctx):
    for k, v in sorted(calls.STATS.items()):
        ctx.tally(k, v)
    calls.STATS.clear()


def run(ctx):
    ctx.stage("corpus", ctx.run_corpus, OPS)
    ctx.stage("obligations", _stage_obligations, ctx)
    ctx.stage("positional-exact", _stage_positional, ctx)
    ctx.stage("width-exact", _stage_width, ctx)
    ctx.stage("crop-exact", lambda: ctx.run_cases(OPS["crop_dim"], _styled(ctx, "crop_dim", _crop_cases(ctx, ctx.budget(25, 200)))))
    ctx.stage("extend-exact", lambda: ctx.run_cases(OPS["extend_dim"], _styled(ctx, "extend_dim", _extend_cases(ctx, ctx.budget(25, 200)))))
    ctx.stage("paths-exact", _stage_paths, ctx)
    ctx.stage("products-exact", _stage_products, ctx)
    ctx.stage("dtype-fill-exact", _stage_dtype_fill, ctx)
    ctx.stage("boundaries-exact", _stage_boundaries, ctx)
    ctx.stage("history-exact", lambda: ctx.run_cases(OPS["history"], _history_cases(ctx, ctx.budget(700, 6000))))
    ctx.stage("sessions-exact", _stage_sessions, ctx)
    ctx.stage("library-produced", _stage_produced, ctx)
    ctx.stage("step-exact", lambda: ctx.run_cases(OPS["dim_step"], _step_cases(ctx)))
    ctx.stage("range-exact", lambda: ctx.run_cases(OPS["dim_range"], _range_cases(ctx)))
    ctx.stage("width-free-monitor", lambda: ctx.run_cases(OPS["width_free"], _free_typed(ctx.rng, _width_free_cases(ctx))))
    ctx.stage("extend-free-monitor", lambda: ctx.run_cases(OPS["extend_free"], _extend_free_cases(ctx)))
    ctx.stage("crop-free-monitor", lambda: ctx.run_cases(OPS["crop_free"], _crop_free_cases(ctx)))
    ctx.stage("lattice-sweeps", _stage_sweeps, ctx)
    _flush_stats(ctx)


def search(ctx, failures):
    _stage_positional(ctx)
    ctx.run_cases(OPS["width"], _styled(ctx, "width", _width_cases(ctx, QUICK_LENGTHS)))
    ctx.run_cases(OPS["crop_dim"], _styled(ctx, "crop_dim", _crop_cases(ctx, 40)))
    ctx.run_cases(OPS["extend_dim"], _styled(ctx, "extend_dim", _extend_cases(ctx, 40)))
    _stage_paths(ctx)
    _stage_products(ctx)
    _stage_dtype_fill(ctx)
    ctx.run_cases(OPS["history"], _history_cases(ctx, 700))
    _stage_sessions(ctx)
    _stage_produced(ctx)
    ctx.run_cases(OPS["dim_step"], _step_cases(ctx))
    ctx.run_cases(OPS["width_free"], _free_typed(ctx.rng, _width_free_cases(ctx)))
    ctx.run_cases(OPS["extend_free"], _extend_free_cases(ctx))
    ctx.run_cases(OPS["crop_free"], _crop_free_cases(ctx))
    _stage_sweeps(ctx)
