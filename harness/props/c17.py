"""C17 — Cropping and extending keep data on its coordinates and hit the requested size."""
import inspect
import math
from fractions import Fraction

from ..core import Op
from ..rat import rat, frac, tol_eq
from ..axis_common import guarded, f, fl, is_err, dy, rats

PROPERTY = "C17"
LEAN_MODULE = "Proofs.C17"
_T = "SE.Proofs.C17."
THEOREMS = [_T + n for n in [
    "C17_crop_exact", "C17_crop_rejects", "C17_extend_lattice", "C17_extend_keeps", "C17_extend_fill",
    "C17_width", "C17_placement", "C17_regular_axis_continues", "C17_step_known", "C17_arange_by_count"]]
LEVEL_TEXT = ("Lean theorems over the rational model of crop_dim (exactly the samples in the requested interval when no "
              "coordinate lies within eps of an open end), extend_dim (result = the axis lattice inside the requested "
              "interval, original samples kept, new ones filled) and adjust_dim_width / crop_dim_width / extend_dim_width "
              "(exactly `width` samples for every width >= 1, placement at start / centre / end, a regular axis continues "
              "on its lattice) hold for all inputs; the model is tied to the code by exact differential runs on dyadic axes "
              "(every width 1..2n+3, three positions, all closedness flags, step from attribute or estimated) and the "
              "defaults (eps, tolerances, closedness) are re-extracted from the signatures on every run.")
LEVEL_NOTE = ("Unmodelled: binary64 rounding of numpy arange with a fractional step and of `end + k * step` (probed on the "
              "real code by the free-mode monitor with steps 0.01, 1/3, 0.004, 1/44100: length, data on coordinates, "
              "coordinates within 2^-40 of the lattice); xarray sel / reindex are modelled as label slice / label lookup. "
              "Requested open ends within eps of a coordinate are excluded by hypothesis, as in the property. "
              "Model tied to the code by generator-bounded correspondence and a table obligation for the defaults.")
TECHNIQUE = "Lean 4 proof over model; exact differential correspondence on dyadic axes; free-mode monitor for arange rounding"
RULE = ("dyadic axes of 1-40 points x every width 1..2n+3 x three positions x step attribute present/absent; crop and "
        "extend requests on, between and beyond coordinates with all closedness flags; decimal-step monitor; "
        "non-trivial = the implementation returned an array; distinct = distinct (operation, input)")
TRUSTED = ["xarray sel / reindex, pandas slice_indexer, numpy arange / diff / mean / isclose (modelled, validated by correspondence)"]
ASSUMPTIONS = ["binary64 arithmetic is exact on the dyadic axes used for the exact comparisons",
               "axes strictly increasing with unique coordinates, step > 0 (the property's quantifier: regular axes)",
               "free-mode monitor: requested ends are nominal lattice points or half-way between two; the expected "
               "number of samples is the nominal count"]
NOT_COMPARED = ["error messages (only the error class)", "`start` / `stop` attributes written by extend_dim",
                "extension of a one-point axis that has no step attribute (the estimated step is NaN)",
                "non-dyadic axes: only length, placement of the data, kept coordinates and lattice continuation within "
                "tolerance are checked on the real output (the rational model cannot exhibit arange rounding)"]

LAYOUTS = ["1d", "2d-first", "2d-last"]


# ------------------------------------------------------------------ implementations
def _mk(coords, data, step_attr, layout="1d", int_axis=False):
    import numpy as np
    import xarray as xr
    from soundevent import arrays
    c = np.asarray(coords, dtype="int64" if int_axis else float)
    var = arrays.create_time_dim_from_array(c, step=step_attr)
    d = np.asarray(data, dtype=float)
    if layout == "1d":
        return xr.DataArray(d, dims=["time"], coords={"time": var})
    other = np.array([10.0, 20.0, 30.0])
    if layout == "2d-first":
        return xr.DataArray(np.repeat(d[:, None], 3, axis=1), dims=["time", "other"], coords={"time": var, "other": other})
    return xr.DataArray(np.repeat(d[None, :], 3, axis=0), dims=["other", "time"], coords={"time": var, "other": other})


def _out(arr, layout="1d"):
    import numpy as np
    cs = [float(c) for c in np.asarray(arr.coords["time"].values)]
    v = np.asarray(arr.transpose("time", ...).values, dtype=float)
    if v.ndim == 2:
        if not (v == v[:, :1]).all():
            return {"raise": "crash:samples-torn-apart"}
        v = v[:, 0]
    if not all(float(x).is_integer() for x in v):
        return {"raise": "crash:non-integer-datum"}
    if len(cs) != len(v):
        return {"raise": "crash:coords-data-length"}
    return {"val": {"coords": [rat(c) for c in cs], "data": [int(x) for x in v]}}


def _arr_of(inp):
    return _mk(fl(inp["coords"]), inp["data"], f(inp.get("step_attr")), inp.get("layout", "1d"), inp.get("int_axis", False))


def _q(inp, key):
    v = f(inp.get(key))
    if v is not None and inp.get("int_axis") and v == int(v):
        return int(v)
    return v


@guarded
def _impl_crop(inp):
    from soundevent.arrays import operations as ops
    kw = {}
    if inp.get("eps") is not None:
        kw["eps"] = f(inp["eps"])
    r = ops.crop_dim(_arr_of(inp), "time", start=_q(inp, "start"), stop=_q(inp, "stop"),
                     left_closed=inp["lc"], right_closed=inp["rc"], **kw)
    return _out(r)


@guarded
def _impl_extend(inp):
    from soundevent.arrays import operations as ops
    kw = {}
    if inp.get("eps") is not None:
        kw["eps"] = f(inp["eps"])
    r = ops.extend_dim(_arr_of(inp), "time", start=_q(inp, "start"), stop=_q(inp, "stop"), fill_value=inp["fill"],
                       left_closed=inp["lc"], right_closed=inp["rc"], **kw)
    return _out(r)


def _call_width(arr, inp):
    from soundevent.arrays import operations as ops
    fn = inp["fn"]
    if fn == "adjust":
        return ops.adjust_dim_width(arr, "time", inp["w"], fill_value=inp["fill"], position=inp["pos"])
    if fn == "crop":
        return ops.crop_dim_width(arr, "time", inp["w"], position=inp["pos"])
    return ops.extend_dim_width(arr, "time", inp["w"], fill_value=inp["fill"], position=inp["pos"])


@guarded
def _impl_width(inp):
    return _out(_call_width(_arr_of(inp), inp))


# ---- free mode (decimal steps): the real code only, judged by the property
def _free_axis(inp):
    import numpy as np
    a0, step, n = f(inp["a0"]), f(inp["step"]), inp["n"]
    coords = a0 + step * np.arange(n)
    return coords, _mk(coords, list(range(1, n + 1)), step if inp["attr"] else None, inp.get("layout", "1d"))


@guarded
def _impl_width_free(inp):
    coords, arr = _free_axis(inp)
    r = _call_width(arr, {"fn": "adjust", "w": inp["w"], "fill": inp["fill"], "pos": inp["pos"]})
    o = _out(r)
    if is_err(o):
        return o
    return {"val": {"coords": fl(o["val"]["coords"]), "data": o["val"]["data"], "orig": [float(c) for c in coords]}}


def _placement(n, w, pos):
    """offset of the original data inside the result (extension) / of the window inside the data (crop)"""
    if w >= n:
        extra = w - n
        return {"start": 0, "center": extra // 2, "end": extra}[pos]
    return {"start": 0, "center": max(0, n // 2 - w // 2), "end": n - w}[pos]


def _lattice_ok(cs, c0, i0, step_q):
    """cs[i] within tolerance of c0 + (i - i0) * step (exact rationals of the floats)"""
    for i, c in enumerate(cs):
        if not tol_eq(c0 + (i - i0) * step_q, c):
            return f"coordinate {i} = {c!r} is off the axis lattice"
    for a, b in zip(cs, cs[1:]):
        if not a < b:
            return "coordinates not strictly increasing"
    return None


def _holds_width_free(ctx, inp, out):
    if is_err(out):
        return "adjust_dim_width raised: %s" % out["raise"]
    n, w, pos, fill = inp["n"], inp["w"], inp["pos"], inp["fill"]
    r = out["val"]
    cs, ds, orig = r["coords"], r["data"], r["orig"]
    if len(cs) != w:
        return f"{len(cs)} samples for width {w} (axis of {n}, position {pos})"
    off = _placement(n, w, pos)
    if w >= n:
        exp = [fill] * off + list(range(1, n + 1)) + [fill] * (w - n - off)
        if cs[off:off + n] != orig:
            return "original coordinates not kept in place"
        i0 = off
    else:
        exp = list(range(off + 1, off + w + 1))
        if cs != orig[off:off + w]:
            return "cropped window is not the requested one"
        i0 = -off
    if ds != exp:
        return "data not on its coordinates / wrong placement"
    return _lattice_ok(cs, frac(inp["a0"]), i0, frac(inp["step"]))


@guarded
def _impl_extend_free(inp):
    from soundevent.arrays import operations as ops
    coords, arr = _free_axis(inp)
    step = f(inp["step"])
    start = float(coords[0]) - inp["kl2"] / 2 * step
    stop = float(coords[-1]) + inp["kr2"] / 2 * step
    r = ops.extend_dim(arr, "time", start=start, stop=stop, fill_value=inp["fill"],
                       left_closed=inp["lc"], right_closed=inp["rc"])
    o = _out(r)
    if is_err(o):
        return o
    return {"val": {"coords": fl(o["val"]["coords"]), "data": o["val"]["data"], "orig": [float(c) for c in coords]}}


def _nominal(k2, closed):
    """number of lattice points beyond the axis end inside an end that lies k2 half-steps away"""
    if k2 % 2 == 1:
        return k2 // 2
    k = k2 // 2
    return k if closed else max(k - 1, 0)


def _holds_extend_free(ctx, inp, out):
    if is_err(out):
        return "extend_dim raised: %s" % out["raise"]
    n, fill = inp["n"], inp["fill"]
    r = out["val"]
    cs, ds, orig = r["coords"], r["data"], r["orig"]
    nl = _nominal(inp["kl2"], inp["lc"])
    nr = _nominal(inp["kr2"], inp["rc"])
    if len(cs) != nl + n + nr:
        return (f"{len(cs)} samples, the axis lattice has {nl} + {n} + {nr} points in the requested "
                f"{'[' if inp['lc'] else '('}start, stop{']' if inp['rc'] else ')'}")
    if cs[nl:nl + n] != orig:
        return "original coordinates not kept in place"
    if ds != [fill] * nl + list(range(1, n + 1)) + [fill] * nr:
        return "data not on its coordinates / new samples not filled"
    return _lattice_ok(cs, frac(inp["a0"]), nl, frac(inp["step"]))


_NOOP = dict(model_op="noop", to_model=lambda inp: {}, compare=lambda inp, io, mo: None, mode="tolerance")


def _strip(keys):
    def to_model(inp):
        return {k: v for k, v in inp.items() if k not in keys}
    return to_model


OPS = {
    "crop_dim": Op("crop_dim", _impl_crop, to_model=_strip({"layout", "int_axis", "step_attr"})),
    "extend_dim": Op("extend_dim", _impl_extend, to_model=_strip({"layout", "int_axis"})),
    "width": Op("width", _impl_width, to_model=_strip({"layout", "int_axis"})),
    "width_free": Op("width_free", _impl_width_free, holds=_holds_width_free, **_NOOP),
    "extend_free": Op("extend_free", _impl_extend_free, holds=_holds_extend_free, **_NOOP),
}


# ------------------------------------------------------------------ tie 1: defaults of the signatures
def _defaults(ctx):
    from soundevent.arrays import operations as ops
    from soundevent.arrays import dimensions as dims

    def default(fn, name):
        p = inspect.signature(fn).parameters.get(name)
        if p is None or p.default is inspect.Parameter.empty:
            raise LookupError(f"{fn.__name__} has no default for `{name}`")
        return p.default

    def lit(x):
        q = Fraction(x)
        return f"(({q.numerator} : Rat) / {q.denominator})"

    facts = []
    for fn in (ops.crop_dim, ops.extend_dim):
        facts.append(f"SE.Axis.defaultEps = {lit(default(fn, 'eps'))}")
        if default(fn, "left_closed") is not True or default(fn, "right_closed") is not False:
            ctx.fail("obligation", "defaults", detail=f"{fn.__name__}: closedness defaults are no longer [start, stop)")
    est = getattr(dims, "estimate_dim_step", None)     # public helper; get_dim_step is what the operations call
    for fn in [dims.get_dim_step] + ([est] if est is not None else []):
        facts.append(f"SE.Axis.defaultRtol = {lit(default(fn, 'rtol'))}")
        facts.append(f"SE.Axis.defaultAtol = {lit(default(fn, 'atol'))}")
        if default(fn, "check_tolerance") is not True:
            ctx.fail("obligation", "defaults", detail=f"{fn.__name__}: check_tolerance default changed")
    if default(dims.get_dim_step, "estimate_step") is not True:
        ctx.fail("obligation", "defaults", detail="get_dim_step no longer estimates the step by default")
    src = "\n".join(f"example : {fact} := by decide +kernel" for fact in dict.fromkeys(facts))
    ctx.obligation("signature-defaults", src, {"op": "crop_dim"})


# ------------------------------------------------------------------ generators
def _axis(rng, n, k=None):
    k = k if k is not None else rng.choice([0, 1, 2, 3, 6])
    a0 = dy(rng, -8, 40, k)
    step = dy(rng, 2.0 ** -k, 4, k)
    return a0, step, [a0 + i * step for i in range(n)]


def _base(rng, coords, step, attr=None, layout=None):
    n = len(coords)
    attr = (rng.random() < 0.5 or n < 2) if attr is None else attr
    return {"coords": rats(coords), "data": list(range(1, n + 1)), "step_attr": rat(step) if attr else None,
            "layout": layout or rng.choice(LAYOUTS)}


def _width_cases(ctx, lengths):
    rng = ctx.rng
    for n in lengths:
        a0, step, coords = _axis(rng, n)
        for attr in ([True, False] if n >= 2 else [True]):
            for w in range(1, 2 * n + 4):
                for pos in ("start", "center", "end"):
                    b = _base(rng, coords, step, attr)
                    b.update({"fn": "adjust", "w": w, "fill": rng.choice([0, 0, -9, 77]), "pos": pos})
                    yield b
        # rejected requests and the two halves called directly
        b = _base(rng, coords, step, True)
        for w, fn, pos in [(0, "adjust", "start"), (-1, "adjust", "end"), (n + 2, "adjust", "middle"),
                           (max(n - 1, 1), "adjust", "middle"), (n, "crop", "start"), (n + 1, "crop", "end"),
                           (n, "extend", "start"), (max(n - 1, 0), "extend", "center"), (n + 3, "extend", "center"),
                           (max(n - 1, 0), "crop", "center"), (n + 2, "extend", "bogus"), (0, "crop", "start"),
                           (0, "crop", "end")]:
            c = dict(b)
            c.update({"fn": fn, "w": w, "fill": 0, "pos": pos})
            yield c
    # integer-typed axis (the docstring examples), estimated step 1.0
    for n in (2, 5, 10):
        for w in range(1, 2 * n + 4):
            for pos in ("start", "center", "end"):
                yield {"coords": rats(range(n)), "data": list(range(1, n + 1)), "step_attr": None, "layout": "1d",
                       "int_axis": True, "fn": "adjust", "w": w, "fill": 0, "pos": pos}
    # irregular axis without the attribute: the step estimate is rejected
    yield {"coords": rats([0, 1, 3]), "data": [1, 2, 3], "step_attr": None, "layout": "1d",
           "fn": "adjust", "w": 5, "fill": 0, "pos": "start"}
    yield {"coords": rats([0, 1, 3]), "data": [1, 2, 3], "step_attr": "1", "layout": "1d",
           "fn": "adjust", "w": 5, "fill": 0, "pos": "end"}


def _probe_points(rng, coords, step):
    """request end points: on coordinates, between them, a quarter step off"""
    pts = set(coords)
    for c in coords:
        pts.add(c + step / 2)
        pts.add(c + step / 4)
        pts.add(c - step / 4)
    return sorted(pts)


def _crop_cases(ctx, n_axes):
    rng = ctx.rng
    for _ in range(n_axes):
        n = rng.choice([1, 2, 3, 5, 8, 13, 40])
        a0, step, coords = _axis(rng, n)
        pts = [p for p in _probe_points(rng, coords, step) if coords[0] <= p <= coords[-1]]
        for _ in range(ctx.budget(40, 120)):
            s, e = rng.choice(pts), rng.choice(pts)
            if s > e and rng.random() < 0.9:
                s, e = e, s
            b = _base(rng, coords, step)
            b.update({"start": rat(s) if rng.random() < 0.85 else None, "stop": rat(e) if rng.random() < 0.85 else None,
                      "lc": rng.random() < 0.5, "rc": rng.random() < 0.5,
                      "eps": rng.choice([None, None, rat(Fraction(1, 1 << 20)), rat(step / 8)])})
            yield b
        # outside the axis, reversed
        b = _base(rng, coords, step)
        for s, e in [(coords[0] - step / 4, coords[-1]), (coords[0], coords[-1] + step / 4), (coords[-1], coords[0] - 1)]:
            c = dict(b)
            c.update({"start": rat(s), "stop": rat(e), "lc": True, "rc": False, "eps": None})
            yield c
    # decimal axes: crop only compares (stop - eps is the one rounded operation, far from every coordinate)
    import numpy as np
    for step in (0.01, 0.1, 1 / 3, 0.004):
        for n in (5, 12):
            coords = [float(c) for c in (0.3 + step * np.arange(n))]
            for i in range(n):
                for j in range(i, n):
                    for lc, rc in ((True, False), (False, True), (True, True), (False, False)):
                        yield {"coords": rats(coords), "data": list(range(1, n + 1)), "step_attr": rat(step),
                               "layout": "1d", "start": rat(coords[i]), "stop": rat(coords[j]), "lc": lc, "rc": rc,
                               "eps": None}


def _extend_cases(ctx, n_axes):
    rng = ctx.rng
    offs = [Fraction(0), Fraction(1, 4), Fraction(1, 2), Fraction(3, 4)]
    for _ in range(n_axes):
        n = rng.choice([1, 2, 3, 5, 8, 13, 40])
        a0, step, coords = _axis(rng, n)
        for kl in (0, 1, 2, 5):
            for kr in (0, 1, 3):
                for lc in (True, False):
                    for rc in (True, False):
                        fo, go = rng.choice(offs), rng.choice(offs)
                        b = _base(rng, coords, step)
                        b.update({"start": rat(coords[0] - (kl + fo) * step), "stop": rat(coords[-1] + (kr + go) * step),
                                  "fill": rng.choice([0, -9, 77]), "lc": lc, "rc": rc,
                                  "eps": rng.choice([None, None, rat(Fraction(1, 1 << 20)), rat(step / 8)])})
                        if rng.random() < 0.1:
                            b["start"] = None
                        if rng.random() < 0.1:
                            b["stop"] = None
                        yield b
        # not containing the axis, reversed: extend_dim does not crop
        b = _base(rng, coords, step)
        for s, e in [(coords[0] + step / 4, coords[-1] + step), (coords[0] - step, coords[-1] - step / 4),
                     (coords[-1] + 1, coords[0])]:
            c = dict(b)
            c.update({"start": rat(s), "stop": rat(e), "fill": 0, "lc": True, "rc": False, "eps": None})
            yield c


FREE_STEPS = [0.01, 1 / 3, 0.004, 1 / 44100, 0.1, 1e-3, 0.25, 1 / 22050, 0.3, 2.5]
FREE_STARTS = [0.0, 0.3, 12.7, 2.0, 100.03]


def _width_free_cases(ctx):
    rng = ctx.rng
    for step in FREE_STEPS:
        for n in (1, 2, 5, 10, 37):
            for a0 in FREE_STARTS[:3]:
                for w in sorted({max(1, n - 3), n, n + 1, n + 2, n + 7, 2 * n + 1, 2 * n + 3}):
                    for pos in ("start", "end", "center"):
                        yield {"a0": rat(a0), "step": rat(step), "n": n, "attr": n < 2 or rng.random() < 0.5,
                               "w": w, "pos": pos, "fill": rng.choice([0, -9]), "layout": "1d"}
    for _ in range(ctx.budget(400, 8000)):
        n = rng.randint(1, 60)
        yield {"a0": rat(rng.choice(FREE_STARTS + [rng.uniform(-3, 30)])),
               "step": rat(rng.choice(FREE_STEPS + [rng.uniform(1e-4, 2)])), "n": n, "attr": n < 2 or rng.random() < 0.5,
               "w": rng.randint(1, 2 * n + 3), "pos": rng.choice(["start", "end", "center"]), "fill": rng.choice([0, -9]),
               "layout": rng.choice(LAYOUTS)}


def _inside_quantifier(c):
    """an open end must lie strictly beyond the axis end (the requested interval contains the axis)"""
    if not c["lc"] and c["kl2"] == 0:
        c["kl2"] = 1
    if not c["rc"] and c["kr2"] == 0:
        c["kr2"] = 1
    return c


def _extend_free_cases(ctx):
    for c in _extend_free_raw(ctx):
        yield _inside_quantifier(c)


def _extend_free_raw(ctx):
    rng = ctx.rng
    for step in FREE_STEPS:
        for n in (1, 2, 5, 12):
            for a0 in FREE_STARTS[:4]:
                for kl2 in (0, 2, 3, 6):
                    for kr2 in (0, 2, 5, 8):
                        lc, rc = rng.choice([(True, False), (True, True), (False, False), (False, True)])
                        yield {"a0": rat(a0), "step": rat(step), "n": n, "attr": True, "kl2": kl2, "kr2": kr2,
                               "lc": lc, "rc": rc, "fill": rng.choice([0, -9]), "layout": "1d"}
    for _ in range(ctx.budget(600, 10000)):
        n = rng.randint(1, 40)
        yield {"a0": rat(rng.choice(FREE_STARTS + [rng.uniform(-3, 30)])),
               "step": rat(rng.choice(FREE_STEPS + [rng.uniform(1e-3, 2)])), "n": n, "attr": n < 2 or rng.random() < 0.6,
               "kl2": rng.randint(0, 12), "kr2": rng.randint(0, 12), "lc": rng.random() < 0.5, "rc": rng.random() < 0.5,
               "fill": rng.choice([0, -9]), "layout": rng.choice(LAYOUTS)}


QUICK_LENGTHS = [1, 2, 3, 4, 5, 7, 8, 12, 16, 25, 40]


def _stage_defaults(ctx):
    _defaults(ctx)
    ctx.discharge(["SoundeventModel.Axis", "SoundeventModel.Tactics"])


def _stage_width(ctx):
    lengths = list(range(1, 41)) if ctx.thorough() else QUICK_LENGTHS
    ctx.run_cases(OPS["width"], _width_cases(ctx, lengths))
    ctx.exhaustive["width"] = (f"dyadic axes of lengths {lengths[0]}..{lengths[-1]} ({len(lengths)} lengths): every width "
                               "1..2n+3 x start/center/end x step attribute present/absent")


def run(ctx):
    ctx.stage("corpus", ctx.run_corpus, OPS)
    ctx.stage("signature-defaults", _stage_defaults, ctx)
    ctx.stage("width-exact", _stage_width, ctx)
    ctx.stage("crop-exact", lambda: ctx.run_cases(OPS["crop_dim"], _crop_cases(ctx, ctx.budget(25, 200))))
    ctx.stage("extend-exact", lambda: ctx.run_cases(OPS["extend_dim"], _extend_cases(ctx, ctx.budget(25, 200))))
    ctx.stage("width-free-monitor", lambda: ctx.run_cases(OPS["width_free"], _width_free_cases(ctx)))
    ctx.stage("extend-free-monitor", lambda: ctx.run_cases(OPS["extend_free"], _extend_free_cases(ctx)))


def search(ctx, failures):
    ctx.run_cases(OPS["width"], _width_cases(ctx, QUICK_LENGTHS))
    ctx.run_cases(OPS["crop_dim"], _crop_cases(ctx, 40))
    ctx.run_cases(OPS["extend_dim"], _extend_cases(ctx, 40))
    ctx.run_cases(OPS["width_free"], _width_free_cases(ctx))
    ctx.run_cases(OPS["extend_free"], _extend_free_cases(ctx))
