"""C17 — Cropping and extending keep data on its coordinates and hit the requested size."""
import inspect
import math
from fractions import Fraction

from ..core import Op, jkey
from ..rat import rat, frac, tol_eq
from ..axis_common import guarded, f, fl, is_err, dy, rats, canon_exc

PROPERTY = "C17"
LEAN_MODULE = "Proofs.C17"
_T = "SE.Proofs.C17."
THEOREMS = [_T + n for n in [
    "C17_crop_exact", "C17_crop_rejects", "C17_extend_lattice", "C17_extend_keeps", "C17_extend_fill",
    "C17_width", "C17_placement", "C17_regular_axis_continues", "C17_step_known", "C17_arange_by_count",
    "C17_crop_bounds", "C17_extend_plan", "C17_extend_exact", "C17_width_keeps", "C17_crop_window",
    "C17_step_options", "C17_extend_closed", "C17_crop_closed", "C17_width_closed", "C17_step_closed",
    "C17_history_on_lattice", "C17_extend_twice"]]
LEVEL_TEXT = ("Lean theorems over the rational model of crop_dim (exactly the samples in the requested interval when no "
              "coordinate lies within eps of an open end), extend_dim (the whole result = filled samples on the lattice points "
              "below, the array itself, filled samples on the lattice points above; exactly the lattice points inside the "
              "requested interval) and adjust_dim_width / crop_dim_width / extend_dim_width (exactly `width` samples for every "
              "width >= 1, placement at start / centre / end, every original sample kept whatever it holds - NaN, +-inf, the "
              "fill value itself -, new samples filled, a regular axis continues on its lattice) hold for all inputs and any "
              "cell type. The numeric kernels of crop_dim (slice bounds) and extend_dim (np.arange calls and their guards) are "
              "extracted from the current source by symbolic execution and proved equal to the model for all inputs on every "
              "run (32 ties); the rest of the model is tied by exact differential runs on dyadic axes (every width 1..2n+3, "
              "three positions, all closedness flags, step from attribute or estimated, data with NaN / inf / fill-equal cells "
              "over 1-3 dimensions); defaults (eps, tolerances, closedness) are re-extracted from the signatures on every run. "
              "Histories: the class of arrays the theorems speak about (non-empty piece of the lattice, step known) is proved "
              "closed under every operation, and chains of 2-4 calls, each on the real output of the previous one, are "
              "compared call by call with the composed model.")
LEVEL_NOTE = ("Unmodelled: binary64 rounding of numpy arange with a fractional step and of `end + k * step` (probed on the "
              "real code by the free-mode monitors with steps 0.01, 1/3, 0.004, 1/44100: length, data on coordinates, "
              "coordinates within 2^-40 of the lattice); xarray sel / reindex are modelled as label slice / label lookup. "
              "Requested open ends within eps of a coordinate are excluded by hypothesis, as in the property. "
              "Symbolic ties cover the arithmetic before the hand-over to xarray; crop_dim_width / extend_dim_width (integer "
              "index arithmetic) and get_dim_step (numpy reductions) are tied by generator-bounded correspondence, the "
              "defaults by a table obligation.")
TECHNIQUE = ("Lean 4 proof over model; symbolic-trace equality obligations for the crop_dim / extend_dim kernels; exact "
             "differential correspondence on dyadic axes; free-mode monitors for arange rounding")
RULE = ("dyadic axes of 1-40 points x every width 1..2n+3 x three positions x step attribute present/absent; crop and "
        "extend requests on, between and beyond coordinates with all closedness flags; cells with NaN / +-inf / fill-equal "
        "values over 1-d, 2-d and 3-d layouts; histories of 2-4 crop_dim / extend_dim / adjust_dim_width calls on "
        "the previous output; get_dim_step options; decimal-step monitors; "
        "non-trivial = the implementation returned an array; distinct = distinct (operation, input)")
TRUSTED = ["xarray sel / reindex, pandas slice_indexer, numpy arange / diff / mean / isclose (modelled, validated by correspondence)",
           "symbolic tracer stubs of an xarray.DataArray with one range dimension (harness/props/c17.py _kernel_stubs)"]
ASSUMPTIONS = ["binary64 arithmetic is exact on the dyadic axes used for the exact comparisons",
               "axes strictly increasing with unique coordinates, step > 0 (the property's quantifier: regular axes); the "
               "kernel ties identify coords[0] / coords[-1] with the minimum / maximum label accordingly",
               "free-mode monitors: requested ends are nominal lattice points or half-way between two; the expected "
               "number of samples is the nominal count"]
NOT_COMPARED = ["error messages (only the error class)", "`start` / `stop` attributes written by extend_dim",
                "dtype of the data (an integer array may come back as float; cell values are compared)",
                "extension of a one-point axis that has no step attribute (the estimated step is NaN)",
                "non-dyadic axes: only length, placement of the data, kept coordinates and lattice continuation within "
                "tolerance are checked on the real output (the rational model cannot exhibit arange rounding)"]

LAYOUTS = ["1d", "2d-first", "2d-last", "3d-mid"]
OTHER_SHAPE = {"1d": (), "2d-first": (3,), "2d-last": (3,), "3d-mid": (2, 2)}
SPECIAL = {"nan": math.nan, "inf": math.inf, "-inf": -math.inf}


def _ncols(layout):
    k = 1
    for d in OTHER_SHAPE[layout]:
        k *= d
    return k


# ------------------------------------------------------------------ cells: numbers, NaN, +-inf
def _cell_float(c):
    """cell of the protocol (int | rational string | "nan" | "inf" | "-inf") -> float"""
    if isinstance(c, str):
        return SPECIAL[c] if c in SPECIAL else float(frac(c))
    return float(c)


def _cell_of(x):
    x = float(x)
    if x != x:
        return "nan"
    if x in (math.inf, -math.inf):
        return "inf" if x > 0 else "-inf"
    return int(x) if x.is_integer() else rat(x)


def _norm_data(data, layout):
    """every datum as the list of its cells over the other dimensions (a scalar is the same cell everywhere)"""
    k = _ncols(layout)
    out = []
    for d in data:
        d = list(d) if isinstance(d, (list, tuple)) else [d] * k
        if len(d) != k:
            raise ValueError("datum does not fit the layout")
        out.append(d)
    return out


# ------------------------------------------------------------------ implementations
def _mk(coords, data, step_attr, layout="1d", int_axis=False, int_data=False):
    import numpy as np
    import xarray as xr
    from soundevent import arrays
    c = np.asarray(coords, dtype="int64" if int_axis else float)
    var = arrays.create_time_dim_from_array(c, step=step_attr)
    k = _ncols(layout)
    m = np.array([[_cell_float(x) for x in row] for row in _norm_data(data, layout)], dtype=float).reshape(len(data), k)
    if int_data:
        m = m.astype("int64")
    if layout == "1d":
        return xr.DataArray(m[:, 0].copy(), dims=["time"], coords={"time": var})
    if layout == "2d-first":
        return xr.DataArray(m.copy(), dims=["time", "other"], coords={"time": var, "other": np.array([10.0, 20.0, 30.0])})
    if layout == "2d-last":
        return xr.DataArray(m.T.copy(), dims=["other", "time"], coords={"time": var, "other": np.array([10.0, 20.0, 30.0])})
    return xr.DataArray(m.reshape(len(data), 2, 2).transpose(1, 0, 2).copy(), dims=["a", "time", "b"],
                        coords={"time": var, "b": np.array([7.0, 9.0])})


def _out(arr, layout="1d"):
    import numpy as np
    if tuple(sorted(arr.dims)) != tuple(sorted({"1d": ["time"], "2d-first": ["time", "other"],
                                                "2d-last": ["time", "other"], "3d-mid": ["a", "time", "b"]}[layout])):
        return {"raise": "crash:dimensions-changed"}
    for d, n in zip(("other", "a", "b"), (3, 2, 2)):
        if d in arr.dims and arr.sizes[d] != n:
            return {"raise": "crash:other-dimension-resized"}
    cs = [float(c) for c in np.asarray(arr.coords["time"].values)]
    order = {"1d": ("time",), "2d-first": ("time", "other"), "2d-last": ("time", "other"), "3d-mid": ("time", "a", "b")}[layout]
    k = _ncols(layout)
    v = np.asarray(arr.transpose(*order).values, dtype=float)
    if v.size != len(cs) * k:
        return {"raise": "crash:coords-data-length"}
    v = v.reshape(len(cs), k)
    data = [[_cell_of(x) for x in row] for row in v]
    return {"val": {"coords": [rat(c) for c in cs], "data": [row[0] if k == 1 else row for row in data]}}


def _arr_of(inp):
    return _mk(fl(inp["coords"]), inp["data"], f(inp.get("step_attr")), inp.get("layout", "1d"), inp.get("int_axis", False),
               inp.get("int_data", False))


def _snapshot(arr):
    import numpy as np
    return (np.asarray(arr.coords["time"].values).tobytes(), np.asarray(arr.values, dtype=float).tobytes(), tuple(arr.dims))


def _observed(arr, fn, layout):
    """call the operation; an argument that comes back changed is reported, not hidden"""
    before = _snapshot(arr)
    r = fn(arr)
    if _snapshot(arr) != before:
        return {"raise": "crash:input-array-mutated"}
    return _out(r, layout)


def _q(inp, key):
    import numpy as np
    v = f(inp.get(key))
    if v is None:
        return None
    ty = inp.get("argty")
    if (inp.get("int_axis") or ty == "int") and v == int(v):
        return int(v)
    if ty == "np":
        return np.float64(v)
    return v


def _fill_kw(inp):
    return {} if inp.get("fill") is None else {"fill_value": _cell_float(inp["fill"])}


def _flag_kw(inp):
    kw = {}
    if inp.get("eps") is not None:
        kw["eps"] = f(inp["eps"])
    if inp.get("lc") is not None:
        kw["left_closed"] = inp["lc"]
    if inp.get("rc") is not None:
        kw["right_closed"] = inp["rc"]
    return kw


@guarded
def _impl_crop(inp):
    from soundevent.arrays import operations as ops
    return _observed(_arr_of(inp), lambda a: ops.crop_dim(a, "time", start=_q(inp, "start"), stop=_q(inp, "stop"),
                                                          **_flag_kw(inp)), inp.get("layout", "1d"))


@guarded
def _impl_extend(inp):
    from soundevent.arrays import operations as ops
    return _observed(_arr_of(inp), lambda a: ops.extend_dim(a, "time", start=_q(inp, "start"), stop=_q(inp, "stop"),
                                                            **_fill_kw(inp), **_flag_kw(inp)), inp.get("layout", "1d"))


def _call_width(arr, inp):
    import numpy as np
    from soundevent.arrays import operations as ops
    fn = inp["fn"]
    w = np.int64(inp["w"]) if inp.get("argty") == "np" else inp["w"]
    pos = {} if inp.get("pos") is None else {"position": inp["pos"]}
    if fn == "adjust":
        return ops.adjust_dim_width(arr, "time", w, **_fill_kw(inp), **pos)
    if fn == "crop":
        return ops.crop_dim_width(arr, "time", w, **pos)
    return ops.extend_dim_width(arr, "time", w, **_fill_kw(inp), **pos)


@guarded
def _impl_width(inp):
    return _observed(_arr_of(inp), lambda a: _call_width(a, inp), inp.get("layout", "1d"))


@guarded
def _impl_dim_step(inp):
    from soundevent.arrays import dimensions as dims
    arr = _mk(fl(inp["coords"]), [0] * len(inp["coords"]), f(inp.get("step_attr")))
    kw = {k: f(inp[k]) for k in ("rtol", "atol") if inp.get(k) is not None}
    kw.update({k: inp[k] for k in ("check_tolerance", "estimate_step") if inp.get(k) is not None})
    if inp.get("via") == "estimate":
        kw.pop("estimate_step", None)
        r = float(dims.estimate_dim_step(arr.coords["time"].data, **kw))
    else:
        r = float(dims.get_dim_step(arr, "time", **kw))
    return {"val": None if r != r else rat(r)}


def _cmp_dim_step(inp, io, mo):
    if is_err(io) or is_err(mo) or io.get("val") is None or mo.get("val") is None:
        return None if io == mo else "implementation and model disagree"
    # the mean of exact differences: one correctly rounded division
    return None if float(frac(mo["val"])) == float(frac(io["val"])) else "step differs from the correctly rounded mean"


@guarded
def _impl_dim_range(inp):
    from soundevent.arrays import dimensions as dims
    arr = _mk(fl(inp["coords"]), [0] * len(inp["coords"]), None)
    lo, hi = dims.get_dim_range(arr, "time")
    return {"val": [rat(float(lo)), rat(float(hi)), rat(float(dims.get_dim_width(arr, "time")))]}


# ---- histories: every call works on the array the previous call returned (attributes and all)
def _apply_step(arr, st):
    from soundevent.arrays import operations as ops
    fn = st["fn"]
    if fn == "crop_dim":
        return ops.crop_dim(arr, "time", start=_q(st, "start"), stop=_q(st, "stop"), **_flag_kw(st))
    if fn == "extend_dim":
        return ops.extend_dim(arr, "time", start=_q(st, "start"), stop=_q(st, "stop"), **_fill_kw(st), **_flag_kw(st))
    return _call_width(arr, {"fn": "adjust", "w": st["w"], "fill": st.get("fill"), "pos": st.get("pos"), "argty": st.get("argty")})


@guarded
def _impl_history(inp):
    layout = inp.get("layout", "1d")
    arr = _arr_of(inp)
    outs = []
    for st in inp["steps"]:
        try:
            before = _snapshot(arr)
            r = _apply_step(arr, st)
            o = {"raise": "crash:input-array-mutated"} if _snapshot(arr) != before else _out(r, layout)
        except Exception as e:  # noqa: BLE001 - an exception of the real code is the observation of that call
            o = canon_exc(e)
        outs.append(o)
        if is_err(o):
            break
        arr = r          # the real object: coordinates, data and whatever attributes the call left on it
    return {"val": outs}


def _cmp_history(inp, io, mo):
    if is_err(io) or is_err(mo):
        return None if io == mo else "implementation and model disagree"
    a, b = io["val"], mo["val"]
    for k, st in enumerate(inp["steps"]):
        if k >= len(a) or k >= len(b):
            return None if len(a) == len(b) else f"call {k + 1} ({st['fn']}): one side stopped earlier"
        if a[k] != b[k]:
            return (f"call {k + 1} of the history ({st['fn']} on the result of call {k}) disagrees with the model applied to "
                    f"the array as it was before that call: impl={jkey(a[k])[:200]} model={jkey(b[k])[:200]}")
        if is_err(b[k]):
            return None
        n = len(b[k]["val"]["coords"])
        if n == 0 or (n < 2 and inp.get("step_attr") is None):
            return None       # an empty axis / a one-point axis without step: outside the quantifier from here on
    return None


# ---- free mode (decimal steps): the real code only, judged by the property
def _free_data(inp):
    return list(inp["data"]) if inp.get("data") is not None else list(range(1, inp["n"] + 1))


def _free_axis(inp):
    import numpy as np
    a0, step, n = f(inp["a0"]), f(inp["step"]), inp["n"]
    coords = a0 + step * np.arange(n)
    return coords, _mk(coords, _free_data(inp), step if inp["attr"] else None, inp.get("layout", "1d"))


def _free_result(o, coords):
    if is_err(o):
        return o
    return {"val": {"coords": fl(o["val"]["coords"]), "data": o["val"]["data"], "orig": [float(c) for c in coords]}}


@guarded
def _impl_width_free(inp):
    coords, arr = _free_axis(inp)
    o = _observed(arr, lambda a: _call_width(a, {"fn": "adjust", "w": inp["w"], "fill": inp["fill"], "pos": inp["pos"]}),
                  inp.get("layout", "1d"))
    return _free_result(o, coords)


def _placement(n, w, pos):
    """offset of the original data inside the result (extension) / of the window inside the data (crop)"""
    if w >= n:
        extra = w - n
        return {"start": 0, "center": extra // 2, "end": extra}[pos]
    return {"start": 0, "center": max(0, n // 2 - w // 2), "end": n - w}[pos]


def _lattice_ok(cs, c0, i0, step_q):
    """cs[i] within tolerance of c0 + (i - i0) * step (exact rationals of the floats)"""
    for i, c in enumerate(cs):
        if not tol_eq(c0 + (i - i0) * step_q, c):
            return f"coordinate {i} = {c!r} is off the axis lattice"
    for a, b in zip(cs, cs[1:]):
        if not a < b:
            return "coordinates not strictly increasing"
    return None


def _same_data(observed, expected, layout):
    return _norm_data(observed, layout) == _norm_data(expected, layout)


def _holds_width_free(ctx, inp, out):
    if is_err(out):
        return "adjust_dim_width raised: %s" % out["raise"]
    n, w, pos, fill = inp["n"], inp["w"], inp["pos"], inp["fill"]
    layout = inp.get("layout", "1d")
    data = _free_data(inp)
    r = out["val"]
    cs, ds, orig = r["coords"], r["data"], r["orig"]
    if len(cs) != w:
        return f"{len(cs)} samples for width {w} (axis of {n}, position {pos})"
    off = _placement(n, w, pos)
    if w >= n:
        exp = [fill] * off + data + [fill] * (w - n - off)
        if cs[off:off + n] != orig:
            return "original coordinates not kept in place"
        i0 = off
    else:
        exp = data[off:off + w]
        if cs != orig[off:off + w]:
            return "cropped window is not the requested one"
        i0 = -off
    if not _same_data(ds, exp, layout):
        return "data not on its coordinates / wrong placement / new samples not filled"
    return _lattice_ok(cs, frac(inp["a0"]), i0, frac(inp["step"]))


@guarded
def _impl_extend_free(inp):
    from soundevent.arrays import operations as ops
    coords, arr = _free_axis(inp)
    step = f(inp["step"])
    start = float(coords[0]) - inp["kl2"] / 2 * step
    stop = float(coords[-1]) + inp["kr2"] / 2 * step
    if inp.get("argty") == "np":       # the same numbers as numpy scalars
        import numpy as np
        start, stop = np.float64(start), np.float64(stop)
    o = _observed(arr, lambda a: ops.extend_dim(a, "time", start=start, stop=stop, fill_value=_cell_float(inp["fill"]),
                                                left_closed=inp["lc"], right_closed=inp["rc"]), inp.get("layout", "1d"))
    return _free_result(o, coords)


def _nominal(k2, closed):
    """number of lattice points beyond the axis end inside an end that lies k2 half-steps away"""
    if k2 % 2 == 1:
        return k2 // 2
    k = k2 // 2
    return k if closed else max(k - 1, 0)


def _holds_extend_free(ctx, inp, out):
    if is_err(out):
        return "extend_dim raised: %s" % out["raise"]
    n, fill = inp["n"], inp["fill"]
    r = out["val"]
    cs, ds, orig = r["coords"], r["data"], r["orig"]
    nl = _nominal(inp["kl2"], inp["lc"])
    nr = _nominal(inp["kr2"], inp["rc"])
    if len(cs) != nl + n + nr:
        return (f"{len(cs)} samples, the axis lattice has {nl} + {n} + {nr} points in the requested "
                f"{'[' if inp['lc'] else '('}start, stop{']' if inp['rc'] else ')'}")
    if cs[nl:nl + n] != orig:
        return "original coordinates not kept in place"
    if not _same_data(ds, [fill] * nl + _free_data(inp) + [fill] * nr, inp.get("layout", "1d")):
        return "data not on its coordinates / new samples not filled"
    return _lattice_ok(cs, frac(inp["a0"]), nl, frac(inp["step"]))


# ---- crop in free mode: decimal axes, requested ends half-way between coordinates or on them
@guarded
def _impl_crop_free(inp):
    from soundevent.arrays import operations as ops
    coords, arr = _free_axis(inp)
    step = f(inp["step"])
    start = float(coords[inp["i"]]) - (step / 2 if inp["half_l"] else 0.0)
    stop = float(coords[inp["j"]]) + (step / 2 if inp["half_r"] else 0.0)
    start, stop = max(start, float(coords[0])), min(stop, float(coords[-1]))
    if inp.get("argty") == "np":
        import numpy as np
        start, stop = np.float64(start), np.float64(stop)
    o = _observed(arr, lambda a: ops.crop_dim(a, "time", start=start, stop=stop, left_closed=inp["lc"], right_closed=inp["rc"]),
                  inp.get("layout", "1d"))
    if is_err(o):
        return o
    return {"val": {"coords": fl(o["val"]["coords"]), "data": o["val"]["data"], "orig": [float(c) for c in coords],
                    "start": start, "stop": stop}}


def _holds_crop_free(ctx, inp, out):
    if is_err(out):
        return "crop_dim raised: %s" % out["raise"]
    r = out["val"]
    lc, rc, s, e = inp["lc"], inp["rc"], r["start"], r["stop"]
    keep = [k for k, c in enumerate(r["orig"]) if (s <= c if lc else s < c) and (c <= e if rc else c < e)]
    if r["coords"] != [r["orig"][k] for k in keep]:
        return "crop_dim did not return exactly the coordinates inside the requested interval"
    data = _free_data(inp)
    if not _same_data(r["data"], [data[k] for k in keep], inp.get("layout", "1d")):
        return "data not on its coordinates"
    return None


_NOOP = dict(model_op="noop", to_model=lambda inp: {}, compare=lambda inp, io, mo: None, mode="tolerance")


def _strip(keys):
    def to_model(inp):
        out = {k: v for k, v in inp.items() if k not in keys}
        if "data" in out:     # the model sees every datum as the list of its cells over the other dimensions
            out["data"] = _norm_data(out["data"], inp.get("layout", "1d"))
        return out
    return to_model


_HARNESS_KEYS = {"layout", "int_axis", "int_data", "argty"}

OPS = {
    "crop_dim": Op("crop_dim", _impl_crop, to_model=_strip(_HARNESS_KEYS | {"step_attr"})),
    "extend_dim": Op("extend_dim", _impl_extend, to_model=_strip(_HARNESS_KEYS)),
    "width": Op("width", _impl_width, to_model=_strip(_HARNESS_KEYS)),
    "history": Op("history", _impl_history, to_model=_strip(_HARNESS_KEYS), compare=_cmp_history,
                  nontrivial=lambda inp, out: not is_err(out) and len(out["val"]) >= 2 and not is_err(out["val"][1])),
    "dim_step": Op("dim_step", _impl_dim_step, to_model=_strip({"via"}), compare=_cmp_dim_step, mode="round-once"),
    "dim_range": Op("dim_range", _impl_dim_range),
    "width_free": Op("width_free", _impl_width_free, holds=_holds_width_free, **_NOOP),
    "extend_free": Op("extend_free", _impl_extend_free, holds=_holds_extend_free, **_NOOP),
    "crop_free": Op("crop_free", _impl_crop_free, holds=_holds_crop_free, **_NOOP),
}


# ------------------------------------------------------------------ tie 1: defaults of the signatures
def _defaults(ctx):
    from soundevent.arrays import operations as ops
    from soundevent.arrays import dimensions as dims

    def default(fn, name):
        p = inspect.signature(fn).parameters.get(name)
        if p is None or p.default is inspect.Parameter.empty:
            raise LookupError(f"{fn.__name__} has no default for `{name}`")
        return p.default

    def lit(x):
        q = Fraction(x)
        return f"(({q.numerator} : Rat) / {q.denominator})"

    facts = []
    for fn in (ops.crop_dim, ops.extend_dim):
        facts.append(f"SE.Axis.defaultEps = {lit(default(fn, 'eps'))}")
        if default(fn, "left_closed") is not True or default(fn, "right_closed") is not False:
            ctx.fail("obligation", "defaults", detail=f"{fn.__name__}: closedness defaults are no longer [start, stop)")
    est = getattr(dims, "estimate_dim_step", None)     # public helper; get_dim_step is what the operations call
    for fn in [dims.get_dim_step] + ([est] if est is not None else []):
        facts.append(f"SE.Axis.defaultRtol = {lit(default(fn, 'rtol'))}")
        facts.append(f"SE.Axis.defaultAtol = {lit(default(fn, 'atol'))}")
        if default(fn, "check_tolerance") is not True:
            ctx.fail("obligation", "defaults", detail=f"{fn.__name__}: check_tolerance default changed")
    if default(dims.get_dim_step, "estimate_step") is not True:
        ctx.fail("obligation", "defaults", detail="get_dim_step no longer estimates the step by default")
    src = "\n".join(f"example : {fact} := by decide +kernel" for fact in dict.fromkeys(facts))
    ctx.obligation("signature-defaults", src, {"op": "crop_dim"})


# ------------------------------------------------------------------ tie 1b: the numeric kernels of crop_dim / extend_dim
_DIM = "time"
_FLAGS = [(True, False), (False, True), (True, True), (False, False)]


def _kernel_stubs():
    """Stand-ins for an array with one range dimension.  They answer what crop_dim / extend_dim ask of
    an array (range, step attribute, coordinate values, label slice, reindex) with symbolic numbers and
    record the calls that hand over to xarray.  Behaviour is observed, not names: locals, helper
    functions, the order of independent statements may change freely."""
    import numpy
    from ..symtrace import Sym, Untraceable

    sy = {n: Sym.var(n) for n in ("cs", "ce", "step", "s", "e", "eps")}

    class SArr:
        """coordinate values: the original ones and / or generated pieces, in order"""
        dtype = numpy.dtype("float64")
        ndim = 1

        def __init__(self, pieces):
            self.pieces = list(pieces)

        def __getitem__(self, k):
            if isinstance(k, int) and not isinstance(k, bool):
                if k == -1 and self.pieces and self.pieces[-1] == ("orig",):
                    return sy["ce"]      # increasing axis: the last coordinate is the maximum
                if k == 0 and self.pieces and self.pieces[0] == ("orig",):
                    return sy["cs"]
                # an element of a generated piece: an opaque number.  It may be stored (attributes) but if it
                # reaches the slice bounds / arange arguments the obligation refers to an unknown name and fails
                return Sym.var("opaque_generated_coordinate")
            if isinstance(k, slice) and len(self.pieces) == 1 and self.pieces[0][0] == "arange":
                _, a, b, c, rev, drop = self.pieces[0]
                if (k.start, k.stop, k.step) == (None, None, -1):
                    return SArr([("arange", a, b, c, not rev, drop)])
                if (k.start, k.stop, k.step) in ((1, None, None), (1, None, 1)) and not rev:
                    return SArr([("arange", a, b, c, rev, drop + 1)])
            raise Untraceable(f"unsupported indexing {k!r} of the coordinate array")

        def min(self, *a, **k):
            if self.pieces == [("orig",)]:
                return sy["cs"]
            raise Untraceable("min of generated coordinates")

        def max(self, *a, **k):
            if self.pieces == [("orig",)]:
                return sy["ce"]
            raise Untraceable("max of generated coordinates")

        def astype(self, *a, **k):
            return self

        def copy(self, *a, **k):
            return SArr(self.pieces)

        def __len__(self):
            raise Untraceable("length of the coordinate array")

    class SMask:
        """a boolean mask over the labels, given by inclusive bounds: `(labels >= lo) & (labels <= hi)`"""
        def __init__(self, lo=None, hi=None):
            self.lo, self.hi = lo, hi

        def __and__(self, o):
            if not isinstance(o, SMask) or (self.lo is not None and o.lo is not None) or (self.hi is not None and o.hi is not None):
                raise Untraceable("unsupported combination of label masks")
            return SMask(self.lo if self.lo is not None else o.lo, self.hi if self.hi is not None else o.hi)

        __rand__ = __and__

    class SCoord:
        """`arr.coords[dim]` / `arr.indexes[dim]` / `arr[dim]`"""
        dtype = numpy.dtype("float64")
        dims = (_DIM,)
        __hash__ = None

        def __init__(self):
            self.attrs = {"step": sy["step"], "units": "s"}

        def __ge__(self, v):
            return SMask(lo=v)

        def __le__(self, v):
            return SMask(hi=v)

        data = property(lambda self: SArr([("orig",)]))
        values = property(lambda self: SArr([("orig",)]))

        def to_numpy(self):
            return SArr([("orig",)])

        def min(self, *a, **k):
            return sy["cs"]

        def max(self, *a, **k):
            return sy["ce"]

        def __getitem__(self, k):
            return SArr([("orig",)])[k]

    class SMap:
        def __init__(self):
            self.c = SCoord()

        def __getitem__(self, key):
            if key != _DIM:
                raise KeyError(key)
            return self.c

        def __contains__(self, key):
            return key == _DIM

        def get(self, key, default=None):
            return self.c if key == _DIM else default

    class SResult:
        """what the label slice / the reindexing returned"""
        def __init__(self, kind, payload):
            self.kind, self.payload = kind, payload
            self.coords = SMap()
            self.attrs = {}

        def __getitem__(self, key):
            return self.coords[key]

    class SDataArray:
        dims = (_DIM,)
        ndim = 1

        def __init__(self):
            self.coords = SMap()
            self.indexes = SMap()
            self.attrs = {}

        def __getitem__(self, key):
            return self.coords[key]

        def _one(self, indexers, kw):
            d = dict(indexers or {})
            d.update(kw)
            if list(d) != [_DIM]:
                raise Untraceable("indexers of another dimension")
            return d[_DIM]

        def sel(self, indexers=None, method=None, tolerance=None, drop=False, **kw):
            sl = self._one(indexers, kw)
            if not isinstance(sl, slice) or sl.step is not None or method is not None:
                raise Untraceable("crop_dim no longer takes a plain label slice")
            return SResult("sel", (sl.start, sl.stop))

        def where(self, cond, other=None, drop=False):
            if not isinstance(cond, SMask) or cond.lo is None or cond.hi is None or not drop:
                raise Untraceable("crop_dim no longer selects an inclusive label range")
            return SResult("sel", (cond.lo, cond.hi))

        @property
        def loc(self):
            outer = self

            class Loc:
                def __getitem__(self, key):
                    return outer.sel(key if isinstance(key, dict) else {_DIM: key})
            return Loc()

        def reindex(self, indexers=None, method=None, tolerance=None, copy=True, fill_value=None, **kw):
            cs = self._one(indexers, kw)
            if not isinstance(cs, SArr) or method is not None:
                raise Untraceable("extend_dim no longer reindexes onto the generated coordinates")
            return SResult("reindex", cs.pieces)

    real_arange, real_concat = numpy.arange, numpy.concatenate

    def arange(*a, **kw):
        kw = dict(kw)
        kw.pop("dtype", None)
        kw.pop("like", None)
        vals = list(a) + list(kw.values())
        if not any(isinstance(x, Sym) for x in vals):
            return real_arange(*a, **kw)
        names = ["start", "stop", "step"]
        if len(a) == 1 and "stop" not in kw:
            args = {"start": 0, "stop": a[0]}
        else:
            args = dict(zip(names, a))
        args.update(kw)
        return SArr([("arange", args.get("start", 0), args["stop"], args.get("step", 1), False, 0)])

    def concatenate(seq, *a, **kw):
        seq = list(seq)
        if not any(isinstance(x, SArr) for x in seq):
            return real_concat(seq, *a, **kw)
        if not all(isinstance(x, SArr) for x in seq):
            raise Untraceable("concatenation of symbolic and concrete coordinates")
        return SArr([p for x in seq for p in x.pieces])

    class patched:
        def __enter__(self):
            numpy.arange, numpy.concatenate = arange, concatenate

        def __exit__(self, *exc):
            numpy.arange, numpy.concatenate = real_arange, real_concat

    return sy, SDataArray, patched, Untraceable


def _symbolic_ties(ctx):
    from soundevent.arrays import operations as ops
    from .. import symx
    sy, SDataArray, patched, Untraceable = _kernel_stubs()
    V = ["cs", "ce", "step", "s", "e", "eps"]
    bl = {True: "true", False: "false"}

    def crop_thunk(kw):
        def run():
            with patched():
                r = ops.crop_dim(SDataArray(), _DIM, eps=sy["eps"], **kw)
            if getattr(r, "kind", None) != "sel":
                raise Untraceable("crop_dim did not return the label slice of the array")
            return r.payload
        return run

    def plan_leaf(r):
        if getattr(r, "kind", None) != "reindex":
            raise Untraceable("extend_dim did not return the reindexed array")
        pieces = list(r.payload)
        if pieces.count(("orig",)) != 1:
            raise Untraceable("the original coordinates are not kept as one block")
        i = pieces.index(("orig",))
        left, right = pieces[:i], pieces[i + 1:]

        def side(ps, rev, drop):
            if not ps:
                return "none"
            if len(ps) != 1 or ps[0][4] != rev or ps[0][5] != drop:
                raise Untraceable("new coordinates are no longer generated outward from the axis ends by arange")
            return "some (%s, %s, %s)" % tuple(symx.num(x) for x in ps[0][1:4])
        return f"some ({side(left, True, 0)}, {side(right, False, 1)})"

    def extend_thunk(kw):
        def run():
            with patched():
                return ops.extend_dim(SDataArray(), _DIM, eps=sy["eps"], fill_value=0, **kw)
        return run

    for has_s in (True, False):
        for has_e in (True, False):
            for lc, rc in _FLAGS:
                kw = {"left_closed": lc, "right_closed": rc}
                if has_s:
                    kw["start"] = sy["s"]
                if has_e:
                    kw["stop"] = sy["e"]
                tag = f"{'s' if has_s else 'n'}{'e' if has_e else 'n'}_{'c' if lc else 'o'}{'c' if rc else 'o'}"
                margs = f"{'(some s)' if has_s else 'none'} {'(some e)' if has_e else 'none'}"
                name = f"ext_crop_bounds_{tag}"
                ctx.sym_tie(name, crop_thunk(kw), V, "Rat × Rat",
                            f"SE.Axis.cropBounds cs ce {margs} {bl[lc]} {bl[rc]} eps",
                            tactic=f"unfold {name} SE.Axis.cropBounds\n  se_c17", meta={"op": "crop_dim"})
                name = f"ext_extend_plan_{tag}"
                symx.sym_tie(ctx, name, extend_thunk(kw), V,
                             "Option (Option SE.Axis.ArangeArgs × Option SE.Axis.ArangeArgs)",
                             f"SE.Axis.extendPlan cs ce ce step {margs} eps {bl[lc]} {bl[rc]}", plan_leaf,
                             tactic=f"unfold {name} SE.Axis.extendPlan\n  se_c17", meta={"op": "extend_dim"})


# ------------------------------------------------------------------ generators
def _axis(rng, n, k=None):
    k = k if k is not None else rng.choice([0, 1, 2, 3, 6])
    a0 = dy(rng, -8, 40, k)
    step = dy(rng, 2.0 ** -k, 4, k)
    return a0, step, [a0 + i * step for i in range(n)]


FILLS = [0, 0, -9, 77, "nan", "inf", "-inf"]


def _cells(rng, n, k, fill):
    """data of n samples over k other positions: mostly distinct numbers, with NaN, +-inf and cells equal to
    the fill value mixed in (the operations must move cells, never reinterpret them)"""
    kind = rng.choice(["ramp", "ramp", "mixed", "mixed", "nan-heavy", "fill-equal"])
    rows = []
    for i in range(n):
        row = []
        for j in range(k):
            base = (i + 1) + 100 * j
            r = rng.random()
            if kind == "ramp":
                c = base
            elif kind == "mixed":
                c = "nan" if r < 0.15 else "inf" if r < 0.22 else "-inf" if r < 0.29 else fill if r < 0.4 else base
            elif kind == "nan-heavy":
                c = "nan" if r < 0.6 else base
            else:
                c = fill if r < 0.5 else base
            row.append(c)
        rows.append(row[0] if k == 1 else row)
    return rows


def _base(rng, coords, step, attr=None, layout=None, fill=0):
    n = len(coords)
    attr = (rng.random() < 0.5 or n < 2) if attr is None else attr
    layout = layout or rng.choice(LAYOUTS)
    b = {"coords": rats(coords), "data": _cells(rng, n, _ncols(layout), fill), "step_attr": rat(step) if attr else None,
         "layout": layout}
    if rng.random() < 0.15:
        b["argty"] = rng.choice(["np", "int"])
    if rng.random() < 0.1 and all(isinstance(c, int) for row in _norm_data(b["data"], layout) for c in row) \
            and (fill is None or isinstance(fill, int)):
        b["int_data"] = True
    return b


def _width_cases(ctx, lengths):
    rng = ctx.rng
    for n in lengths:
        a0, step, coords = _axis(rng, n)
        for attr in ([True, False] if n >= 2 else [True]):
            for w in range(1, 2 * n + 4):
                for pos in ("start", "center", "end"):
                    fill = rng.choice(FILLS)
                    b = _base(rng, coords, step, attr, fill=fill)
                    b.update({"fn": "adjust", "w": w, "fill": fill, "pos": pos})
                    yield b
        # defaults: no fill value (0), no position ("start")
        for w in (max(n - 1, 1), n + 2):
            for drop in ("fill", "pos", "both"):
                b = _base(rng, coords, step, True, fill=0)
                b.update({"fn": "adjust", "w": w, "fill": None if drop != "pos" else 5, "pos": None if drop != "fill" else "end"})
                yield b
        # rejected requests and the two halves called directly
        b = _base(rng, coords, step, True)
        for w, fn, pos in [(0, "adjust", "start"), (-1, "adjust", "end"), (n + 2, "adjust", "middle"),
                           (max(n - 1, 1), "adjust", "middle"), (n, "crop", "start"), (n + 1, "crop", "end"),
                           (n, "extend", "start"), (max(n - 1, 0), "extend", "center"), (n + 3, "extend", "center"),
                           (max(n - 1, 0), "crop", "center"), (n + 2, "extend", "bogus"), (0, "crop", "start"),
                           (0, "crop", "end"), (max(n - 1, 0), "crop", None), (n + 2, "extend", None)]:
            c = dict(b)
            c.update({"fn": fn, "w": w, "fill": 0, "pos": pos})
            yield c
    # integer-typed axis (the docstring examples), estimated step 1.0
    for n in (2, 5, 10):
        for w in range(1, 2 * n + 4):
            for pos in ("start", "center", "end"):
                yield {"coords": rats(range(n)), "data": list(range(1, n + 1)), "step_attr": None, "layout": "1d",
                       "int_axis": True, "int_data": w % 2 == 0, "fn": "adjust", "w": w, "fill": 0, "pos": pos}
    # irregular axis without the attribute: the step estimate is rejected
    yield {"coords": rats([0, 1, 3]), "data": [1, 2, 3], "step_attr": None, "layout": "1d",
           "fn": "adjust", "w": 5, "fill": 0, "pos": "start"}
    yield {"coords": rats([0, 1, 3]), "data": [1, "nan", 3], "step_attr": "1", "layout": "1d",
           "fn": "adjust", "w": 5, "fill": 0, "pos": "end"}
    # the smallest arrays that hold a NaN / an infinity / the fill value itself
    for data, fill in [([1, "nan", 3], 0), (["nan"], 0), (["inf", "-inf"], 0), ([0, 5, 0], 0), ([7, 7], 7),
                       (["nan", "nan"], "nan"), ([1, 2], "inf"), ([[1, "nan", 3], ["nan", 5, 6]], -9)]:
        n = len(data)
        layout = "2d-last" if isinstance(data[0], list) else "1d"
        for w in range(1, n + 4):
            for pos in ("start", "center", "end"):
                yield {"coords": rats(range(n)), "data": data, "step_attr": "1", "layout": layout,
                       "fn": "adjust", "w": w, "fill": fill, "pos": pos}


def _probe_points(rng, coords, step):
    """request end points: on coordinates, between them, a quarter step off"""
    pts = set(coords)
    for c in coords:
        pts.add(c + step / 2)
        pts.add(c + step / 4)
        pts.add(c - step / 4)
    return sorted(pts)


def _crop_cases(ctx, n_axes):
    rng = ctx.rng
    for _ in range(n_axes):
        n = rng.choice([1, 2, 3, 5, 8, 13, 40])
        a0, step, coords = _axis(rng, n)
        pts = [p for p in _probe_points(rng, coords, step) if coords[0] <= p <= coords[-1]]
        for _ in range(ctx.budget(40, 120)):
            s, e = rng.choice(pts), rng.choice(pts)
            if s > e and rng.random() < 0.9:
                s, e = e, s
            b = _base(rng, coords, step)
            b.update({"start": rat(s) if rng.random() < 0.85 else None, "stop": rat(e) if rng.random() < 0.85 else None,
                      "lc": rng.random() < 0.5, "rc": rng.random() < 0.5,
                      "eps": rng.choice([None, None, rat(Fraction(1, 1 << 20)), rat(step / 8)])})
            if rng.random() < 0.1:      # the closedness defaults [start, stop)
                b["lc"] = b["rc"] = None
            yield b
        # outside the axis, reversed
        b = _base(rng, coords, step)
        for s, e in [(coords[0] - step / 4, coords[-1]), (coords[0], coords[-1] + step / 4), (coords[-1], coords[0] - 1)]:
            c = dict(b)
            c.update({"start": rat(s), "stop": rat(e), "lc": True, "rc": False, "eps": None})
            yield c
    # every pair of ends on a small axis around zero (coordinates of both signs and zero itself)
    for coords in ([Fraction(i) for i in range(-3, 4)], [Fraction(i, 2) for i in range(-2, 2)], [Fraction(0)],
                   [Fraction(-5, 4), Fraction(-1, 4)]):
        for s in coords:
            for e in coords:
                if s <= e:
                    for lc, rc in _FLAGS:
                        for argty in (None, "int", "np"):      # ends as float, as Python int where whole, as numpy scalar
                            yield {"coords": rats(coords), "data": [("nan" if i % 3 == 1 else i) for i in range(len(coords))],
                                   "step_attr": None, "layout": "1d", "start": rat(s), "stop": rat(e), "lc": lc, "rc": rc,
                                   "eps": None, "argty": argty}
    # decimal axes: crop only compares (stop - eps is the one rounded operation, far from every coordinate)
    import numpy as np
    for step in (0.01, 0.1, 1 / 3, 0.004):
        for n in (5, 12):
            coords = [float(c) for c in (0.3 + step * np.arange(n))]
            for i in range(n):
                for j in range(i, n):
                    for lc, rc in _FLAGS:
                        yield {"coords": rats(coords), "data": list(range(1, n + 1)), "step_attr": rat(step),
                               "layout": "1d", "start": rat(coords[i]), "stop": rat(coords[j]), "lc": lc, "rc": rc,
                               "eps": None}


def _extend_cases(ctx, n_axes):
    rng = ctx.rng
    offs = [Fraction(0), Fraction(1, 4), Fraction(1, 2), Fraction(3, 4)]
    for _ in range(n_axes):
        n = rng.choice([1, 2, 3, 5, 8, 13, 40])
        a0, step, coords = _axis(rng, n)
        for kl in (0, 1, 2, 5):
            for kr in (0, 1, 3):
                for lc in (True, False):
                    for rc in (True, False):
                        fo, go = rng.choice(offs), rng.choice(offs)
                        fill = rng.choice(FILLS)
                        b = _base(rng, coords, step, fill=fill)
                        b.update({"start": rat(coords[0] - (kl + fo) * step), "stop": rat(coords[-1] + (kr + go) * step),
                                  "fill": fill, "lc": lc, "rc": rc,
                                  "eps": rng.choice([None, None, rat(Fraction(1, 1 << 20)), rat(step / 8)])})
                        if rng.random() < 0.1:
                            b["start"] = None
                        if rng.random() < 0.1:
                            b["stop"] = None
                        if rng.random() < 0.08 and isinstance(fill, int):      # defaults: fill 0, [start, stop)
                            b["fill"] = None
                            b["lc"] = b["rc"] = None
                            b["data"] = _cells(rng, n, _ncols(b["layout"]), 0)
                            b.pop("int_data", None)
                        yield b
        # not containing the axis, reversed: extend_dim does not crop
        b = _base(rng, coords, step)
        for s, e in [(coords[0] + step / 4, coords[-1] + step), (coords[0] - step, coords[-1] - step / 4),
                     (coords[-1] + 1, coords[0])]:
            c = dict(b)
            c.update({"start": rat(s), "stop": rat(e), "fill": 0, "lc": True, "rc": False, "eps": None})
            yield c
    # half-step axis, every combination of whole / half ends, given as float, Python int or numpy scalar
    half = [Fraction(0), Fraction(1, 2), Fraction(1)]
    for s in (Fraction(-1), Fraction(-1, 2), Fraction(0), None):
        for e in (Fraction(1), Fraction(3, 2), Fraction(2), None):
            for lc, rc in _FLAGS:
                for argty in (None, "int", "np"):
                    yield {"coords": rats(half), "data": [1, "nan", 3], "step_attr": "1/2" if lc else None, "layout": "1d",
                           "start": None if s is None else rat(s), "stop": None if e is None else rat(e), "fill": -9,
                           "lc": lc, "rc": rc, "eps": None, "argty": argty}
    # the smallest arrays that hold a NaN / an infinity / the fill value itself
    for data, fill in [([1, "nan", 3], 0), (["nan"], 0), (["inf", "-inf"], 0), ([0, 5, 0], 0), ([7, 7], 7),
                       (["nan", "nan"], "nan"), ([1, 2], "-inf")]:
        n = len(data)
        for kl in (0, 2):
            for kr in (0, 1):
                yield {"coords": rats(range(n)), "data": data, "step_attr": "1", "layout": "1d", "start": rat(-kl),
                       "stop": rat(n - 1 + kr), "fill": fill, "lc": True, "rc": True, "eps": None}


def _half(a0, step, h):
    """the point h half-steps from a0"""
    return a0 + Fraction(h, 2) * step


def _first_inside(h, closed):
    """smallest lattice index k with 2k >= h (closed) / 2k > h (open)"""
    return -((-h) // 2) if closed else h // 2 + 1


def _last_inside(h, closed):
    return h // 2 if closed else -((-h) // 2) - 1


def _history_step(rng, kind, kmin, kmax, a0, step, fill):
    """one call that stays inside the property's quantifier for an axis a0 + k * step, kmin <= k <= kmax;
    returns (call, new kmin, new kmax) or None"""
    n = kmax - kmin + 1
    lc, rc = rng.choice(_FLAGS)
    if kind == "extend_dim":
        hs = 2 * kmin - rng.choice([0, 0, 1, 2, 3, 4, 7])
        he = 2 * kmax + rng.choice([0, 0, 1, 2, 3, 5, 6])
        if not lc and hs == 2 * kmin:
            hs -= 1
        if not rc and he == 2 * kmax:
            he += 1
        st = {"fn": "extend_dim", "start": rat(_half(a0, step, hs)), "stop": rat(_half(a0, step, he)), "lc": lc, "rc": rc,
              "fill": fill, "eps": None}
        nmin, nmax = min(kmin, _first_inside(hs, lc)), max(kmax, _last_inside(he, rc))
        r = rng.random()
        if r < 0.12:
            st["start"], nmin = None, kmin
        elif r < 0.24:
            st["stop"], nmax = None, kmax
        return st, nmin, nmax
    if kind == "crop_dim":
        hs = rng.randint(2 * kmin, 2 * kmax)
        he = rng.randint(hs, 2 * kmax)
        if rng.random() < 0.3:
            he = 2 * kmax                 # up to the very end of the axis as it is now
        if rng.random() < 0.2:
            hs = 2 * kmin
        st = {"fn": "crop_dim", "start": rat(_half(a0, step, hs)), "stop": rat(_half(a0, step, he)), "lc": lc, "rc": rc, "eps": None}
        nmin, nmax = max(kmin, _first_inside(hs, lc)), min(kmax, _last_inside(he, rc))
        r = rng.random()
        if r < 0.12:
            st["start"], nmin = None, kmin
        elif r < 0.24:
            st["stop"], nmax = None, kmax
        return st, nmin, nmax
    w = rng.randint(max(1, n - 3), n + 4)
    pos = rng.choice(["start", "center", "end"])
    off = _placement(n, w, pos)
    st = {"fn": "width", "w": w, "fill": fill, "pos": pos}
    if w >= n:
        return st, kmin - off, kmin - off + w - 1
    return st, kmin + off, kmin + off + w - 1


_HISTORY_SHAPES = [("extend_dim", "extend_dim"), ("extend_dim", "crop_dim"), ("extend_dim", "crop_dim", "extend_dim"),
                   ("crop_dim", "extend_dim"), ("extend_dim", "width"), ("width", "extend_dim"), ("width", "crop_dim"),
                   ("crop_dim", "crop_dim"), ("extend_dim", "extend_dim", "crop_dim"), ("extend_dim", "width", "crop_dim", "extend_dim"),
                   ("crop_dim", "width", "extend_dim"), ("extend_dim", "extend_dim", "extend_dim")]


def _history_cases(ctx, count):
    """chains of 2-4 calls, each on the output of the previous one; the generator follows the axis (as lattice
    indices) so that every request stays inside the quantifier: crops inside, extensions containing the axis"""
    rng = ctx.rng
    kinds = ["extend_dim", "crop_dim", "width"]
    for i in range(count):
        n = rng.choice([1, 2, 3, 5, 8, 13])
        a0, step, coords = _axis(rng, n)
        if i < 6 * len(_HISTORY_SHAPES):
            shape = _HISTORY_SHAPES[i % len(_HISTORY_SHAPES)]
        else:
            shape = [rng.choice(kinds) for _ in range(rng.randint(2, 4))]
        fill = rng.choice(FILLS)
        b = _base(rng, coords, step, attr=True if rng.random() < 0.7 else None, fill=fill)
        b.pop("argty", None)
        kmin, kmax, steps = 0, n - 1, []
        for kind in shape:
            got = _history_step(rng, kind, kmin, kmax, a0, step, rng.choice([fill, fill, rng.choice(FILLS)]))
            st, kmin, kmax = got
            if rng.random() < 0.1:
                st["argty"] = rng.choice(["np", "int"])
            steps.append(st)
            if kmax < kmin or (kmax == kmin and b["step_attr"] is None):
                break
        if b.get("int_data") and any(not isinstance(st.get("fill", 0), int) for st in steps):
            b.pop("int_data")
        if len(steps) >= 2:
            b["steps"] = steps
            ctx.tally(f"history:{len(steps)}-calls")
            ctx.tally("history:first-two=" + ">".join(st["fn"].split("_")[0] for st in steps[:2]))
            yield b
    # integer axis 0..4 (the docstring arrays), whole-number requests
    for shape in _HISTORY_SHAPES:
        kmin, kmax, steps = 0, 4, []
        for kind in shape:
            st, kmin, kmax = _history_step(rng, kind, kmin, kmax, Fraction(0), Fraction(1), 0)
            steps.append(st)
            if kmax < kmin:
                break
        if len(steps) >= 2:
            yield {"coords": rats(range(5)), "data": [1, 2, "nan", 4, 5], "step_attr": None if rng.random() < 0.5 else "1",
                   "layout": "1d", "steps": steps}


def _step_cases(ctx):
    """get_dim_step / estimate_dim_step with every option: attribute, estimate, tolerances, switches"""
    rng = ctx.rng
    tols = [None, "0", rat(Fraction(1, 4)), rat(Fraction(1, 64)), rat(Fraction(1, 1 << 20))]
    for _ in range(ctx.budget(300, 3000)):
        n = rng.choice([1, 2, 3, 3, 5, 9, 17])
        a0, step, coords = _axis(rng, n, rng.choice([0, 1, 3]))
        if rng.random() < 0.6 and n >= 3:     # make it irregular by a dyadic amount
            i = rng.randrange(1, n)
            d = step * rng.choice([Fraction(1, 2), Fraction(1, 8), Fraction(1, 1 << 12), Fraction(1, 1 << 24)])
            coords = coords[:i] + [c + d for c in coords[i:]]
        inp = {"coords": rats(coords), "step_attr": rat(step * 3) if rng.random() < 0.2 else None,
               "rtol": rng.choice(tols), "atol": rng.choice(tols),
               "check_tolerance": rng.choice([None, True, False]), "estimate_step": rng.choice([None, None, True, False]),
               "via": "estimate" if rng.random() < 0.25 else None}
        if inp["via"] == "estimate":
            inp["step_attr"] = None
            inp["estimate_step"] = None
        # stay away from the tolerance boundary unless everything is exact
        ds = [b - a for a, b in zip(coords, coords[1:])]
        if ds:
            mean = sum(ds) / len(ds)
            rt = frac(inp["rtol"]) if inp["rtol"] is not None else Fraction(1e-5)
            at = frac(inp["atol"]) if inp["atol"] is not None else Fraction(1e-8)
            tol = at + rt * abs(mean)
            exact = float(mean) == mean and inp["rtol"] is not None and inp["atol"] is not None
            if not exact and any(abs(abs(d - mean) - tol) <= Fraction(1, 1 << 30) * max(1, tol) for d in ds):
                continue
        yield inp


def _range_cases(ctx):
    rng = ctx.rng
    for _ in range(ctx.budget(60, 400)):
        n = rng.choice([1, 2, 5, 9])
        _a0, _step, coords = _axis(rng, n)
        yield {"coords": rats(coords)}


FREE_STEPS = [0.01, 1 / 3, 0.004, 1 / 44100, 0.1, 1e-3, 0.25, 1 / 22050, 0.3, 2.5]
FREE_STARTS = [0.0, 0.3, 12.7, 2.0, 100.03]
FREE_FILLS = [0, -9, "nan", "inf"]


def _free_cells(rng, n, fill):
    """None = the ramp 1..n; otherwise cells with NaN / inf / the fill value among them"""
    if rng.random() < 0.5:
        return None
    return [("nan" if r < 0.25 else "inf" if r < 0.35 else fill if r < 0.5 else i + 1)
            for i, r in ((i, rng.random()) for i in range(n))]


def _width_free_cases(ctx):
    rng = ctx.rng
    for step in FREE_STEPS:
        for n in (1, 2, 5, 10, 37):
            for a0 in FREE_STARTS[:3]:
                for w in sorted({max(1, n - 3), n, n + 1, n + 2, n + 7, 2 * n + 1, 2 * n + 3}):
                    for pos in ("start", "end", "center"):
                        fill = rng.choice(FREE_FILLS)
                        yield {"a0": rat(a0), "step": rat(step), "n": n, "attr": n < 2 or rng.random() < 0.5,
                               "w": w, "pos": pos, "fill": fill, "layout": "1d", "data": _free_cells(rng, n, fill)}
    for _ in range(ctx.budget(400, 8000)):
        n = rng.randint(1, 60)
        fill = rng.choice(FREE_FILLS)
        yield {"a0": rat(rng.choice(FREE_STARTS + [rng.uniform(-3, 30)])),
               "step": rat(rng.choice(FREE_STEPS + [rng.uniform(1e-4, 2)])), "n": n, "attr": n < 2 or rng.random() < 0.5,
               "w": rng.randint(1, 2 * n + 3), "pos": rng.choice(["start", "end", "center"]), "fill": fill,
               "layout": rng.choice(LAYOUTS), "data": _free_cells(rng, n, fill)}


def _inside_quantifier(c):
    """an open end must lie strictly beyond the axis end (the requested interval contains the axis)"""
    if not c["lc"] and c["kl2"] == 0:
        c["kl2"] = 1
    if not c["rc"] and c["kr2"] == 0:
        c["kr2"] = 1
    return c


def _extend_free_cases(ctx):
    for c in _extend_free_raw(ctx):
        yield _inside_quantifier(c)


def _extend_free_raw(ctx):
    rng = ctx.rng
    for step in FREE_STEPS:
        for n in (1, 2, 5, 12):
            for a0 in FREE_STARTS[:4]:
                for kl2 in (0, 2, 3, 6):
                    for kr2 in (0, 2, 5, 8):
                        lc, rc = rng.choice(_FLAGS)
                        fill = rng.choice(FREE_FILLS)
                        yield {"a0": rat(a0), "step": rat(step), "n": n, "attr": True, "kl2": kl2, "kr2": kr2,
                               "lc": lc, "rc": rc, "fill": fill, "layout": "1d", "data": _free_cells(rng, n, fill)}
    for _ in range(ctx.budget(600, 10000)):
        n = rng.randint(1, 40)
        fill = rng.choice(FREE_FILLS)
        yield {"a0": rat(rng.choice(FREE_STARTS + [rng.uniform(-3, 30)])),
               "step": rat(rng.choice(FREE_STEPS + [rng.uniform(1e-3, 2)])), "n": n, "attr": n < 2 or rng.random() < 0.6,
               "kl2": rng.randint(0, 12), "kr2": rng.randint(0, 12), "lc": rng.random() < 0.5, "rc": rng.random() < 0.5,
               "fill": fill, "layout": rng.choice(LAYOUTS), "data": _free_cells(rng, n, fill),
               "argty": "np" if rng.random() < 0.3 else None}


def _crop_free_cases(ctx):
    rng = ctx.rng
    steps = [s for s in FREE_STEPS if s >= 1e-3]
    for _ in range(ctx.budget(500, 6000)):
        n = rng.randint(1, 30)
        i = rng.randrange(n)
        j = rng.randrange(i, n)
        yield {"a0": rat(rng.choice(FREE_STARTS + [-1.7, rng.uniform(-3, 30)])), "step": rat(rng.choice(steps + [rng.uniform(1e-3, 2)])),
               "n": n, "attr": rng.random() < 0.5, "i": i, "j": j, "half_l": rng.random() < 0.5, "half_r": rng.random() < 0.5,
               "lc": rng.random() < 0.5, "rc": rng.random() < 0.5, "layout": rng.choice(LAYOUTS),
               "data": _free_cells(rng, n, 0), "argty": "np" if rng.random() < 0.3 else None}


QUICK_LENGTHS = [1, 2, 3, 4, 5, 7, 8, 12, 16, 25, 40]


def _stage_obligations(ctx):
    ctx.stage("signature-defaults", _defaults, ctx)
    ctx.stage("symbolic-ties", _symbolic_ties, ctx)
    ctx.discharge(["SoundeventModel.Axis", "SoundeventModel.AxisOps", "SoundeventModel.Tactics"])


def _stage_width(ctx):
    lengths = list(range(1, 41)) if ctx.thorough() else QUICK_LENGTHS
    ctx.run_cases(OPS["width"], _width_cases(ctx, lengths))
    ctx.exhaustive["width"] = (f"dyadic axes of lengths {lengths[0]}..{lengths[-1]} ({len(lengths)} lengths): every width "
                               "1..2n+3 x start/center/end x step attribute present/absent")
    ctx.exhaustive["crop_dim"] = "axes -3..3, -1..1/2 (step 1/2), [0], [-5/4, -1/4]: every pair of ends on coordinates x 4 closedness flags"


def run(ctx):
    ctx.stage("corpus", ctx.run_corpus, OPS)
    ctx.stage("obligations", _stage_obligations, ctx)
    ctx.stage("width-exact", _stage_width, ctx)
    ctx.stage("crop-exact", lambda: ctx.run_cases(OPS["crop_dim"], _crop_cases(ctx, ctx.budget(25, 200))))
    ctx.stage("extend-exact", lambda: ctx.run_cases(OPS["extend_dim"], _extend_cases(ctx, ctx.budget(25, 200))))
    ctx.stage("history-exact", lambda: ctx.run_cases(OPS["history"], _history_cases(ctx, ctx.budget(700, 6000))))
    ctx.stage("step-exact", lambda: ctx.run_cases(OPS["dim_step"], _step_cases(ctx)))
    ctx.stage("range-exact", lambda: ctx.run_cases(OPS["dim_range"], _range_cases(ctx)))
    ctx.stage("width-free-monitor", lambda: ctx.run_cases(OPS["width_free"], _width_free_cases(ctx)))
    ctx.stage("extend-free-monitor", lambda: ctx.run_cases(OPS["extend_free"], _extend_free_cases(ctx)))
    ctx.stage("crop-free-monitor", lambda: ctx.run_cases(OPS["crop_free"], _crop_free_cases(ctx)))


def search(ctx, failures):
    ctx.run_cases(OPS["width"], _width_cases(ctx, QUICK_LENGTHS))
    ctx.run_cases(OPS["crop_dim"], _crop_cases(ctx, 40))
    ctx.run_cases(OPS["extend_dim"], _extend_cases(ctx, 40))
    ctx.run_cases(OPS["history"], _history_cases(ctx, 700))
    ctx.run_cases(OPS["dim_step"], _step_cases(ctx))
    ctx.run_cases(OPS["width_free"], _width_free_cases(ctx))
    ctx.run_cases(OPS["extend_free"], _extend_free_cases(ctx))
    ctx.run_cases(OPS["crop_free"], _crop_free_cases(ctx))
