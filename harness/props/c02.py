"""C02 — AOEF documents are self-contained and resolvable in a single pass."""
import copy
import json
import random

from ..core import Op, canon_exc
from .. import aoef, aoefgen, aoef_impl, aoef_schema, c02gen

PROPERTY = "C02"
LEAN_MODULE = "Proofs.C02Refine"      # imports Proofs.C02 and Proofs.C02Adapter
_T = "SE.Proofs.C02."
_THEOREM_NAMES = ["C02_trav_iff_reachable", "C02_exact", "C02_exact_reachable", "C02_parent_first", "C02_tag_ids_dense",
                  "C02_tag_ids_by_content", "C02_unique", "C02_closed_any", "C02_closed",
                  "C02_user_adapter_values", "C02_tag_adapter_values", "C02_tag_adapter_id",
                  "C02_adapter_load_is_addAll", "C02_tag_ids_dense_operational",
                  "C02_opSave_refines", "C02_opSave_fails_iff", "C02_opSave_error", "C02_opSave_total",
                  "C02_opSave_tables", "C02_opSave_roundtrip", "C02_opSave_roundtrip_none", "C02_opSave_closed",
                  "C02_opSave_unique", "C02_opSave_parent_first", "C02_opSave_exact", "C02_opSave_tag_ids_dense",
                  # second-engineer review: the reference table of the schema
                  "C02_refs_are_the_rows", "C02_closed_iff_rows", "C02_rows_defined", "C02_schema_closed",
                  "C02_save_within", "C02_model_schemas_closed", "C02_save_refs_declared", "C02_exact_objects",
                  "C02_tag_contents_nodup", "C02_opSave_rows_defined", "C02_opSave_exact_objects",
                  "C02_opSave_tag_contents_nodup",
                  # follow-up (wave 5): an object referenced from several places
                  "C02_defined_exactly_once", "C02_opSave_defined_exactly_once",
                  # follow-up (wave 6): tag contents as (label, value) pairs, no joined text key
                  "C02_tag_pairs_exact", "C02_tag_pairs_reachable", "C02_opSave_tag_pairs_exact"]
THEOREMS = [_T + n for n in _THEOREM_NAMES]
LEVEL_TEXT = ("Lean theorems over the AOEF model (shared with C01): the document `save c` writes is closed under "
              "reference, its identifiers are unique per list, a sequence's parent precedes it, tag ids are dense and "
              "allocated per (label, value) and a tag content is defined once, and the objects defined are exactly the "
              "objects reachable from the collection, kind by kind (traversal = reflexive-transitive closure of the "
              "direct-reference relation `children`). `closed` quantifies over a reference table with one row per "
              "reference-carrying field of the schema (`refs` = union of the rows, proved); the rows, the definition "
              "lists and the keys of the eight collection schemas are re-extracted from the type annotations of the "
              "declared fields on every run and discharged against the table (`decide +kernel`), together with the "
              "generic schema theorem (a schema that can hold a reference field declares the list it points into). "
              "The executable statement of the property (Lean `closed` / `unique` / `parentFirst`, `defs = reachKeys`, "
              "tag contents once) is evaluated on the documents the real code writes — pool-generated graphs, trees "
              "in which every reference is the only path to its target, exhaustive present/absent child lists, parent "
              "chains of depth 0..5 with shared parents in both conversion orders, one object referenced from several "
              "places at every level (a clip annotation / clip prediction / match shared by several clip evaluations, "
              "an annotation / prediction shared by several clip annotations / predictions, a sound event / sequence "
              "under annotations, predictions, sequences and as a parent, several users / tags / notes / recordings / "
              "clips / sound events / sequences of a tree made one object, in every collection type that can hold "
              "them; theorem C02_defined_exactly_once), identifiers shared across kinds, "
              "collections that are instances of user-defined subclasses or come from model_validate / model_copy / "
              "tuples, histories of saves in one process to one file path (other types over the same Python objects, "
              "re-identified objects, an object modified in place, a poisoned return value and an `exclude` call in "
              "between) — and every written document is loaded back through the library's single-pass loader, which "
              "must reach the same identifiers.")
LEVEL_NOTE = ("Trusted: Lean kernel; the harness' conversion of the written JSON into the model's Doc layout "
              "(cross-checked on every document by a schema-driven scan of the raw JSON that knows no field name: "
              "identifiers per definition list and per reference row must agree with the Lean accessors). The model "
              "is tied to the code by the regenerated reference-table / schema obligations and by comparing, per kind, "
              "the identifiers the real document defines with the identifiers the model's traversal reaches; strength "
              "bounded by the generators (distribution in the evidence). Unmodelled: pydantic's dumping of atoms, "
              "objects built without validation, two Python objects with one uuid and different content (only "
              "closure / parent order are monitored there).")
TECHNIQUE = ("Lean 4 proof (closure / uniqueness / parent-first / exactness / reference-table theorems over the AOEF "
             "model); regenerated reference-table and schema obligations (decide +kernel) from the declared fields; the "
             "same predicates evaluated in Lean on the real documents; differential correspondence of defined vs "
             "reachable identifiers per kind; schema-driven scan of the raw documents; load-back through the real loader")
RULE = ("distinct (collection, audio_dir, construction path) inputs for which the real code wrote a document; "
        "non-trivial = the document defines at least one object besides the collection itself; a history (several saves "
        "in one process, every step judged by the model on the content the objects carry at that step) counts once")
TRUSTED = ["harness/aoef.py: doc_to_model (written JSON -> Lean Doc layout; cross-checked per document by "
           "harness/aoef_schema.py), build (model JSON -> pydantic objects)"]
ASSUMPTIONS = ["objects with one uuid are one object (the model's WF hypothesis, evaluated by wfB on every input; inputs "
               "that break it are only monitored for closure and parent order)",
               "the collection's own member list has distinct members (otherwise 'defined exactly once' and 'list order "
               "is preserved' cannot both hold for recording sets, annotation sets and prediction sets)"]
NOT_COMPARED = ["order of the definition lists (only parent-before-child is pinned)", "numbering of tag ids (only "
                "uniqueness, one id per content and resolution are pinned; density is proved of the model; adapter "
                "operation sequences are compared modulo a renumbering of the tag ids)"]

_CTX = [None]
_SCHEMA = [None]        # aoef_schema.extract() of this run (None: could not be extracted)
_TARGETS = [None]       # "owner/path" -> definition list, from the model's reference table
_TIE_REPORTED = [0, 0]


def _ctx():
    """the running check's context; in --replay mode `run` is not called, so it is looked up on the call stack"""
    if _CTX[0] is None:
        import sys
        from ..core import Ctx
        f = sys._getframe(1)
        while f is not None:
            c = f.f_locals.get("self")
            if isinstance(c, Ctx):
                _CTX[0] = c
                break
            f = f.f_back
    return _CTX[0]


def _ref_table(ctx):
    if _TARGETS[0] is None:
        tab = ctx.model("ref_table", {})
        _TARGETS[0] = (tab, {f"{r['owner']}/{r['path']}": r["kind"] for r in tab["rows"]})
    return _TARGETS[0][0]


def _targets(ctx):
    _ref_table(ctx)
    return _TARGETS[0][1]


def _schema():
    if _SCHEMA[0] is None:
        try:
            _SCHEMA[0] = aoef_schema.extract()
        except Exception:  # noqa: BLE001  (the package changed shape: the scan is simply not available)
            _SCHEMA[0] = {}
    return _SCHEMA[0]


# ------------------------------------------------------------------ the written document
_PRE = {}          # id(input) -> (input, output) prepared in a batch (see _prepare)


def _negative_int(x):
    if isinstance(x, bool):
        return False
    if isinstance(x, int):
        return x < 0
    if isinstance(x, dict):
        return any(_negative_int(v) for v in x.values())
    if isinstance(x, list):
        return any(_negative_int(v) for v in x)
    return False


def _save(inp, session=None):
    """build the real objects and `io.save` them.  `inp["how"]`: the construction path of the collection (see
    c02gen.construct).  Within a history (`session`) the Python objects of earlier steps are *shared* with this
    step when `inp["share"]` says their content is the same, and every step writes to the same file path (the file
    of the earlier save is still there)."""
    import os
    from soundevent import io
    if session is not None and inp.get("share"):
        b = session["builder"]
    else:
        # `leaves: shared`: one Python Tag per content and one Note per uuid as well (see c02gen.SharingBuilder)
        b = c02gen.SharingBuilder() if inp.get("leaves") == "shared" else aoef.Builder()
    if inp.get("mutate") and session is not None:
        # an object that was saved before is modified in place (list append / attribute assignment) and saved again
        c02gen.apply_mutation(b, inp["mutate"])
    obj = c02gen.construct(b.collection(inp["collection"]), inp.get("how"))
    if session is not None:
        path = session.setdefault("path", aoef_impl.tmp_path("hist"))
    else:
        path = aoef_impl.tmp_path()
        if os.path.exists(path):
            os.remove(path)
    adir = aoef_impl.adir(inp.get("audio_dir"), inp.get("dir_as", "str"))
    io.save(obj, path, audio_dir=adir)
    if inp.get("poison"):
        _poison(obj, adir, path)
    return path


def _poison(obj, adir, path):
    """after the save that is judged: convert the same object again, empty every list of the returned AOEF object in
    place, and save once more with an `exclude` option to another file.  Nothing of this may show in later saves
    (a returned object that aliases adapter state, an option that leaks into module state)."""
    import os
    from soundevent import io
    from soundevent.io import aoef as A
    try:
        res = A.to_aeof(obj, audio_dir=adir)
        for name in type(res.data).model_fields:
            v = getattr(res.data, name, None)
            if isinstance(v, list):
                for o in v:
                    for n2 in type(o).model_fields if hasattr(type(o), "model_fields") else ():
                        w = getattr(o, n2, None)
                        if isinstance(w, list):
                            w.clear()
                v.clear()
        other = path + ".excluded.json"
        io.save(obj, other, audio_dir=adir, exclude={"data": {"tags": True, "users": True}})
        os.remove(other)
    except Exception:  # noqa: BLE001  (the extra calls are not what is judged)
        pass


def _observe(inp, load=True, session=None):
    """run the real code on one input: save, read the file back as JSON, convert it to the model's layout, and load it
    through the library's own single-pass loader.  No model call here (they are batched)."""
    rec = {"inp": inp}
    try:
        path = _save(inp, session)
    except Exception as e:  # noqa: BLE001
        rec["out"] = canon_exc(e)
        if rec["out"]["raise"].startswith("crash:"):
            rec["out"]["trace"] = repr(e)[:300]
        return rec
    try:
        rec["data"] = json.load(open(path))["data"]
        if load:
            rec["loaded"] = _load_dump(path, inp)
    finally:
        if session is None:
            aoef_impl.cleanup(path)
    try:
        doc = aoef.doc_to_model(rec["data"])
        if _negative_int(doc):
            raise ValueError("negative integer identifier")
        rec["doc"] = doc
    except Exception as e:  # noqa: BLE001  (the document no longer has the shape the conversion expects)
        rec["unconvertible"] = repr(e)[:300]
    return rec


def _load_dump(path, inp):
    from soundevent import io
    try:
        return {"val": aoef.dump(io.load(path, audio_dir=inp.get("audio_dir")))}
    except Exception as e:  # noqa: BLE001
        return canon_exc(e)


def _judge(ctx, rec, rep, loaded):
    """everything the check observes of one written file (`rep`: the model's analysis of the converted document,
    `loaded`: the identifiers reached by the collection the loader returned)"""
    if "out" in rec:
        return rec["out"]
    data, inp = rec["data"], rec["inp"]
    out = {"problems": [], "defs": {}, "dup": {}, "unknown_keys": sorted(set(data) - aoef.KNOWN_DOC_KEYS)}
    if "unconvertible" in rec:
        out["unconvertible"] = rec["unconvertible"]
    if rep is not None:
        out["problems"] = list(rep["problems"])
        out["defs"] = {k: sorted(set(v)) for k, v in rep["defs"].items()}
        out["dup"] = {k: len(v) - len(set(v)) for k, v in rep["defs"].items() if len(v) != len(set(v))}
        # the model's `unique` said "duplicate identifiers in <list>": name them (read off the raw identifiers)
        for i, p in enumerate(out["problems"]):
            if p.startswith("duplicate identifiers in "):
                ids = rep["ids"].get(p[len("duplicate identifiers in "):], [])
                twice = sorted({x for x in ids if ids.count(x) > 1}, key=str)
                if twice:
                    out["problems"][i] = (f"{p}: {twice[0]} is defined {ids.count(twice[0])} times (every object is "
                                          "defined exactly once, however many places refer to it)")
        try:
            tids = sorted(int(i) for i in rep["ids"].get("tags", []))
            ctx.tally("documents with tags", int(bool(tids)))
            ctx.tally("documents whose tag ids are 0..n-1", int(bool(tids) and tids == list(range(len(tids)))))
        except Exception:  # noqa: BLE001
            pass
        contents = [tuple(t) for t in rep.get("tag_contents", [])]
        twice = sorted({c for c in contents if contents.count(c) > 1})
        if twice:
            out["problems"].append(f"the tag {twice[0]!r} is defined {contents.count(twice[0])} times (one entry per content)")
        out["tag_pairs"] = sorted({c for c in contents if len(c) == 2})
    # the schema-driven scan of the raw JSON (knows no field name)
    info = _schema().get(data.get("collection_type"))
    if info is not None:
        sc = aoef_schema.scan(info, data)
        if sc["undeclared"]:
            out["unknown_keys"] = sorted(set(out["unknown_keys"]) | set(sc["undeclared"]))
        scan_problems = aoef_schema.dangling(info, sc, _targets(ctx))
        if scan_problems and not out["problems"]:
            out["problems"] = ["schema scan: " + p for p in scan_problems[:3]]
        if rep is not None:
            tie = _scan_vs_model(sc, rep)
            if tie:
                out["tie"] = tie
        if inp.get("label") == "tree":
            _tally_only_through(ctx, sc)
    if loaded is not None:
        out["loaded"] = loaded
    return out


def _model_many_safe(ctx, op, args_list):
    """`model_many`, but a request the driver rejects (the written document no longer parses into the model's
    layout) yields None for that request instead of ending the check: the driver is restarted (replies of a
    half-read batch must not be mistaken for later ones) and the requests are retried one by one."""
    from ..leanio import Driver, InfraError
    try:
        return ctx.model_many(op, args_list)
    except InfraError as e:
        if "protocol error" not in str(e):
            raise
    out = []
    for a in args_list:
        try:
            ctx.driver.close()
        except Exception:  # noqa: BLE001
            pass
        ctx.driver = Driver()
        try:
            out.append(ctx.model(op, a))
        except InfraError as e:
            if "protocol error" not in str(e):
                raise
            out.append(None)
    try:
        ctx.driver.close()
    except Exception:  # noqa: BLE001
        pass
    ctx.driver = Driver()
    return out


def _prepare(ctx, cases, load=True, sessions=None):
    """observe every case (in order: the saves of a history happen one after the other), then ask the model about all
    documents in two batched requests; `_impl_closure` picks the prepared outputs up"""
    recs = [_observe(inp, load, None if sessions is None else sessions[i]) for i, inp in enumerate(cases)]
    for ses in {id(x): x for x in (sessions or []) if x}.values():
        if ses.get("path"):
            aoef_impl.cleanup(ses["path"])
    with_doc = [r for r in recs if "doc" in r]
    reps = dict(zip(map(id, with_doc), _model_many_safe(ctx, "closure", [{"doc": r["doc"]} for r in with_doc])))
    for r in with_doc:
        if reps[id(r)] is None:
            r["unconvertible"] = "the model's Doc layout rejects the converted document"
    with_val = [r for r in recs if "val" in r.get("loaded", {})]
    reach = dict(zip(map(id, with_val),
                     _model_many_safe(ctx, "reach", [{"collection": r["loaded"]["val"]} for r in with_val])))
    for r in with_val:
        if reach[id(r)] is None:       # what the loader returned does not dump to the model's layout
            reach[id(r)] = {"raise": "undumpable"}
    outs = []
    for r in recs:
        ld = r.get("loaded")
        loaded = None if ld is None else (reach[id(r)] if "val" in ld else ld)
        out = _judge(ctx, r, reps.get(id(r)), loaded)
        _PRE[id(r["inp"])] = (r["inp"], out)
        outs.append(out)
    return outs


def _scan_vs_model(sc, rep):
    """the Lean accessors (on the converted document) and the scan of the raw JSON must see the same identifiers"""
    for name in sorted(set(sc["rows"]) | set(rep["rows"])):
        a, b = sorted(sc["rows"].get(name, [])), sorted(rep["rows"].get(name, []))
        if a != b:
            return f"reference row {name}: the raw document holds {a[:3]} ({len(a)}), the model's accessor finds {b[:3]} ({len(b)})"
    for name in sorted(set(sc["defs"]) | set(rep["ids"])):
        a, b = sorted(sc["defs"].get(name, [])), sorted(rep["ids"].get(name, []))
        if a != b:
            return f"definition list {name}: the raw document defines {a[:3]} ({len(a)}), the model's `defs` finds {b[:3]} ({len(b)})"
    return None


def _tally_only_through(ctx, sc):
    """which reference rows were, in a tree-shaped document, the only mention of an identifier"""
    count = {}
    for name, vals in sc["rows"].items():
        for v in vals:
            count[v] = count.get(v, 0) + 1
    for name, vals in sc["rows"].items():
        if any(count[v] == 1 for v in vals):
            ctx.tally("only-path:" + name)


def _prepared(inp, load=True):
    hit = _PRE.pop(id(inp), None)
    if hit is not None and hit[0] is inp:
        return hit[1]
    return _prepare(_ctx(), [inp], load)[0]


def _impl_closure(inp):
    """the reference structure of the document the real code writes, analysed by the Lean-side predicates"""
    return _prepared(inp)


def _holds_closure(ctx, inp, out):
    if "raise" in out:
        return f"save raised {out['raise']} on a collection inside the quantifier"
    if out["problems"]:
        return "the written document is not self-contained: " + "; ".join(out["problems"][:3])
    if out.get("tie") and _TIE_REPORTED[0] < 3:
        # not a verdict about the property: the conversion / the model's accessors no longer describe the document
        _TIE_REPORTED[0] += 1
        ctx.fail("correspondence", "doc_scan", inp=inp, impl=out.get("tie"), detail=out["tie"])
    if out.get("unknown_keys") and _TIE_REPORTED[0] < 3:
        _TIE_REPORTED[0] += 1
        ctx.fail("correspondence", "doc_keys", inp=inp, detail=f"the document has keys the model does not know: {out['unknown_keys']}")
    if (out.get("loaded") or {}).get("raise") == "undumpable" and _TIE_REPORTED[0] < 3:
        _TIE_REPORTED[0] += 1
        ctx.fail("correspondence", "loaded_dump", inp=inp, detail="the collection the loader returned does not dump to the model's layout")
    if out.get("unconvertible") and _TIE_REPORTED[0] < 3:
        _TIE_REPORTED[0] += 1
        ctx.fail("correspondence", "doc_to_model", inp=inp, detail="the written document no longer converts to the "
                 "model's layout: " + out["unconvertible"])
    return None


def _cmp_closure(inp, io, mo):
    """defined identifiers == reachable identifiers, per kind (nothing missing, nothing unreachable written);
    the loader reaches the same identifiers in its single pass"""
    if "raise" in io:
        return None
    mo = dict(mo)
    want_pairs = mo.pop("tag_pairs", None)          # reachable tag contents as (label, value) tuples
    want_pairs = None if want_pairs is None else {tuple(p) for p in want_pairs}
    if "unconvertible" not in io:
        if want_pairs is not None and "tag_pairs" in io:
            # C02_tag_pairs_exact: the pair itself, never a text joined from it
            got = {tuple(p) for p in io["tag_pairs"]}
            if got != want_pairs:
                return (f"tag: the (label, value) pairs defined differ from the distinct tags reachable (reachable but "
                        f"not defined: {sorted(want_pairs - got)[:2]}; defined but not reachable: {sorted(got - want_pairs)[:2]})")
        for k, reach in mo.items():
            got = set(io["defs"].get(k, []))
            want = set(reach)
            if got != want:
                missing = sorted(want - got)[:2]
                extra = sorted(got - want)[:2]
                return (f"{k}: defined identifiers differ from the reachable objects "
                        f"(reachable but not defined: {missing}; defined but not reachable: {extra})")
    ld = io.get("loaded")
    if ld is not None and ld.get("raise") != "undumpable":
        if "raise" in ld:
            return f"the library's loader cannot resolve the document it wrote (load raised {ld['raise']})"
        ld = dict(ld)
        ld_pairs = ld.pop("tag_pairs", None)
        if want_pairs is not None and ld_pairs is not None and {tuple(p) for p in ld_pairs} != want_pairs:
            back = {tuple(p) for p in ld_pairs}
            return (f"tag: the collection loaded back does not hold the tags that were saved (saved, not loaded: "
                    f"{sorted(want_pairs - back)[:2]}; loaded, not saved: {sorted(back - want_pairs)[:2]})")
        for k, reach in mo.items():
            if set(ld.get(k, [])) != set(reach):
                lost = sorted(set(reach) - set(ld.get(k, [])))[:2]
                new = sorted(set(ld.get(k, [])) - set(reach))[:2]
                return (f"{k}: the single-pass loader does not resolve every reference of the written document "
                        f"(reachable before, not after loading: {lost}; new: {new})")
    return None


# ------------------------------------------------------------------ inputs outside the coherence hypothesis
def _holds_nonwf(ctx, inp, out):
    """two objects with one uuid and different content: the model's theorems do not cover the code's choice of which
    one is written, but the document must still be closed, and a sequence's parent must still precede it"""
    if "raise" in out:
        return None
    bad = [p for p in out["problems"] if not p.startswith("duplicate identifiers")]
    if bad:
        return "the written document is not self-contained: " + "; ".join(bad[:3])
    return None


def _impl_nonwf(inp):
    return _prepared(inp, load=False)


# ------------------------------------------------------------------ the adapter protocol, operation sequences
def _ops_of(inp):
    """the operation sequence as far as the adapter offers the operations: `get_id` is not something a save needs
    from outside, so when the method is gone (renamed, made private) those steps are left out on both sides"""
    try:
        from soundevent.io.aoef.adapters import DataAdapter
        have = hasattr(DataAdapter, "get_id")
    except Exception:  # noqa: BLE001
        have = True
    return inp["ops"] if have else [op for op in inp["ops"] if op[0] != "get_id"]


def _impl_adapter_ops(inp):
    """drive a fresh real UserAdapter / TagAdapter through the operation sequence"""
    import uuid as _uuid
    from soundevent import data
    from soundevent.io.aoef.tag import TagAdapter, TagObject
    from soundevent.io.aoef.user import UserAdapter, UserObject
    b = aoef.Builder()
    user = inp["kind"] == "user"
    ad = UserAdapter() if user else TagAdapter()

    def se(j):       # a *fresh* object each time: sharing must come from the adapter's tables, not from identity
        if user:
            return data.User(uuid=_uuid.UUID(j["uuid"]), username=j.get("username"), email=j.get("email"),
                             name=j.get("name"), institution=j.get("institution"))
        return b.tag(j)

    def ao(j):
        return UserObject(**j) if user else TagObject(**j)

    def d_se(x):
        return None if x is None else (aoef.d_user(x) if user else aoef.d_tag(x))

    def d_ao(o):
        if o is None:
            return None
        if user:
            return {"uuid": str(o.uuid), "username": o.username, "email": o.email, "name": o.name,
                    "institution": o.institution}
        return {"id": o.id, "key": o.key, "value": o.value}
    out = []
    for op in _ops_of(inp):
        if op[0] == "to_aoef":
            out.append(d_ao(ad.to_aoef(se(op[1]))))
        elif op[0] == "to_se":
            out.append(d_se(ad.to_soundevent(ao(op[1]))))
        elif op[0] == "from_id":
            out.append(d_se(ad.from_id(_uuid.UUID(op[1]) if user else op[1])))
        elif op[0] == "values":
            v = ad.values()
            out.append(None if v is None else [d_ao(o) for o in v])
        elif op[0] == "get_id":
            i = ad.get_id(se(op[1]))
            out.append(str(i) if user else i)
    return out


def _renumber(ops, outs):
    """the outputs of a save-mode tag sequence with the ids renamed in order of first appearance (the property does
    not pin the numbering)"""
    ren = {}

    def r(i):
        return ren.setdefault(i, len(ren))
    res = []
    for op, o in zip(ops, outs):
        if op[0] == "to_aoef" and isinstance(o, dict):
            res.append(dict(o, id=r(o["id"])))
        elif op[0] == "get_id" and isinstance(o, int):
            res.append(r(o))
        elif op[0] == "values" and isinstance(o, list):
            res.append(sorted((dict(x, id=r(x["id"])) for x in o), key=lambda x: x["id"]))
        else:
            res.append(o)
    return res


def _cmp_adapter_ops(inp, io, mo):
    if not isinstance(io, list) or not isinstance(mo, list):
        return None          # the adapter could not be driven: reported by `_holds_adapter_ops` as a broken tie
    ops = _ops_of(inp)
    if inp["kind"] == "tag" and inp.get("mode") == "save":
        io, mo = _renumber(ops, io), _renumber(ops, mo)
    return None if io == mo else "implementation and model disagree"


def _holds_adapter_ops(ctx, inp, out):
    """what the property needs of an adapter in a save: after any sequence of conversions `values()` defines every
    identifier that `to_aoef` handed out, once, and one identifier per object (tags: per content)"""
    if isinstance(out, dict) and "raise" in out:
        if _TIE_REPORTED[1] < 2:
            _TIE_REPORTED[1] += 1
            ctx.fail("correspondence", "adapter_protocol", inp=inp, impl=out,
                     detail=f"the adapter classes can no longer be driven through the operation sequence ({out['raise']})")
        return None
    if inp.get("mode") != "save" or not isinstance(out, list) or not out:
        return None
    final = out[-1] or []
    key = "uuid" if inp["kind"] == "user" else "id"
    ids = [o[key] for o in final]
    if len(ids) != len(set(ids)):
        return "values() lists an identifier twice"
    given = {}
    for op, o in zip(_ops_of(inp), out):
        if op[0] == "to_aoef" and isinstance(o, dict):
            content = op[1]["uuid"] if inp["kind"] == "user" else (op[1]["key"], op[1]["value"])
            if o[key] not in ids:
                return f"to_aoef handed out the identifier {o[key]!r}, which values() does not define"
            if given.setdefault(content, o[key]) != o[key]:
                return f"one object got two identifiers ({given[content]!r}, {o[key]!r})"
    if len(set(given.values())) != len(given):
        return "two different objects share one identifier"
    if len(final) != len(given):
        return f"values() defines {len(final)} objects after {len(given)} distinct objects were converted"
    return None


def _gen_adapter_ops(rng, n):
    """(enforced cases, informational cases).  Enforced: users in every mode (their identifiers are their uuids);
    tags in save mode (to_aoef / values / get_id of an already converted tag; compared modulo renumbering) and in
    load mode (to_soundevent / from_id / values: no id is allocated).  Informational: tag sequences that mix saving
    and loading or ask get_id for a tag that was never converted — no save does that, and the outcome depends on how
    ids are numbered, which the property leaves open."""
    cases, info = [], []
    for _ in range(n):
        kind = rng.choice(["user", "tag"])
        g = aoefgen.Gen(rng, size=0.5)
        if kind == "user":
            pool = [g.user() for _ in range(rng.randint(1, 4))]
            # the same uuid with other content: the tables must keep the first one
            pool += [dict(g.user(), uuid=rng.choice(pool)["uuid"]) for _ in range(rng.randint(0, 2))]
            ids = [u["uuid"] for u in pool] + [g.uid()]
            mk_ao = lambda u: dict(u)
        else:
            pool = [{"key": rng.choice(["k", "species", ""]), "value": rng.choice(["a", "b", ""])}
                    for _ in range(rng.randint(1, 5))]
            ids = list(range(0, 6))
            mk_ao = lambda t: {"id": rng.choice(ids), "key": t["key"], "value": t["value"]}
        ops = []
        mode = rng.choice(["save", "save", "load", "mixed"])
        strict = True
        converted = []
        for _ in range(rng.randint(1, 14)):
            r = rng.random()
            if r < 0.15:
                ops.append(["values"])
            elif r < 0.3 and not (kind == "tag" and mode == "save"):
                ops.append(["from_id", rng.choice(ids)])
            elif mode == "save" or (mode == "mixed" and r < 0.65):
                what = rng.choice(["to_aoef", "to_aoef", "get_id"])
                x = copy.deepcopy(rng.choice(pool))
                if kind == "tag" and what == "get_id" and x not in converted:
                    if mode == "save" and rng.random() < 0.8:
                        what = "to_aoef"
                    else:
                        strict = False
                if what == "to_aoef":
                    converted.append(x)
                ops.append([what, x])
            else:
                ops.append(["to_se", mk_ao(rng.choice(pool))])
        ops.append(["values"])
        if kind == "tag" and mode == "mixed":
            strict = False
        if kind == "tag" and mode == "save" and not strict:
            mode = "mixed"
        (cases if strict else info).append({"kind": kind, "mode": mode, "ops": ops})
    return cases, info


# ------------------------------------------------------------------ histories
def _prepare_histories(ctx, hs):
    """the steps of each history in one session: one builder (Python objects shared between the steps that say so) and
    one file path"""
    steps, sessions = [], []
    for h in hs:
        ses = {"builder": aoef.Builder()}
        for st in h["steps"]:
            steps.append(st)
            sessions.append(ses)
    _prepare(ctx, steps, True, sessions)


def _impl_closure_history(inp):
    if not all(id(st) in _PRE for st in inp["steps"]):
        _prepare_histories(_ctx(), [inp])
    return [_impl_closure(st) for st in inp["steps"]]


def _holds_closure_history(ctx, inp, out):
    for i, (st, o) in enumerate(zip(inp["steps"], out)):
        msg = _holds_closure(ctx, st, o)
        if msg:
            return f"step {i + 1} of {len(out)} (after earlier saves in the same process): {msg}"
    return None


def _cmp_closure_history(inp, io, mo):
    for i, (st, a, b) in enumerate(zip(inp["steps"], io, mo)):
        msg = _cmp_closure(st, a, b)
        if msg:
            return f"step {i + 1} of {len(io)} (after earlier saves in the same process): {msg}"
    return None


def _history_cases(rng, n):
    """several collections over the *same* pools of objects, saved one after the other in one process **to one file
    path**: other types over the same objects, the same type twice with other members, the first collection again
    (alternating with another one), and the first collection with some kinds of objects re-identified (what the
    annotations, notes, clips refer to differs between two saves).  Steps whose objects have the content seen before
    *share the Python objects* of the earlier steps (`share`); a step can be an instance of a user-defined subclass or
    come from `model_copy` / `model_validate` (`how`)."""
    out = []
    for _ in range(n):
        g = aoefgen.Gen(rng, base="/data/audio")
        tys = rng.sample(aoefgen.TYPES, 3) + [rng.choice(aoefgen.TYPES)]
        d = lambda: rng.choice([None, "/data/audio"])
        steps = [{"collection": g.collection(ty), "audio_dir": d()} for ty in tys]
        first = steps[0]
        steps.append({"collection": g.collection(tys[0]), "audio_dir": first["audio_dir"]})    # same type, other members
        steps.append(copy.deepcopy(first))                                                      # the very same again
        kinds = rng.sample(["user", "tag", "recording", "clip", "sound_event", "sequence"], rng.randint(1, 3))
        steps.append({"collection": c02gen.reidentify(first["collection"], kinds), "audio_dir": first["audio_dir"]})
        steps.append(copy.deepcopy(steps[1]))
        steps.append(copy.deepcopy(first))
        seen = {}
        for st in steps:
            st["share"] = c02gen.coherent_with(seen, st["collection"])
            st["how"] = rng.choice(["plain", "plain", "plain", "copy_shallow", "copy_deep", "subclass", "validate"])
            st["poison"] = rng.random() < 0.3
            st["dir_as"] = rng.choice(["str", "path"])
        # last: an object every earlier step shared is modified in place, and the first collection saved again
        mut = c02gen.pick_mutation(rng, first["collection"])
        if mut is not None:
            steps.append({"collection": c02gen.mutate_json(first["collection"], mut), "audio_dir": first["audio_dir"],
                          "share": True, "how": "plain", "mutate": mut})
        out.append({"steps": steps})
    return out


OPS = {
    "closure_history": Op("closure_history", _impl_closure_history, model_op="reach_history",
                          to_model=lambda i: {"steps": [{"collection": s["collection"]} for s in i["steps"]]},
                          holds=_holds_closure_history, compare=_cmp_closure_history,
                          nontrivial=lambda i, o: all("defs" in x for x in o)),
    "adapter_ops": Op("adapter_ops", _impl_adapter_ops, holds=_holds_adapter_ops, compare=_cmp_adapter_ops,
                      to_model=lambda i: {"kind": i["kind"], "ops": _ops_of(i)},
                      nontrivial=lambda i, o: isinstance(o, list) and len(o) > 2),
    "closure": Op("closure", _impl_closure, to_model=lambda i: {"collection": i["collection"]}, model_op="reach",
                  holds=_holds_closure, compare=_cmp_closure,
                  nontrivial=lambda i, o: "defs" in o and any(o["defs"].values())),
    "closure_nonwf": Op("closure_nonwf", _impl_nonwf, to_model=lambda i: {"collection": i["collection"]},
                        model_op="reach", holds=_holds_nonwf, compare=lambda i, a, b: None,
                        nontrivial=lambda i, o: "defs" in o and any(o["defs"].values())),
}


# ------------------------------------------------------------------ tie 1: the reference table and the schemas
def _lean_list(xs):
    return "[" + ", ".join(json.dumps(x, ensure_ascii=False) for x in xs) + "]"


def _in_order(xs, order):
    """`xs` permuted into the order of `order` (what `order` does not know comes last, sorted): the obligation
    compares lists, the permutation only spares Lean a sort"""
    pos = {x: i for i, x in enumerate(order)}
    return sorted(xs, key=lambda x: (pos.get(x, len(pos)), x))


def _tables(ctx):
    try:
        info = aoef_schema.extract()
    except Exception as e:  # noqa: BLE001
        ctx.fail("obligation", "schema_extraction", detail=f"the collection schemas could not be read off the package: {e!r}")
        ctx.pre_failed.append("schema_extraction")
        return
    _SCHEMA[0] = info
    tab = _ref_table(ctx)
    rows = set()
    idty = {}
    for i in info.values():
        rows |= i["rows"]
        for name, (t, _c) in i["deflists"].items():
            idty.setdefault(name, set()).add(t)
    names = _in_order([f"{o}/{p}/{t}" for o, p, t in rows], [f"{r['owner']}/{r['path']}/{r['idty']}" for r in tab["rows"]])
    ctx.obligation("reference_rows",
                   f"example : SE.Aoef.refRows.map (·.name) = {_lean_list(names)} := by decide +kernel\n"
                   "example : SE.Aoef.rowsWellTyped = true := by decide\n",
                   {"rows": names})
    kind_order = [k["name"] for k in tab["kinds"]]
    kinds = [f"{n}/{'|'.join(sorted(idty[n]))}" for n in _in_order(list(idty), kind_order)]
    ctx.obligation("definition_lists",
                   "example : (SE.Aoef.Kind.all.map fun k => k.name ++ \"/\" ++ k.idty) = "
                   f"{_lean_list(kinds)} := by decide +kernel\n", {"lists": kinds})
    types = sorted(info)
    ctx.obligation("collection_types",
                   f"example : ({_lean_list(types)}.all fun t => (SE.Aoef.Doc.keys t).length > 0) = true := by decide +kernel\n"
                   f"example : {_lean_list(types)}.length = 8 := by decide\n", {"types": types})
    for ty, i in info.items():
        keys = _in_order(i["keys"], tab["keys"].get(ty, []))
        k = _lean_list(keys)
        src = (f"example : SE.Aoef.Doc.keys {json.dumps(ty)} = {k} := by decide +kernel\n"
               f"example : SE.Aoef.defListsOf {k} = {_lean_list(_in_order(list(i['deflists']), kind_order))} := by decide +kernel\n"
               f"example : ∀ d : SE.Aoef.Doc, d.within {k} → ∀ r ∈ SE.Aoef.refRows, r.get d ≠ [] →\n"
               f"    r.owner ∈ {k} ∧ r.kind.name ∈ {k} :=\n"
               f"  fun d hd => SE.Proofs.C02.C02_schema_closed _ (by decide +kernel) d hd\n")
        ctx.obligation(f"schema_{ty}", src, {"keys": i["keys"], "definition_lists": sorted(i["deflists"]),
                                             "rows": sorted(f"{o}/{p}" for o, p, _t in i["rows"])})
    ctx.tally("reference rows extracted", len(rows))


# ------------------------------------------------------------------ generators
def _only_through(rng):
    """minimal collections in which an object is reachable through exactly one path (the cases the property lists)"""
    out = []
    for _ in range(2):
        g = aoefgen.Gen(rng, rich=True, size=0.6)
        fresh_user = lambda: g.user()
        stamp = g.stamp
        # user only as note author / as badge owner / as recording owner / as annotation creator
        ca = g.ca()
        ca["notes"] = [{"uuid": g.uid(), "message": "m", "created_by": fresh_user(), "is_issue": False, "created_on": stamp()}]
        out.append({"type": "annotation_set", "value": {"uuid": g.uid(), "created_on": stamp(), "clip_annotations": [ca]}})
        t = g.task(ca["clip"])
        t["status_badges"] = [{"state": "assigned", "owner": fresh_user(), "created_on": stamp()}]
        extra_clip_task = g.task(g.clip())            # a clip (and its recording) reachable only through a task
        out.append({"type": "annotation_project", "value": {
            "uuid": g.uid(), "created_on": stamp(), "clip_annotations": [copy.deepcopy(ca)], "name": "p", "description": None,
            "instructions": None, "annotation_tags": [{"key": "only-project", "value": "tag"}], "tasks": [t, extra_clip_task]}})
        rec = g.recording()
        rec["owners"] = [fresh_user()]
        rec["tags"] = [{"key": "only-recording", "value": "t"}]
        out.append({"type": "dataset", "value": {"uuid": g.uid(), "created_on": stamp(), "recordings": [rec], "name": "d",
                                                 "description": ""}})
        out.append({"type": "evaluation_set", "value": {
            "uuid": g.uid(), "created_on": stamp(), "clip_annotations": [], "name": "e", "description": None,
            "evaluation_tags": [{"key": "only-evaluation", "value": "tag"}]}})
        # tags only in predictions; sequences nested under parents; sound events on another recording than the clip's
        cp = g.cp()
        cp["tags"] = [{"tag": {"key": "only-clip-prediction", "value": "x"}, "score": "0.0"}]
        sep = g.sep()
        sep["tags"] = [{"tag": {"key": "only-se-prediction", "value": "x"}, "score": "1.0"}]
        other = g.recording()
        sep["sound_event"] = dict(g.sound_event(), recording=other)
        sqp = g.sqp()
        sqp["tags"] = [{"tag": {"key": "only-seq-prediction", "value": "x"}, "score": "0.5"}]
        child = g.sequence()
        child["parent"] = g.sequence()
        sqp["sequence"] = child
        cp["sound_events"] = [sep]
        cp["sequences"] = [sqp]
        for ty in ("prediction_set", "model_run"):
            v = {"uuid": g.uid(), "created_on": stamp(), "clip_predictions": [copy.deepcopy(cp)]}
            if ty == "model_run":
                v.update(name="m", version=None, description=None)
            out.append({"type": ty, "value": v})
        ce = g.ce()
        out.append({"type": "evaluation", "value": {"uuid": g.uid(), "created_on": stamp(), "evaluation_task": "t",
                                                    "clip_evaluations": [ce], "metrics": [], "score": None}})
    return out


def _wf_split(ctx, cases):
    """(inside the coherence hypothesis, outside)"""
    oks = ctx.driver.call_many("C01", "wf", [{"collection": c["collection"]} for c in cases])
    inside, outside = [], []
    for c, ok in zip(cases, oks):
        (inside if ok else outside).append(c)
    return inside, outside


def _wf_filter(ctx, cases):
    inside, outside = _wf_split(ctx, cases)
    if outside:
        ctx.tally("generator:not-WF", len(outside))
    return inside


def _gen_cases(ctx, rng, n_per_type, size=1.0):
    cases = []
    for ty in aoefgen.TYPES:
        for _ in range(n_per_type):
            base = rng.choice(["/data/audio", "/", None])
            cj = aoefgen.gen_collection(rng, ty, rich=rng.random() < 0.2, base=base, size=size)
            if ty == "evaluation" and rng.random() < 0.5:
                # two or three clip evaluations that share a ClipAnnotation / ClipPrediction object (the pool
                # generator makes a fresh pair for every clip evaluation)
                for _ in range(rng.randint(1, 2)):
                    cj = c02gen.share_in_evaluation(rng, cj) or cj
                ctx.tally("evaluation: clip evaluations sharing annotations / predictions")
            if rng.random() < 0.25:
                # distinct tags whose joined texts coincide (a tag is the pair, not a text built from it)
                fam = rng.choice(c02gen.colliding_tag_families())[1]
                hit = c02gen.collide_tags(rng, cj, rng.sample(fam, len(fam)), "random")
                if hit is not None:
                    cj = hit
                    ctx.tally("pool collections with distinct tags of one joined text")
            how = rng.choice(c02gen.HOWS) if rng.random() < 0.5 else "plain"
            cases.append({"collection": cj, "audio_dir": base if (base and rng.random() < 0.5) else None, "how": how,
                          "dir_as": rng.choice(["str", "path"])})
            ctx.tally("type:" + ty)
            ctx.tally("constructed:" + how)
    return _wf_filter(ctx, cases)


def _directed(ctx, rng):
    """the deterministic directed inputs: trees, present/absent child lists, parent chains"""
    tree = _wf_filter(ctx, c02gen.tree_cases(rng))
    ctx.tally("tree-shaped collections (every reference the only path)", len(tree))
    pres = _wf_filter(ctx, c02gen.presence_cases(rng))
    ctx.tally("present/absent child lists (exhaustive)", len(pres))
    seqs = _wf_filter(ctx, c02gen.sequence_cases(rng))
    ctx.tally("parent chains (depth 0..5, shared parents, both orders)", len(seqs))
    made = c02gen.sharing_cases(rng)
    shr = _wf_filter(ctx, made)
    ctx.tally("one object referenced from several places (every level, every collection type)", len(shr))
    if len(shr) < len(made):
        ctx.note(f"sharing cases outside the coherence hypothesis (not run): {len(made) - len(shr)}")
    for c in shr:
        ctx.tally("shared:" + c["shared"])
    # as built (one Python object per shared object, tags and notes included) and through another construction path
    shr = shr + [dict(c, how=rng.choice(c02gen.HOWS[1:])) for c in shr[::2]]
    other = [dict(c, how=rng.choice(c02gen.HOWS)) for c in pres + seqs]
    # distinct tags whose `label + separator + value` texts coincide, as built and through another construction path
    col = _wf_filter(ctx, c02gen.colliding_tag_cases(rng))
    ctx.tally("distinct tags with one joined text (every separator, shifted positions, every collection type)", len(col))
    col = col + [dict(c, how=rng.choice(c02gen.HOWS[1:])) for c in col[::3]]
    return tree + shr + other + col + [c02gen.large_case(rng)]


def _enough(ctx):
    """concrete violations are already in hand: the verdict is settled, do not spend minutes collecting more (a
    change that makes every document grow — state shared between saves — would otherwise take very long)"""
    if sum(1 for f in ctx.failures if f.kind == "property") >= 10:
        if not any(n.startswith("stopped early") for n in ctx.notes):
            ctx.note("stopped early: ten concrete violations found, the remaining generated cases were not run")
        return True
    return False


def _in_fresh_process(steps):
    """the written documents of a sequence of saves in a fresh interpreter (None: the worker could not be run)"""
    import os
    import subprocess
    import sys
    from .. import leanio
    env = dict(os.environ)
    env["SOUNDEVENT_SRC"] = os.environ.get("SOUNDEVENT_SRC", "/repo/src")
    try:
        p = subprocess.run([sys.executable, "-m", "harness.c02_worker"], cwd=leanio.VERIF, env=env, text=True,
                           input=json.dumps({"steps": steps}) + "\n", stdout=subprocess.PIPE, stderr=subprocess.DEVNULL,
                           timeout=120)
        return json.loads(p.stdout.strip().splitlines()[-1])
    except Exception:  # noqa: BLE001
        return None


def _isolate(ctx):
    """a single save that fails *in this process* may fail only because of what earlier saves left behind.  The
    smallest failure of each kind of message (they are the ones that become replays) is tried again in a fresh
    interpreter: when the document written there is fine, the replay of that input alone would not reproduce — the
    failures of that kind are kept (they are violations: the property quantifies over histories) but say so and are
    listed after the failures that reproduce from their own input (the histories are self-contained)."""
    groups = {}
    for f in ctx.failures:
        if f.kind == "property" and f.op == "closure":
            groups.setdefault(f.detail[:60], []).append(f)
    for sig, fs in sorted(groups.items(), key=lambda kv: min(f.size() for f in kv[1]))[:6]:
        f = min(fs, key=lambda f: f.size())
        docs = _in_fresh_process([f.inp])
        if not docs or not isinstance(docs[0], dict) or "raise" in docs[0]:
            continue
        rec = {"inp": f.inp, "data": docs[0]}
        try:
            rec["doc"] = aoef.doc_to_model(docs[0])
            rep = _model_many_safe(ctx, "closure", [{"doc": rec["doc"]}])[0]
            out = _judge(ctx, rec, rep, None)
            mo = ctx.model("reach", {"collection": f.inp["collection"]})
        except Exception:  # noqa: BLE001
            continue
        if out.get("problems") or _cmp_closure(f.inp, out, mo):
            continue                      # fails in a fresh process too: the input alone is the replay
        for g in fs:
            g.detail += (" [only after earlier saves in the same process: a fresh process writes a correct document "
                         "for this input; the closure_history replays are self-contained sequences]")
            g.size = lambda: 10 ** 9      # listed after the failures whose own input reproduces them
        ctx.tally("kinds of failure that need the earlier saves of the process")


def _run_closure(ctx, cases, op="closure", load=True, chunk=400):
    """prepare (batched model requests) and judge, chunk by chunk"""
    cases = list(cases)
    for i in range(0, len(cases), chunk):
        if _enough(ctx):
            return
        part = cases[i:i + chunk]
        _prepare(ctx, part, load)
        ctx.run_cases(OPS[op], part)
        _PRE.clear()


def _run_histories(ctx, hc, chunk=10):
    for i in range(0, len(hc), chunk):
        if sum(1 for f in ctx.failures if f.kind == "property" and f.op == "closure_history") >= 5:
            return
        part = hc[i:i + chunk]
        _prepare_histories(ctx, part)
        ctx.run_cases(OPS["closure_history"], part)
        _PRE.clear()


def _correspondence(ctx):
    _CTX[0] = ctx
    ctx.run_corpus(OPS)
    ot = _wf_filter(ctx, [{"collection": c, "audio_dir": None} for c in _only_through(random.Random("C02-only-through"))])
    ctx.tally("only-reachable-through-one-path", len(ot))
    _run_closure(ctx, ot)
    _run_closure(ctx, _directed(ctx, random.Random("C02-directed")))
    ctx.exhaustive["child lists"] = ("clip annotation {sound_events, sequences, tags, notes}, clip prediction {sound_events, "
                                     "sequences, tags}, recording {owners, tags, notes}, sound event / sequence annotation "
                                     "{notes, tags, created_by}: every present/absent combination, every child fresh, in "
                                     "every collection type that holds the object")
    ctx.exhaustive["sharing sites"] = ("clip annotation / clip prediction / both / both and the matches shared by 2-3 clip "
                                       "evaluations; sound event / sequence annotation (prediction) shared by 2-3 clip "
                                       "annotations (predictions) on one clip and on several; a sound event / a sequence under "
                                       "annotations, predictions, sequences, as a parent; 2 and 3 users / tags / notes / "
                                       "recordings / clips / sound events / sequences of a tree made one object — in every "
                                       "collection type that can hold the object")
    ctx.exhaustive["parent chains"] = "depth 0..5 x ancestors with/without sound events x annotation/prediction; two children of one parent and parent/child in both conversion orders"
    rows = [k for k in ctx.tallies if k.startswith("only-path:")]
    ctx.note(f"reference rows that were the only path to an identifier in some tree-shaped document: {len(rows)}")
    cases = _gen_cases(ctx, ctx.rng, ctx.budget(120, 3000))
    _run_closure(ctx, cases)
    _run_closure(ctx, _gen_cases(ctx, ctx.rng, ctx.budget(6, 30), size=2.5))
    # identifiers shared *across* kinds (a clip with the uuid of its recording, an annotation and a prediction with the
    # uuid of their sound event): the lists of a document are per kind
    cross = [dict(c, collection=x) for c in cases[::3] for x in [c02gen.cross_kind_uuids(c["collection"])] if x]
    cross = _wf_filter(ctx, cross)
    _run_closure(ctx, cross)
    ctx.tally("identifiers shared across kinds", len(cross))
    # one uuid, two contents (outside the coherence hypothesis): closure and parent order are monitored only
    split = [dict(c, collection=s) for c in cases[::3] for s in [c02gen.split_identity(ctx.rng, c["collection"])] if s]
    _in, outside = _wf_split(ctx, split)
    _run_closure(ctx, outside, op="closure_nonwf", load=False)
    ctx.tally("one uuid, two contents (monitored only)", len(outside))
    # the operational model (OpSave.lean: adapters as mutable tables, conversions in the code's call order) against
    # the real document *including* the order of the lists and the tag numbering.  Informational: the property does
    # not pin the order, so a disagreement is recorded, not reported (C02_opSave_refines proves opSave = save, and
    # `save` is what the enforced, order-insensitive comparison ties to the code).
    sample = _gen_cases(ctx, ctx.rng, ctx.budget(6, 40))
    agree = 0
    outs = ctx.model_many("op_save", [{"collection": c["collection"], "audio_dir": c["audio_dir"]} for c in sample])
    for c, mo in zip(sample, outs):
        try:
            _obj, path = aoef_impl.save_real(c["collection"], c["audio_dir"])
            doc, _unk = aoef_impl.read_doc(path)
            aoef_impl.cleanup(path)
            real = aoef._strip_empty(doc)
            agree += int("val" in mo and aoef._strip_empty(mo["val"]) == real)
        except Exception:  # noqa: BLE001
            agree += int("raise" in mo)
    ctx.note(f"operational save model agrees with the real documents including list order and tag ids on {agree}/{len(sample)} collections")
    ctx.tally("op_save exact-order agreement", agree)
    ctx.tally("op_save exact-order cases", len(sample))
    # one collection obtained in several ways (constructors, user-defined subclasses, model_validate, model_copy,
    # tuples) and saved each time: the same identifiers again and again in one process
    trees = [c for c in _wf_filter(ctx, c02gen.tree_cases(random.Random("C02-construct"))) if c["audio_dir"] is None]
    vh = [{"steps": [dict(copy.deepcopy(c), how=how, share=False, label=None) for how in hows]}
          for c in trees + ot for hows in (("plain", "subclass", "validate", "tuples"), ("subclass", "copy_deep", "validate_json", "copy_shallow"))]
    _run_histories(ctx, vh)
    ctx.tally("construction-variant histories (4 saves of one collection each)", len(vh))
    # histories: collections of several types over the same pools of objects, saved in one process
    hc = _history_cases(ctx.rng, ctx.budget(40, 300))
    oks = ctx.driver.call_many("C01", "wf", [{"collection": s["collection"]} for h in hc for s in h["steps"]])
    it = iter(oks)
    hc = [h for h in hc if all([next(it) for _ in h["steps"]])]
    _run_histories(ctx, hc)
    ctx.tally("closure-history cases (9-10 saves each, one process, one file, shared Python objects, one modified in place)", len(hc))
    # adapters.py as a state machine: random operation sequences on the real UserAdapter / TagAdapter
    enforced, info = _gen_adapter_ops(ctx.rng, ctx.budget(600, 20000))
    ctx.run_cases(OPS["adapter_ops"], enforced)
    agree = 0
    mouts = ctx.model_many("adapter_ops", [{"kind": c["kind"], "ops": _ops_of(c)} for c in info])
    for c, mo in zip(info, mouts):
        try:
            agree += int(_impl_adapter_ops(c) == mo)
        except Exception:  # noqa: BLE001
            pass
    ctx.note(f"tag adapter sequences that mix saving and loading or ask get_id for an unconverted tag (no save does; the "
             f"outcome depends on the id numbering, which is not pinned): exact agreement with the operational model on {agree}/{len(info)}")
    ctx.tally("adapter_ops informational agreement", agree)
    ctx.tally("adapter_ops informational cases", len(info))
    _isolate(ctx)


def run(ctx):
    _SCHEMA[0] = None
    _TARGETS[0] = None
    _TIE_REPORTED[0] = 0
    _TIE_REPORTED[1] = 0
    ctx.stage("tables", _tables, ctx)
    ctx.stage("discharge", ctx.discharge, ["SoundeventModel.Aoef.RefTable", "Proofs.C02"])
    ctx.stage("correspondence", _correspondence, ctx)


def search(ctx, failures):
    """an obligation or a tie broke: look for a collection whose written document is not self-contained (the
    schema-driven scan resolves references the model does not know against every definition list)"""
    _CTX[0] = ctx
    rng = random.Random("C02-search")
    _run_closure(ctx, _directed(ctx, random.Random("C02-search-directed")))
    _run_closure(ctx, _gen_cases(ctx, rng, 40))
    hc = _history_cases(rng, 10)
    _run_histories(ctx, [h for h in hc if not _wf_split(ctx, h["steps"])[1]])
