"""C02 — AOEF documents are self-contained and resolvable in a single pass."""
import copy
import random

from ..core import Op, canon_exc
from .. import aoef, aoefgen, aoef_impl

PROPERTY = "C02"
LEAN_MODULE = "Proofs.C02Refine"      # imports Proofs.C02 and Proofs.C02Adapter
_T = "SE.Proofs.C02."
_THEOREM_NAMES = ["C02_trav_iff_reachable", "C02_exact", "C02_exact_reachable", "C02_parent_first", "C02_tag_ids_dense",
                  "C02_tag_ids_by_content", "C02_unique", "C02_closed_any", "C02_closed",
                  "C02_user_adapter_values", "C02_tag_adapter_values", "C02_tag_adapter_id",
                  "C02_adapter_load_is_addAll", "C02_tag_ids_dense_operational",
                  "C02_opSave_refines", "C02_opSave_fails_iff", "C02_opSave_error", "C02_opSave_total",
                  "C02_opSave_tables", "C02_opSave_roundtrip", "C02_opSave_roundtrip_none", "C02_opSave_closed",
                  "C02_opSave_unique", "C02_opSave_parent_first", "C02_opSave_exact", "C02_opSave_tag_ids_dense"]
THEOREMS = [_T + n for n in _THEOREM_NAMES]
LEVEL_TEXT = ("Lean theorems over the AOEF model (shared with C01): the document `save c` writes is closed under "
              "reference, its identifiers are unique per list, a sequence's parent precedes it, tag ids are dense and "
              "allocated per (label, value), and the objects defined are exactly the objects reachable from the "
              "collection (traversal = reflexive-transitive closure of the direct-reference relation `children`). The "
              "executable statement of the property (Lean `closed` / `unique` / `parentFirst` and `defs = reachKeys`) is "
              "evaluated on the document the real code writes for pool-generated object graphs biased to objects "
              "reachable through exactly one path.")
LEVEL_NOTE = ("Trusted: Lean kernel; the harness' conversion of the written JSON into the model's Doc layout. The model "
              "is tied to the code by the C01 FieldsAgree obligations and by comparing, per kind, the identifiers the "
              "real document defines with the identifiers the model's traversal reaches; strength bounded by the "
              "generators (distribution in the evidence).")
TECHNIQUE = ("Lean 4 proof (closure / uniqueness / parent-first / exactness theorems over the AOEF model); the same "
             "predicates evaluated in Lean on the real documents; differential correspondence of defined vs reachable "
             "identifiers per kind")
RULE = ("distinct (collection, audio_dir) inputs for which the real code wrote a document; non-trivial = the document "
        "defines at least one object besides the collection itself")
TRUSTED = ["harness/aoef.py: doc_to_model (written JSON -> Lean Doc layout), build (model JSON -> pydantic objects)"]
ASSUMPTIONS = ["objects with one uuid are one object (the model's WF hypothesis, evaluated by wfB on every input)",
               "the collection's own member list has distinct members (otherwise 'defined exactly once' and 'list order "
               "is preserved' cannot both hold for recording sets, annotation sets and prediction sets)"]
NOT_COMPARED = ["order of the definition lists (only parent-before-child is pinned)", "numbering of tag ids (only "
                "uniqueness and resolution are pinned; density is proved of the model and reported if it differs)"]

_CTX = [None]


def _impl_closure(inp):
    """the reference structure of the document the real code writes, analysed by the Lean-side predicates"""
    try:
        _obj, path = aoef_impl.save_real(inp["collection"], inp.get("audio_dir"))
    except Exception as e:  # noqa: BLE001
        return canon_exc(e)
    try:
        doc, unknown = aoef_impl.read_doc(path)
    finally:
        aoef_impl.cleanup(path)
    rep = _CTX[0].model("closure", {"doc": doc})
    return {"problems": rep["problems"], "defs": {k: sorted(set(v)) for k, v in rep["defs"].items()},
            "dup": {k: len(v) - len(set(v)) for k, v in rep["defs"].items() if len(v) != len(set(v))},
            "unknown_keys": unknown}


def _holds_closure(ctx, inp, out):
    if "raise" in out:
        return f"save raised {out['raise']} on a collection inside the quantifier"
    if out["problems"]:
        return "the written document is not self-contained: " + "; ".join(out["problems"][:3])
    return None


def _cmp_closure(inp, io, mo):
    """defined identifiers == reachable identifiers, per kind (nothing missing, nothing unreachable written)"""
    if "raise" in io:
        return None
    for k, reach in mo.items():
        got = set(io["defs"].get(k, []))
        want = set(reach)
        if got != want:
            missing = sorted(want - got)[:2]
            extra = sorted(got - want)[:2]
            return (f"{k}: defined identifiers differ from the reachable objects "
                    f"(reachable but not defined: {missing}; defined but not reachable: {extra})")
    if io.get("unknown_keys"):
        return f"the document has keys the model does not know: {io['unknown_keys']}"
    return None


# ------------------------------------------------------------------ the adapter protocol, operation sequences
def _impl_adapter_ops(inp):
    """drive a fresh real UserAdapter / TagAdapter through the operation sequence"""
    import uuid as _uuid
    from soundevent import data
    from soundevent.io.aoef.tag import TagAdapter, TagObject
    from soundevent.io.aoef.user import UserAdapter, UserObject
    b = aoef.Builder()
    user = inp["kind"] == "user"
    ad = UserAdapter() if user else TagAdapter()

    def se(j):       # a *fresh* object each time: sharing must come from the adapter's tables, not from identity
        if user:
            return data.User(uuid=_uuid.UUID(j["uuid"]), username=j.get("username"), email=j.get("email"),
                             name=j.get("name"), institution=j.get("institution"))
        return b.tag(j)

    def ao(j):
        return UserObject(**j) if user else TagObject(**j)

    def d_se(x):
        return None if x is None else (aoef.d_user(x) if user else aoef.d_tag(x))

    def d_ao(o):
        if o is None:
            return None
        if user:
            return {"uuid": str(o.uuid), "username": o.username, "email": o.email, "name": o.name,
                    "institution": o.institution}
        return {"id": o.id, "key": o.key, "value": o.value}
    out = []
    for op in inp["ops"]:
        if op[0] == "to_aoef":
            out.append(d_ao(ad.to_aoef(se(op[1]))))
        elif op[0] == "to_se":
            out.append(d_se(ad.to_soundevent(ao(op[1]))))
        elif op[0] == "from_id":
            out.append(d_se(ad.from_id(_uuid.UUID(op[1]) if user else op[1])))
        elif op[0] == "values":
            v = ad.values()
            out.append(None if v is None else [d_ao(o) for o in v])
        elif op[0] == "get_id":
            i = ad.get_id(se(op[1]))
            out.append(str(i) if user else i)
    return out


def _gen_adapter_ops(rng, n):
    cases = []
    for _ in range(n):
        kind = rng.choice(["user", "tag"])
        g = aoefgen.Gen(rng, size=0.5)
        if kind == "user":
            pool = [g.user() for _ in range(rng.randint(1, 4))]
            # the same uuid with other content: the tables must keep the first one
            pool += [dict(g.user(), uuid=rng.choice(pool)["uuid"]) for _ in range(rng.randint(0, 2))]
            ids = [u["uuid"] for u in pool] + [g.uid()]
            mk_ao = lambda u: dict(u)
        else:
            pool = [{"key": rng.choice(["k", "species", ""]), "value": rng.choice(["a", "b", ""])}
                    for _ in range(rng.randint(1, 5))]
            ids = list(range(0, 6))
            mk_ao = lambda t: {"id": rng.choice(ids), "key": t["key"], "value": t["value"]}
        ops = []
        mode = rng.choice(["save", "save", "load", "mixed"])
        for _ in range(rng.randint(1, 14)):
            r = rng.random()
            if r < 0.15:
                ops.append(["values"])
            elif r < 0.3:
                ops.append(["from_id", rng.choice(ids)])
            elif mode == "save" or (mode == "mixed" and r < 0.65):
                ops.append([rng.choice(["to_aoef", "to_aoef", "get_id"]), copy.deepcopy(rng.choice(pool))])
            else:
                ops.append(["to_se", mk_ao(rng.choice(pool))])
        ops.append(["values"])
        cases.append({"kind": kind, "ops": ops})
    return cases


def _impl_closure_history(inp):
    return [_impl_closure(st) for st in inp["steps"]]


def _holds_closure_history(ctx, inp, out):
    for i, (st, o) in enumerate(zip(inp["steps"], out)):
        msg = _holds_closure(ctx, st, o)
        if msg:
            return f"step {i + 1} of {len(out)} (after earlier saves in the same process): {msg}"
    return None


def _cmp_closure_history(inp, io, mo):
    for i, (st, a, b) in enumerate(zip(inp["steps"], io, mo)):
        msg = _cmp_closure(st, a, b)
        if msg:
            return f"step {i + 1} of {len(io)} (after earlier saves in the same process): {msg}"
    return None


def _history_cases(rng, n):
    """several collections over the *same* pools of objects, saved one after the other in one process"""
    out = []
    for _ in range(n):
        g = aoefgen.Gen(rng, base="/data/audio")
        tys = rng.sample(aoefgen.TYPES, 3) + [rng.choice(aoefgen.TYPES)]
        steps = [{"collection": g.collection(ty), "audio_dir": rng.choice([None, "/data/audio"])} for ty in tys]
        steps.append(copy.deepcopy(steps[0]))
        out.append({"steps": steps})
    return out


OPS = {
    "closure_history": Op("closure_history", _impl_closure_history, model_op="reach_history",
                          to_model=lambda i: {"steps": [{"collection": s["collection"]} for s in i["steps"]]},
                          holds=_holds_closure_history, compare=_cmp_closure_history,
                          nontrivial=lambda i, o: all("defs" in x for x in o)),
    "adapter_ops": Op("adapter_ops", _impl_adapter_ops, nontrivial=lambda i, o: isinstance(o, list) and len(o) > 2),
    "closure": Op("closure", _impl_closure, to_model=lambda i: {"collection": i["collection"]}, model_op="reach",
                  holds=_holds_closure, compare=_cmp_closure,
                  nontrivial=lambda i, o: "defs" in o and any(o["defs"].values())),
}


# ------------------------------------------------------------------ generators
def _only_through(rng):
    """minimal collections in which an object is reachable through exactly one path (the cases the property lists)"""
    out = []
    for _ in range(2):
        g = aoefgen.Gen(rng, rich=True, size=0.6)
        fresh_user = lambda: g.user()
        stamp = g.stamp
        # user only as note author / as badge owner / as recording owner / as annotation creator
        ca = g.ca()
        ca["notes"] = [{"uuid": g.uid(), "message": "m", "created_by": fresh_user(), "is_issue": False, "created_on": stamp()}]
        out.append({"type": "annotation_set", "value": {"uuid": g.uid(), "created_on": stamp(), "clip_annotations": [ca]}})
        t = g.task(ca["clip"])
        t["status_badges"] = [{"state": "assigned", "owner": fresh_user(), "created_on": stamp()}]
        extra_clip_task = g.task(g.clip())            # a clip (and its recording) reachable only through a task
        out.append({"type": "annotation_project", "value": {
            "uuid": g.uid(), "created_on": stamp(), "clip_annotations": [copy.deepcopy(ca)], "name": "p", "description": None,
            "instructions": None, "annotation_tags": [{"key": "only-project", "value": "tag"}], "tasks": [t, extra_clip_task]}})
        rec = g.recording()
        rec["owners"] = [fresh_user()]
        rec["tags"] = [{"key": "only-recording", "value": "t"}]
        out.append({"type": "dataset", "value": {"uuid": g.uid(), "created_on": stamp(), "recordings": [rec], "name": "d",
                                                 "description": ""}})
        out.append({"type": "evaluation_set", "value": {
            "uuid": g.uid(), "created_on": stamp(), "clip_annotations": [], "name": "e", "description": None,
            "evaluation_tags": [{"key": "only-evaluation", "value": "tag"}]}})
        # tags only in predictions; sequences nested under parents; sound events on another recording than the clip's
        cp = g.cp()
        cp["tags"] = [{"tag": {"key": "only-clip-prediction", "value": "x"}, "score": "0.0"}]
        sep = g.sep()
        sep["tags"] = [{"tag": {"key": "only-se-prediction", "value": "x"}, "score": "1.0"}]
        other = g.recording()
        sep["sound_event"] = dict(g.sound_event(), recording=other)
        sqp = g.sqp()
        sqp["tags"] = [{"tag": {"key": "only-seq-prediction", "value": "x"}, "score": "0.5"}]
        child = g.sequence()
        child["parent"] = g.sequence()
        sqp["sequence"] = child
        cp["sound_events"] = [sep]
        cp["sequences"] = [sqp]
        for ty in ("prediction_set", "model_run"):
            v = {"uuid": g.uid(), "created_on": stamp(), "clip_predictions": [copy.deepcopy(cp)]}
            if ty == "model_run":
                v.update(name="m", version=None, description=None)
            out.append({"type": ty, "value": v})
        ce = g.ce()
        out.append({"type": "evaluation", "value": {"uuid": g.uid(), "created_on": stamp(), "evaluation_task": "t",
                                                    "clip_evaluations": [ce], "metrics": [], "score": None}})
    return out


def _wf_filter(ctx, cases):
    oks = ctx.driver.call_many("C01", "wf", [{"collection": c["collection"]} for c in cases])
    out = []
    for c, ok in zip(cases, oks):
        if ok:
            out.append(c)
        else:
            ctx.tally("generator:not-WF")
    return out


def _gen_cases(ctx, rng, n_per_type, size=1.0):
    cases = []
    for ty in aoefgen.TYPES:
        for _ in range(n_per_type):
            base = rng.choice(["/data/audio", "/", None])
            cj = aoefgen.gen_collection(rng, ty, rich=rng.random() < 0.2, base=base, size=size)
            cases.append({"collection": cj, "audio_dir": base if (base and rng.random() < 0.5) else None})
            ctx.tally("type:" + ty)
    return _wf_filter(ctx, cases)


def _correspondence(ctx):
    _CTX[0] = ctx
    ctx.run_corpus(OPS)
    ot = _wf_filter(ctx, [{"collection": c, "audio_dir": None} for c in _only_through(random.Random("C02-only-through"))])
    ctx.tally("only-reachable-through-one-path", len(ot))
    ctx.run_cases(OPS["closure"], ot)
    ctx.run_cases(OPS["closure"], _gen_cases(ctx, ctx.rng, ctx.budget(120, 4000)))
    ctx.run_cases(OPS["closure"], _gen_cases(ctx, ctx.rng, ctx.budget(6, 30), size=2.5))
    # the operational model (OpSave.lean: adapters as mutable tables, conversions in the code's call order) against
    # the real document *including* the order of the lists and the tag numbering.  Informational: the property does
    # not pin the order, so a disagreement is recorded, not reported (C02_opSave_refines proves opSave = save, and
    # `save` is what the enforced, order-insensitive comparison ties to the code).
    sample = _gen_cases(ctx, ctx.rng, ctx.budget(6, 40))
    agree = 0
    outs = ctx.model_many("op_save", [{"collection": c["collection"], "audio_dir": c["audio_dir"]} for c in sample])
    for c, mo in zip(sample, outs):
        try:
            _obj, path = aoef_impl.save_real(c["collection"], c["audio_dir"])
            doc, _unk = aoef_impl.read_doc(path)
            aoef_impl.cleanup(path)
            real = aoef._strip_empty(doc)
            agree += int("val" in mo and aoef._strip_empty(mo["val"]) == real)
        except Exception:  # noqa: BLE001
            agree += int("raise" in mo)
    ctx.note(f"operational save model agrees with the real documents including list order and tag ids on {agree}/{len(sample)} collections")
    ctx.tally("op_save exact-order agreement", agree)
    ctx.tally("op_save exact-order cases", len(sample))
    # histories: collections of several types over the same pools of objects, saved in one process
    hc = _history_cases(ctx.rng, ctx.budget(40, 300))
    oks = ctx.driver.call_many("C01", "wf", [{"collection": s["collection"]} for h in hc for s in h["steps"]])
    it = iter(oks)
    hc = [h for h in hc if all([next(it) for _ in h["steps"]])]
    ctx.run_cases(OPS["closure_history"], hc)
    ctx.tally("closure-history cases (5 saves each)", len(hc))
    # adapters.py as a state machine: random operation sequences on the real UserAdapter / TagAdapter
    ctx.run_cases(OPS["adapter_ops"], _gen_adapter_ops(ctx.rng, ctx.budget(600, 20000)))


def run(ctx):
    ctx.stage("correspondence", _correspondence, ctx)


def search(ctx, failures):
    _CTX[0] = ctx
    rng = random.Random("C02-search")
    ctx.run_cases(OPS["closure"], _gen_cases(ctx, rng, 40))
