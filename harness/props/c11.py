"""C11 — Buffering grows a geometry and never leaves the valid domain."""
import itertools
import math
import re
import zlib
from fractions import Fraction

from ..core import Op, jkey
from ..leanio import InfraError
from ..rat import rat, frac, round_once_eq, tol_eq
from .. import symx
from ..symtrace import Sym
from .. import gen_geom

PROPERTY = "C11"
LEAN_MODULE = "Proofs.C11"
_T = "SE.Proofs.C11."
THEOREMS = [_T + n for n in [
    "C11_negative_rejected", "C11_dispatch", "C11_exact", "C11_valid", "C11_contains",
    "C11_result_is_widened_extent", "C11_bounds_extend", "C11_monotone", "C11_zero_buffer",
    "C11_shapely_partial",
    "C11_pipeline_contracts_ideal", "C11_pipeline_scaling", "C11_pipeline_in_domain", "C11_pipeline_clip_is_domain",
    "C11_pipeline_contains", "C11_pipeline_covers_buffers", "C11_pipeline_exact_ideal", "C11_pipeline_monotone_ideal",
    "C11_pipeline_zero_vs_tiny_buffer", "C11_pipeline_bounds_extend"]]
LEVEL_TEXT = ("Lean theorems over the model of buffer_geometry: for time stamps, intervals and boxes the result is exactly the "
              "interval / box widened by the buffers with the clamps at time 0, frequency 0 and MAX_FREQUENCY; it is valid, "
              "contains the original as a point set, is exactly the widened extent inside the domain, its bounds extend by the "
              "buffers or reach the domain edge, larger buffers give supersets, a zero buffer changes nothing, a negative buffer "
              "is rejected for every type.  The three closed-form functions (with the real validators of the constructors they "
              "call) and the guard + dispatch of buffer_geometry for all nine type tags are re-derived from the source on each "
              "run by path-exhaustive symbolic tracing and proved equal to the model for every valid geometry and all buffers.  "
              "For the six types buffered through shapely the pipeline of buffer_shapely_geometry is modelled on point sets "
              "with GEOS's buffer as a parameter: its straight-line skeleton (the two scale factors incl. the 1e9 of a zero "
              "buffer, the coordinate maps, the buffer distance, the clip rectangle) is re-derived from the source by symbolic "
              "tracing with shapely stubbed and proved equal to the model for all inputs; the C11_pipeline_* theorems prove that "
              "the result stays in the domain (unconditionally), that the clip only removes what is outside the domain, that "
              "it contains the original (if GEOS's buffer contains its input), that it contains everything within rho buffer "
              "widths of the original and its bounds extend by rho buffers or reach the domain edge (if GEOS's buffer contains "
              "the rho-disc around every input point), and - for the exact unit buffer - that the result is exactly the "
              "elliptical neighbourhood inside the domain and that larger buffers give supersets except a zero buffer against "
              "a positive one below 1e-9 (proved to fail; a known finding).  The property stays PARTIAL for these six types: "
              "GEOS's buffer itself is not modelled; its contracts are evaluated on GEOS's actual output in every run, and "
              "validator, bounds post-condition (C11_shapely_partial), containment and superset are monitored on the result.")
LEVEL_NOTE = ("Trusted: Lean kernel, symbolic tracer (ordered-field semantics; the nine geometry classes replaced by stubs that "
              "run TimeInterval's / BoundingBox's own field validators on symbolic coordinates; in the pipeline trace shapely, "
              "json and the coordinate arrays are replaced by symbolic stand-ins that see a shape through a generic point and "
              "its bounding box).  Unmodelled: GEOS's buffer (offset curves, round caps as 32-gons, mitre joins, input "
              "simplification) and clip_by_rect as polygon algorithms, binary64 rounding inside the pipeline: the theorems "
              "assume `Extensive`, `CoversDisc rho`, `IsMaxTime`, evaluated per call on what GEOS returned (rho = 0.98 at probe "
              "points around the vertices) for inputs outside the known-finding classes; containment / superset by shapely "
              "`covers` (an oracle outside Lean); six classes of failures of the pipeline are recorded as known findings.  "
              "Binary64 rounding of `t - tb`, `h + fb` off the dyadic grid (round-once comparison there).  Model tied to the "
              "code by regenerated obligations, observed calls into shapely and generator-bounded correspondence.")
TECHNIQUE = ("Lean 4 proof over model; symbolic-trace equality obligations regenerated from source (closed forms, dispatch, "
             "pipeline skeleton); exhaustive-grid correspondence at the domain edges; observed shapely calls compared with the "
             "model; Lean-evaluated post-conditions and run-time GEOS contracts on real results")
RULE = ("time stamps / intervals / boxes on exhaustive small grids touching time 0, frequency 0 and MAX_FREQUENCY x buffers "
        "{negative, 0, small, clamping, larger than the domain}, random dyadic and arbitrary-float cases; the six shapely-"
        "buffered types (random, special, domain-edge) x buffer pairs over six decades of buffer/extent, zero buffers, buffers "
        "down to 1e-7; buffers passed as float, int or numpy scalar; every call preceded by a call on the same object with "
        "other buffers and followed by a repeat (purity); non-trivial = buffer_geometry returned a geometry; distinct = "
        "distinct (operation, input)")
TRUSTED = ["pydantic's coercion of the coordinate list before the field validators run (the validators themselves are traced)",
           "shapely `covers` / `difference` / `distance` / `contains_xy` as the containment, superset and disc-contract oracle",
           "symbolic tracer stubs: data.<Geometry> -> record of the (validated) symbolic coordinates; geometry_to_shapely + "
           "buffer_shapely_geometry -> marker carrying the two buffers (dispatch trace); shapely.transform / buffer / "
           "clip_by_rect / to_geojson, json.loads -> stand-ins acting on a generic point and a bounding box (pipeline trace; "
           "a coordinate map is applied to the box corners, right for the increasing maps C11_pipeline_scaling proves them to be)",
           "the spy around the `shapely` module seen by soundevent.geometry.operations (forwards every call unchanged)"]
ASSUMPTIONS = ["binary64 arithmetic is exact on the dyadic grids used",
               "ordered-field semantics for the symbolic ties (no rounding)",
               "hypotheses of C11_shapely_partial (result is a Polygon / MultiPolygon, passes the validator, its bounds satisfy "
               "bufferPost) are evaluated in Lean on every observed result of the pipeline",
               "hypotheses of the C11_pipeline_* theorems about GEOS's buffer (Extensive, CoversDisc 49/50 at 32 probe "
               "directions around up to 8 vertices, IsMaxTime) are evaluated on GEOS's output in every observed call with "
               "positive buffers, no exact line reversal, buffer/extent < 1e4"]
NOT_COMPARED = ["error messages (only the error class)",
                "the vertices of the polygon the shapely pipeline returns (only validator, bounds, containment, superset)",
                "OGC validity of the returned polygon",
                "cap / join style and the margin added to max_time in the clip rectangle (only that it is >= 0)",
                "line strings / polygons with a buffer more than 10^4 times their extent (GEOS simplifies the input by 1 % of "
                "the buffer distance; one such case is in the corpus as a known finding)"]

M = gen_geom.MAXF
TOL = "1/1099511627776"   # 2^-40, relative to the coordinate magnitude
COVER_TOL = 1e-9            # in widths of the buffers
ZERO_AS = Fraction(1, 10 ** 9)   # a zero buffer is the factor 1e9, i.e. acts as the buffer 1e-9
CLOSED = ("TimeStamp", "TimeInterval", "BoundingBox")
SHAPELY = ("Point", "LineString", "Polygon", "MultiPoint", "MultiLineString", "MultiPolygon")


def _f(s):
    return float(frac(s))


# ---------------------------------------------------------------- implementation adapters
def _arg(inp, key, salt):
    """the buffer as the caller may pass it: float, int (when integral) or numpy scalar -- chosen from the whole
    input, so a replay passes the same representation and the same value is seen in all of them over a run"""
    q = frac(inp[key])
    h = zlib.crc32((jkey(inp) + salt).encode())
    if q.denominator == 1 and h % 3 == 0:
        return int(q)
    if h % 3 == 1:
        import numpy as np
        return np.float64(float(q))
    return float(q)


def _call(d, inp, k1="tb", k2="fb"):
    from soundevent.geometry import buffer_geometry
    return buffer_geometry(d, time_buffer=_arg(inp, k1, "t"), freq_buffer=_arg(inp, k2, "f"))


def _buffer(inp):
    return _call(gen_geom.to_data(inp["g"]), inp)


def _pure_call(inp, spy=False):
    """buffer the same object with other buffers first, then the call that is judged (optionally observing the
    calls into shapely), then look at the argument again and buffer it once more: the function must not modify
    its argument nor remember anything"""
    d = gen_geom.to_data(inp["g"])
    before = gen_geom.from_data(d)
    try:        # a first call on the same object with other buffers: nothing of it may show in the call that is judged
        _call(d, {"tb": rat(frac(inp["tb"]) + 1), "fb": rat(frac(inp["fb"]) + 2)})
    except Exception:  # noqa: BLE001
        pass
    if spy:
        with _spying() as sp:
            r = _call(d, inp)
    else:
        sp, r = None, _call(d, inp)
    out = {"val": gen_geom.from_data(r)}
    if gen_geom.from_data(d) != before:
        out["impure"] = "the geometry passed as argument was modified"
    else:
        try:
            again = gen_geom.from_data(_call(d, inp))
        except Exception as e:  # noqa: BLE001
            again = repr(e)[:80]
        if again != out["val"]:
            out["impure"] = "a second call with the same arguments gave a different result"
    return d, r, out, sp


def _impl_closed(inp):
    return _pure_call(inp)[2]


_LIB_CACHE = {}
_PIPE_CACHE = {}


def _uncovered(outer, inner, sx, sy):
    """largest distance, in widths of the buffers (sx, sy), of a vertex of inner \\ outer from outer"""
    import numpy as np
    import shapely
    if outer.covers(inner):
        return 0.0
    d = inner.difference(outer)
    if d.is_empty:
        return 0.0
    f = np.array([1.0 / sx if sx > 0 else 1e9, 1.0 / sy if sy > 0 else 1e9])
    o = shapely.transform(outer, lambda x: x * f)
    dd = shapely.transform(d, lambda x: x * f)
    dist = float(max(o.distance(shapely.Point(c)) for c in shapely.get_coordinates(dd)))
    # binary64 resolution of the coordinates, expressed in buffer widths (2^-46 relative per axis)
    mx = np.abs(shapely.get_coordinates(outer)).max(axis=0) * f
    return max(0.0, dist - float(mx.max()) * 2.0 ** -46)


class _Spy:
    """wraps the `shapely` module seen by soundevent.geometry.operations: the real functions run, their
    arguments and results are kept"""

    def __init__(self, real):
        self._real = real
        self.transforms, self.buffers, self.clips = [], [], []

    def __getattr__(self, name):
        return getattr(self._real, name)

    def transform(self, geometry, transformation, *a, **kw):
        out = self._real.transform(geometry, transformation, *a, **kw)
        self.transforms.append((geometry, transformation, out))
        return out

    def buffer(self, geometry, distance, *a, **kw):
        out = self._real.buffer(geometry, distance, *a, **kw)
        self.buffers.append((geometry, distance, out))
        return out

    def clip_by_rect(self, geometry, xmin, ymin, xmax, ymax, *a, **kw):
        out = self._real.clip_by_rect(geometry, xmin, ymin, xmax, ymax, *a, **kw)
        self.clips.append((geometry, (xmin, ymin, xmax, ymax), out))
        return out


class _spying:
    def __enter__(self):
        import shapely
        import soundevent.geometry.operations as ops
        self.ops, self.saved = ops, getattr(ops, "shapely", None)
        self.spy = _Spy(shapely)
        if self.saved is shapely:
            ops.shapely = self.spy
        return self.spy

    def __exit__(self, *exc):
        if self.saved is not None:
            self.ops.shapely = self.saved
        return False


RHO = Fraction(49, 50)        # < cos(pi/32) - 1/100: GEOS round caps are 32-gons inscribed in the unit circle (apothem 0.99518) and it
                              # simplifies the input line by up to 1 % of the distance before offsetting
_DIRS = [((k + 0.5) * math.pi / 16) for k in range(32)]    # mid-edge directions of the caps: the worst ones


def _observe(sp, r):
    """what `buffer_shapely_geometry` asked of shapely in this call, and the contracts of the pipeline theorems
    evaluated on what GEOS returned; None if the calls were not of the expected shape (nothing is concluded)"""
    import numpy as np
    import shapely
    from soundevent.geometry import geometry_to_shapely
    if sp is None or len(sp.buffers) != 1 or len(sp.clips) != 1 or len(sp.transforms) != 2:
        return None
    (T0, f1, T), (Tb, dist, B), (B0, f2, U), (Uc, rect, C) = sp.transforms[0], sp.buffers[0], sp.transforms[1], sp.clips[0]
    if Tb is not T or B0 is not B or Uc is not U:
        return None
    one = np.array([[1.0, 1.0]])
    sc, un = np.asarray(f1(one.copy()), dtype=float)[0], np.asarray(f2(one.copy()), dtype=float)[0]
    obs = {"scaled": [rat(sc[0]), rat(sc[1])], "dist": rat(dist), "unscaled": [rat(un[0]), rat(un[1])],
           "rect": [rat(x) for x in rect], "qm": rat(B.bounds[2]) if not B.is_empty else None,
           "max_time": rat(U.bounds[2]) if not U.is_empty else None,
           "returned_clipped": bool(geometry_to_shapely(r).equals(C))}
    con = {}
    if not B.is_empty:
        con["extensive"] = bool(B.covers(T))
        ux = shapely.get_coordinates(U)[:, 0]
        con["is_max_time"] = bool(ux.max() <= U.bounds[2])
        v = shapely.get_coordinates(T)
        v = v[np.linspace(0, len(v) - 1, min(len(v), 8)).astype(int)]
        rho = float(RHO)
        px = (v[:, None, 0] + rho * np.cos(_DIRS)[None, :]).ravel()
        py = (v[:, None, 1] + rho * np.sin(_DIRS)[None, :]).ravel()
        con["covers_disc"] = bool(shapely.contains_xy(B, px, py).all())
        con["scaled_magnitude"] = float(np.abs(v).max())
    obs["contracts"] = con
    return obs


def _impl_shapely(inp):
    from soundevent.geometry import geometry_to_shapely
    d, r, out, sp = _pure_call(inp, spy=True)
    _LIB_CACHE[jkey(inp)] = out["val"]
    try:
        _PIPE_CACHE[jkey(inp)] = _observe(sp, r)
    except Exception:  # noqa: BLE001 - an observation that cannot be made concludes nothing
        _PIPE_CACHE[jkey(inp)] = None
    out["uncovered"] = repr(_uncovered(geometry_to_shapely(r), geometry_to_shapely(d), _f(inp["tb"]), _f(inp["fb"])))
    return out


def _impl_pipeline(inp):
    k = jkey(inp)
    if k not in _PIPE_CACHE:
        _impl_shapely(inp)
    obs = _PIPE_CACHE.get(k)
    return {"val": obs} if obs is not None else {"val": None}


def _impl_monotone(inp):
    from soundevent.geometry import geometry_to_shapely
    d = gen_geom.to_data(inp["g"])
    r1 = _call(d, inp)
    r2 = _call(d, inp, "tb2", "fb2")
    ex = _uncovered(geometry_to_shapely(r2), geometry_to_shapely(r1), _f(inp["tb2"]), _f(inp["fb2"]))
    return {"val": {"excess": repr(ex)}}


def _impl_valid(inp):
    """is the raw geometry a value the data model accepts unchanged"""
    from soundevent import data
    g = inp["g"]
    raw = {"type": g["type"], "coordinates": gen_geom.coords_float(g)}
    try:
        v = data.geometry_validate(raw, mode="dict")
    except ValueError:
        return {"val": False}
    return {"val": gen_geom.from_data(v) == g}


# ---------------------------------------------------------------- comparisons and monitors
def _flat(c):
    if isinstance(c, list):
        for x in c:
            yield from _flat(x)
    else:
        yield c


def _cmp_closed_free(inp, io, mo):
    if io.get("impure"):
        return io["impure"]
    if "val" not in io or "val" not in mo:
        a = {k: v for k, v in io.items() if k != "trace"}
        return None if a == mo else "implementation and model disagree"
    if io["val"]["type"] != mo["val"]["type"]:
        return "result type differs"
    xs, ys = list(_flat(io["val"]["coordinates"])), list(_flat(mo["val"]["coordinates"]))
    if len(xs) != len(ys):
        return "result arity differs"
    for x, y in zip(xs, ys):
        if x != y and not round_once_eq(frac(y), _f(x)):
            return f"coordinate {x} is not the correctly rounded model value {y}"
    return None


def _cmp_shapely(inp, io, mo):
    a = {k: v for k, v in io.items() if k not in ("trace", "uncovered", "impure")}
    return None if a == mo else "guard / dispatch of buffer_geometry disagrees with the model"


def _post(ctx, inp, r):
    return ctx.model("shapely_post", {"g": inp["g"], "tb": inp["tb"], "fb": inp["fb"], "r": r, "tol": TOL})["val"]


def _holds_closed(ctx, inp, io):
    neg = frac(inp["tb"]) < 0 or frac(inp["fb"]) < 0
    if neg:
        return None if io.get("raise") == "invalid" else "a negative buffer was not rejected with ValueError"
    if "val" not in io:
        return f"buffer_geometry raised {io.get('raise')} on a valid geometry with non-negative buffers"
    if io.get("impure"):
        return io["impure"]
    p = _post(ctx, inp, io["val"])
    if not p["valid"]:
        return "result is not a valid geometry (leaves the domain or is mis-ordered)"
    if not p.get("post_strict"):
        return f"bounds of the result do not extend the original's by the buffers: shortfall={p.get('shortfall')}"
    return None


def _ratio(inp):
    """largest buffer / extent over the axes on which the geometry has an extent"""
    from soundevent.geometry import compute_bounds
    b = compute_bounds(gen_geom.to_data(inp["g"]))
    out = 0.0
    for ext, buf in ((b[2] - b[0], _f(inp["tb"])), (b[3] - b[1], _f(inp["fb"]))):
        if ext > 0 and buf > 0:
            out = max(out, buf / ext)
    return out


def _zero_axis_max(inp):
    """largest coordinate along the axes whose buffer is exactly zero (these are multiplied by 1e9)"""
    from soundevent.geometry import compute_bounds
    b = compute_bounds(gen_geom.to_data(inp["g"]))
    return max([b[2]] * (frac(inp["tb"]) == 0) + [b[3]] * (frac(inp["fb"]) == 0) + [0.0])


def _has_reversal(gj):
    """a vertex at which a line string turns back on itself exactly (collinear, opposite direction)"""
    lines = [gj["coordinates"]] if gj["type"] == "LineString" else gj["coordinates"] if gj["type"] == "MultiLineString" else []
    for ln in lines:
        pts = [(frac(p[0]), frac(p[1])) for p in ln]
        pts = [p for i, p in enumerate(pts) if i == 0 or p != pts[i - 1]]
        for a, b, c in zip(pts, pts[1:], pts[2:]):
            u, v = (b[0] - a[0], b[1] - a[1]), (c[0] - b[0], c[1] - b[1])
            if u[0] * v[1] - u[1] * v[0] == 0 and u[0] * v[0] + u[1] * v[1] < 0:
                return True
    return False


def _holds_shapely(ctx, inp, io):
    tb, fb = frac(inp["tb"]), frac(inp["fb"])
    if tb < 0 or fb < 0:
        return None if io.get("raise") == "invalid" else "a negative buffer was not rejected with ValueError"
    facts = (f"type={inp['g']['type']} zero_buffer={tb == 0 or fb == 0} reversal={_has_reversal(inp['g'])} "
             f"ratio={_ratio(inp):.3e} zero_axis_max={_zero_axis_max(inp):.3e}")
    if "val" not in io:
        return f"buffer_geometry raised {io.get('raise')} on a valid geometry with non-negative buffers; {facts}"
    if io.get("impure"):
        return io["impure"]
    p = _post(ctx, inp, io["val"])
    if not p["poly"]:
        ctx.tally("shapely:result-not-polygonal")     # not required by the property; the checks below still apply
    if not p["valid"]:
        return "result is not a valid geometry (leaves the domain)"
    unc = float(io.get("uncovered", "inf"))
    if not unc <= COVER_TOL:
        return f"result does not contain the original; uncovered={unc:.3e} buffer widths; {facts}"
    if not p.get("post"):
        sf = max(float(frac(x)) for x in p["shortfall"])
        return f"bounds of the result do not extend the original's by the buffers; max_shortfall={sf:.6e}; {facts}"
    return None


def _holds_monotone(ctx, inp, io):
    if "val" not in io:
        return f"buffer_geometry raised {io.get('raise')}; type={inp['g']['type']}"
    ex = float(io["val"]["excess"])
    if not ex <= COVER_TOL:
        tiny = any(frac(inp[a]) == 0 and 0 < frac(inp[b]) < ZERO_AS for a, b in (("tb", "tb2"), ("fb", "fb2")))
        return (f"larger buffers do not give a superset; excess={ex:.6e} widths of the larger buffers; "
                f"type={inp['g']['type']} zero_vs_tiny={tiny}")
    return None


def _safe(fn):
    def wrapped(ctx, inp, io):
        try:
            return fn(ctx, inp, io)
        except InfraError:
            raise
        except Exception as e:  # noqa: BLE001
            return f"property monitor could not be evaluated on the implementation's output: {e!r}"
    return wrapped


def _cmp_pipeline(inp, io, mo):
    """the calls into shapely against `pipelineSkeleton` (probe points (1, 1)): the factors are one correctly
    rounded division, the inverse map and the clip rectangle go through a second rounding (tolerance)"""
    obs = io.get("val") if isinstance(io, dict) else None
    if not obs or "val" not in mo:
        return None            # rejected before the pipeline, or the calls were not observed: nothing to compare
    m = mo["val"]
    for a, b in zip(obs["scaled"], m["scaled"]):
        if not round_once_eq(frac(b), _f(a)):
            return f"scale factor {_f(a)!r} is not the correctly rounded model value {b}"
    if frac(obs["dist"]) != frac(m["dist"]):
        return f"buffer distance {obs['dist']} in the scaled space, model {m['dist']}"
    for a, b in zip(obs["unscaled"], m["unscaled"]):
        if not tol_eq(frac(b), _f(a)):
            return f"inverse scale factor {_f(a)!r}, model {b}"
    r = obs["rect"]
    if [frac(r[0]), frac(r[1]), frac(r[3])] != [frac(x) for x in m["rect"]]:
        return f"clip rectangle {r}, model {m['rect']}"
    if obs["qm"] is not None and not (m["clip_keeps_max_time"] or tol_eq(frac(obs["max_time"]), _f(r[2]))):
        return f"clip rectangle ends at {_f(r[2])!r}, before the largest time of the buffer {_f(obs['max_time'])!r}"
    if not obs["returned_clipped"]:
        return "the returned geometry is not the clipped shape"
    return None


def _holds_pipeline(ctx, inp, io):
    """hypotheses of the pipeline theorems about GEOS, evaluated on what GEOS returned in this call"""
    if not isinstance(io, dict) or "val" not in io:
        return None            # rejected before the pipeline was reached
    obs = io["val"]
    if not obs:
        ctx.tally("pipeline:not-observed")
        return None
    con = obs.get("contracts") or {}
    if not con:
        return None
    tb, fb = frac(inp["tb"]), frac(inp["fb"])
    ctx.contract("geos_bounds_is_max_time", con["is_max_time"], inp, con)
    # GEOS's buffer in its regular regime (the known findings describe what happens outside of it)
    regular = (tb > 0 and fb > 0 and not _has_reversal(inp["g"]) and _ratio(inp) < 1e4
               and con["scaled_magnitude"] < 1e9)
    if regular:
        ctx.contract("geos_buffer_extensive", con["extensive"], inp, con,
                     "GEOS's buffer of the scaled geometry does not contain it (hypothesis `Extensive`)")
        ctx.contract("geos_buffer_covers_disc", con["covers_disc"], inp, con,
                     f"GEOS's buffer misses a point within {RHO} of a vertex (hypothesis `CoversDisc {RHO}`)")
    return None


def _to_model_pipeline(inp):
    obs = _PIPE_CACHE.get(jkey(inp)) or {}
    return {"px": "1", "py": "1", "qx": "1", "qy": "1", "qm": obs.get("qm") or "0",
            "xmax": (obs.get("rect") or ["0"] * 4)[2], "tb": inp["tb"], "fb": inp["fb"]}


def _to_model_shapely(inp):
    return {"g": inp["g"], "tb": inp["tb"], "fb": inp["fb"], "lib": _LIB_CACHE.get(jkey(inp))}


def _valid_input(inp):
    try:
        return _impl_valid({"g": inp["g"]})["val"] is True
    except Exception:  # noqa: BLE001
        return False


OPS = {
    "buffer_closed": Op("buffer_closed", _impl_closed, holds=_safe(_holds_closed), model_op="buffer",
                        shrink=True, valid=_valid_input),
    "buffer_closed_free": Op("buffer_closed_free", _impl_closed, compare=_cmp_closed_free, mode="round-once",
                             model_op="buffer"),
    "buffer_shapely": Op("buffer_shapely", _impl_shapely, to_model=_to_model_shapely, compare=_cmp_shapely,
                         holds=_safe(_holds_shapely), mode="tolerance", model_op="buffer"),
    "monotone_shapely": Op("monotone_shapely", _impl_monotone, to_model=lambda i: {"g": i["g"]},
                           compare=lambda i, a, b: None, holds=_safe(_holds_monotone), determined=False,
                           mode="tolerance", model_op="valid"),
    "pipeline_args": Op("pipeline_args", _impl_pipeline, to_model=_to_model_pipeline, compare=_cmp_pipeline,
                        holds=_safe(_holds_pipeline), determined=False, mode="tolerance",
                        nontrivial=lambda i, o: bool(isinstance(o, dict) and o.get("val"))),
    "valid": Op("valid", _impl_valid),
}


# ---------------------------------------------------------------- known-finding matchers
def _num(detail, key):
    m = re.search(re.escape(key) + r"=([0-9.eE+\-]+|inf|nan)", detail)
    return float(m.group(1)) if m else None


def _fact(detail, key):
    m = re.search(re.escape(key) + r"=(\w+)", detail)
    return m.group(1) if m else None


def _m_approx_shortfall(f, m):
    """round caps are polygons and GEOS offsets carry noise: a side extends by a little less than the buffer"""
    d = f.detail
    sf = _num(d, "max_shortfall")
    return (f.kind == "property" and sf is not None and _fact(d, "zero_buffer") == "False"
            and 0 < sf <= float(Fraction(m["max_shortfall"])))


def _m_zero_buffer(f, m):
    """a zero buffer becomes the factor 1e9: extreme vertices are lost or GEOS returns an empty buffer (KeyError)"""
    d = f.detail
    if f.kind != "property" or _fact(d, "zero_buffer") != "True":
        return False
    if "raised key on" in d:      # GEOS returned an empty buffer: only where the scaled coordinates are huge
        z = _num(d, "zero_axis_max")
        return z is not None and z >= float(Fraction(m.get("min_key_coordinate", "0")))
    sf = _num(d, "max_shortfall")
    return sf is not None and 0 < sf <= float(Fraction(m["max_shortfall"]))


def _m_line_reversal(f, m):
    """a line string that turns back on itself: the mitre join degenerates to a flat end at that vertex"""
    d = f.detail
    if f.kind != "property" or _fact(d, "reversal") != "True" or _fact(d, "type") not in ("LineString", "MultiLineString"):
        return False
    sf, unc = _num(d, "max_shortfall"), _num(d, "uncovered")
    if sf is not None:
        return 0 < sf <= float(Fraction(m["max_shortfall"]))
    return unc is not None and 0 < unc <= float(Fraction(m["max_uncovered"]))


def _m_huge_ratio(f, m):
    """buffer >= 10^5 x extent: GEOS simplifies the (scaled, tiny) input by 1 % of the buffer distance"""
    d = f.detail
    r = _num(d, "ratio")
    return (f.kind == "property" and r is not None and r >= float(Fraction(m["min_ratio"]))
            and ("does not contain" in d or "max_shortfall" in d))


def _m_monotone_mitre(f, m):
    """mitre joins / polygonal caps under different anisotropic scalings: the smaller result sticks out"""
    d = f.detail
    ex = _num(d, "excess")
    return (f.kind in ("property", "correspondence") and ex is not None and _fact(d, "type") in m["types"]
            and 0 < ex <= float(Fraction(m["max_excess"])))


def _m_zero_vs_tiny(f, m):
    """a zero buffer acts as the buffer 1e-9 (factor 1e9): the result for a positive buffer below 1e-9 is smaller"""
    d = f.detail
    ex = _num(d, "excess")
    if f.kind not in ("property", "correspondence") or ex is None or _fact(d, "zero_vs_tiny") != "True" or not f.inp:
        return False
    tiny = [frac(f.inp[b]) for a, b in (("tb", "tb2"), ("fb", "fb2")) if frac(f.inp[a]) == 0 and 0 < frac(f.inp[b]) < ZERO_AS]
    return 0 < ex <= 1.001 * sum(float(ZERO_AS / t) for t in tiny)


FINDING_MATCHERS = {"zero_vs_tiny": _m_zero_vs_tiny, "approx_shortfall": _m_approx_shortfall, "zero_buffer": _m_zero_buffer,
                    "line_reversal": _m_line_reversal, "huge_ratio": _m_huge_ratio, "monotone_mitre": _m_monotone_mitre}


# ---------------------------------------------------------------- tie 1: tables
def _table_obligations(ctx):
    from soundevent import data
    from .. import symtrace as st
    mf = getattr(data, "MAX_FREQUENCY", None)
    if not isinstance(mf, (int, float)) or isinstance(mf, bool):
        ctx.fail("obligation", "max_frequency", detail="`MAX_FREQUENCY` not found", extra={"op": "buffer_closed"})
    else:
        ctx.obligation("max_frequency", f"example : SE.MAXF = {st.lit(Fraction(mf))} := by decide +kernel\n",
                       {"op": "buffer_closed"})


# ---------------------------------------------------------------- tie 1b: symbolic traces
class _Built:
    """what a stubbed constructor returns: the class tag and the validated symbolic coordinates"""

    def __init__(self, tag, coords):
        self.type = tag
        self.coordinates = coords


class _CtorMeta(type):
    """the nine geometry classes as the traced code sees them: `data.X(coordinates=...)` runs the class's own
    field validators (the real code, in pydantic's order) on the symbolic coordinates and records the result;
    `isinstance(g, data.X)` looks at the stub's type tag"""

    def __instancecheck__(cls, obj):
        return getattr(obj, "type", None) == cls.tag

    def __call__(cls, coordinates=None, **kw):
        v = coordinates
        if cls.validate:
            v = list(v)
            decs = cls.real.__pydantic_decorators__.field_validators
            for dec in decs.values():
                if "coordinates" in dec.info.fields:
                    v = dec.func(v)
            v = list(v)
        return _Built(cls.tag, v)


def _Ctor(real_cls, tag, validate=True):
    return _CtorMeta("Stub" + tag, (), {"real": real_cls, "tag": tag, "validate": validate})


class _DataProxy:
    def __init__(self, real):
        self._real = real
        for tag in gen_geom.TYPES:
            cls = getattr(real, tag, None)
            if cls is not None:
                setattr(self, tag, _Ctor(cls, tag, validate=tag in ("TimeInterval", "BoundingBox")))

    def __getattr__(self, name):
        return getattr(self._real, name)


class _StubGeometry:
    def __init__(self, type, coordinates):
        self.type = type
        self.coordinates = coordinates


class _Marker:
    def __init__(self, g):
        self.g = g


def _geom_leaf(v):
    if not isinstance(v, (_Built, _StubGeometry)):
        raise TypeError(f"traced function returned {type(v).__name__}")
    cs = v.coordinates if isinstance(v.coordinates, (list, tuple)) else [v.coordinates]
    c = [symx.num(x) for x in cs]
    if v.type == "TimeInterval" and len(c) == 2:
        return f"some (SE.Geom.timeInterval {c[0]} {c[1]})"
    if v.type == "BoundingBox" and len(c) == 4:
        return f"some (SE.Geom.boundingBox {c[0]} {c[1]} {c[2]} {c[3]})"
    if v.type == "shapely" and len(c) == 2:
        return f"some (SE.Geom.point {c[0]} {c[1]})"
    raise TypeError(f"unexpected result {v.type}/{len(c)}")


_DEFS = ["SE.Buf.bufferGeometry", "SE.Buf.bufferTS", "SE.Buf.bufferTI", "SE.Buf.bufferBB", "SE.Buf.mkInterval",
         "SE.Buf.mkBox", "SE.MAXF"]


def _tactic(name):
    return (f"unfold {name}\n  try simp only [SE.Buf.valid, SE.Buf.okTime, SE.Buf.okPt, Bool.and_eq_true, decide_eq_true_eq] at hv\n  "
            + "\n  ".join(f"try unfold {d}" for d in _DEFS) + "\n  try unfold SE.MAXF at hv\n  first | rfl | grind (splits := 60) | se_close")


def _tie_valid(ctx, name, fn, variables, model_term, witness, meta):
    """symx.sym_tie, with the property's quantifier as a hypothesis: the traced function equals the model on
    every *valid* geometry (and every pair of buffers, negative ones included)"""
    try:
        src, tree, n = symx.extract(name, fn, variables, "Option SE.Geom", _geom_leaf)
    except InfraError:
        raise
    except Exception as e:  # noqa: BLE001 - the stub no longer fits the code: a broken obligation, never a crash
        ctx.symbolic_ties[name] = {"error": repr(e)[:300]}
        ctx.pre_failed.append(name)
        ctx.fail("obligation", name, detail=f"symbolic trace of the current source failed: {e!r}", extra=dict(meta))
        return
    ctx.symbolic_ties[name] = {"paths": n}
    args = " ".join(variables)
    ctx.obligation(name, f"{src}\ntheorem {name}_tie ({args} : Rat) (hv : SE.Buf.valid {witness} = true) : "
                         f"{name} {args} = {model_term} := by\n  {_tactic(name)}\n", meta)


_LIB = "(fun _ tb fb => some (SE.Geom.point tb fb))"
_WITNESS = {"TimeStamp": (["t"], "(.timeStamp t)"), "TimeInterval": (["s", "e"], "(.timeInterval s e)"),
            "BoundingBox": (["s", "l", "e", "h"], "(.boundingBox s l e h)"),
            "Point": (["t", "f"], "(.point t f)"), "LineString": ([], "(.lineString [])"),
            "Polygon": ([], "(.polygon [])"), "MultiPoint": ([], "(.multiPoint [])"),
            "MultiLineString": ([], "(.multiLineString [])"), "MultiPolygon": ([], "(.multiPolygon [])")}


def _symbolic_ties(ctx):
    import soundevent.geometry.operations as ops
    from soundevent import data as real_data
    tb, fb = Sym.var("tb"), Sym.var("fb")
    sy = {n: Sym.var(n) for n in ["t", "s", "l", "e", "h", "f"]}
    orig = {n: getattr(ops, n, None) for n in ("data", "geometry_to_shapely", "buffer_shapely_geometry")}
    ops.data = _DataProxy(real_data)
    ops.geometry_to_shapely = lambda g: _Marker(g)
    ops.buffer_shapely_geometry = (lambda shp, time_buffer=0, freq_buffer=0, **kw:
                                   _Built("shapely", [time_buffer, freq_buffer]))
    try:
        closed = [
            ("buffer_timestamp", ["t", "tb"], lambda: ops.buffer_timestamp(_StubGeometry("TimeStamp", sy["t"]), time_buffer=tb),
             "SE.Buf.bufferTS t tb"),
            ("buffer_interval", ["s", "e", "tb"],
             lambda: ops.buffer_interval(_StubGeometry("TimeInterval", [sy["s"], sy["e"]]), time_buffer=tb),
             "SE.Buf.bufferTI s e tb"),
            ("buffer_bounding_box_geometry", ["s", "l", "e", "h", "tb", "fb"],
             lambda: ops.buffer_bounding_box_geometry(
                 _StubGeometry("BoundingBox", [sy["s"], sy["l"], sy["e"], sy["h"]]), time_buffer=tb, freq_buffer=fb),
             "SE.Buf.bufferBB s l e h tb fb"),
        ]
        for (fname, V, thunk, mterm), ty in zip(closed, CLOSED):
            name = "ext_" + fname
            _tie_valid(ctx, name, thunk, V, mterm, _WITNESS[ty][1], {"op": "buffer_closed"})
        # guard + dispatch of buffer_geometry, for every type tag
        for ty in gen_geom.TYPES:
            cv, witness = _WITNESS[ty]
            coords = [sy[n] for n in cv]
            coords = coords[0] if ty == "TimeStamp" else coords
            name = "ext_buffer_geometry_" + ty
            if ty in CLOSED:
                _tie_valid(ctx, name,
                           lambda ty=ty, coords=coords: ops.buffer_geometry(_StubGeometry(ty, coords), time_buffer=tb, freq_buffer=fb),
                           cv + ["tb", "fb"], f"SE.Buf.bufferGeometry {_LIB} {witness} tb fb", witness, {"op": "buffer_closed"})
                continue
            symx.sym_tie(ctx, name,
                         lambda ty=ty, coords=coords: ops.buffer_geometry(_StubGeometry(ty, coords), time_buffer=tb, freq_buffer=fb),
                         cv + ["tb", "fb"], "Option SE.Geom",
                         f"SE.Buf.bufferGeometry {_LIB} {witness} tb fb", _geom_leaf,
                         tactic=_tactic(name),
                         meta={"op": "buffer_shapely"})
    finally:
        for n, v in orig.items():
            if v is not None:
                setattr(ops, n, v)


# ---- the shapely pipeline: symbolic stand-ins for numpy coordinate arrays, shapely and json
class _SymArr:
    """an (n, 2) coordinate array of symbolic numbers: what the callbacks of `shapely.transform` receive"""

    def __init__(self, rows):
        self.rows = [list(r) for r in rows]

    def _zip(self, o, fn):
        if isinstance(o, _SymArr):
            cols = None
            other = o.rows
        else:
            other = None
            try:
                cols = list(o)
            except TypeError:
                cols = [o, o]
            if len(cols) != 2:
                raise TypeError("cannot broadcast against an (n, 2) array")
        out = []
        for i, r in enumerate(self.rows):
            c = other[i] if other is not None else cols
            out.append([fn(Sym.lift(r[0]), c[0]), fn(Sym.lift(r[1]), c[1])])
        return _SymArr(out)

    __array_ufunc__ = None     # numpy operands defer to the reflected methods below

    def __mul__(self, o): return self._zip(o, lambda a, b: a * b)
    def __rmul__(self, o): return self._zip(o, lambda a, b: b * a)
    def __truediv__(self, o): return self._zip(o, lambda a, b: a / b)
    def __add__(self, o): return self._zip(o, lambda a, b: a + b)
    def __radd__(self, o): return self._zip(o, lambda a, b: b + a)
    def __sub__(self, o): return self._zip(o, lambda a, b: a - b)
    def __len__(self): return len(self.rows)
    def __iter__(self): return iter(self.rows)

    def __getitem__(self, k):
        if isinstance(k, tuple) and len(k) == 2 and isinstance(k[0], slice) and isinstance(k[1], int):
            return [r[k[1]] for r in self.rows[k[0]]]
        return self.rows[k]

    @property
    def shape(self): return (len(self.rows), 2)

    @property
    def T(self): return [[r[0] for r in self.rows], [r[1] for r in self.rows]]


class _SymShape:
    """a shapely geometry seen through one generic point and its bounding box (symbolic).  A coordinate map
    is applied to the point and to the two corners of the box (right for maps that increase along each axis,
    which is what `C11_pipeline_scaling` proves of both transforms)."""

    def __init__(self, log, pt, bounds):
        self._log, self.pt, self._bounds = log, pt, bounds

    @property
    def bounds(self):
        return tuple(self._bounds)

    def buffer(self, distance, **kw):
        return _ShapelyStub.buffer_(self._log, self, distance)

    @property
    def __geo_interface__(self):
        return {"type": self._log["kind"], "coordinates": self}


class _GeoJson:
    def __init__(self, kind, shape):
        self.kind, self.shape = kind, shape


class _ShapelyStub:
    """stands in for the `shapely` module inside `buffer_shapely_geometry`: records what the function asks of it"""

    def __init__(self, real, log, kind):
        self._real, self._log, self._kind = real, log, kind
        log["kind"] = kind

    def __getattr__(self, name):
        return getattr(self._real, name)

    def transform(self, geometry, transformation, include_z=False, **kw):
        out = transformation(_SymArr([geometry.pt, geometry.bounds[:2], geometry.bounds[2:]]))
        rows = [list(r) for r in out]
        self._log.setdefault("transforms", []).append(rows[0])
        return _SymShape(self._log, rows[0], rows[1] + rows[2])

    @staticmethod
    def buffer_(log, geometry, distance):
        if "buffer" in log:
            raise TypeError("shapely.buffer called more than once")
        log["buffer"] = (geometry.pt, distance)
        q = [Sym.var("qx"), Sym.var("qy")]
        return _SymShape(log, q, [Sym.var("q0"), Sym.var("q1"), Sym.var("qm"), Sym.var("q3")])

    def buffer(self, geometry, distance, *a, **kw):
        return _ShapelyStub.buffer_(self._log, geometry, distance)

    def clip_by_rect(self, geometry, xmin, ymin, xmax, ymax, **kw):
        if "clip" in self._log:
            raise TypeError("shapely.clip_by_rect called more than once")
        self._log["clip"] = (geometry.pt, [xmin, ymin, xmax, ymax], geometry.bounds[2])
        return _SymShape(self._log, geometry.pt, geometry.bounds)

    def to_geojson(self, geometry, *a, **kw):
        return _GeoJson(self._kind, geometry)


class _JsonStub:
    def __init__(self, real):
        self._real = real

    def __getattr__(self, name):
        return getattr(self._real, name)

    def loads(self, s, *a, **kw):
        if isinstance(s, _GeoJson):
            return {"type": s.kind, "coordinates": s.shape}
        return self._real.loads(s, *a, **kw)


def _pipeline_thunk(ops, kind, tb, fb):
    """run the real `buffer_shapely_geometry` on a symbolic shape; the value is everything it asked of shapely"""
    import json as real_json
    import shapely as real_shapely
    from soundevent import data as real_data

    def thunk():
        log = {}
        proxy = _DataProxy(real_data)
        saved = {n: getattr(ops, n, None) for n in ("shapely", "json", "data")}
        ops.shapely, ops.json, ops.data = _ShapelyStub(real_shapely, log, kind), _JsonStub(real_json), proxy
        try:
            g = _SymShape(log, [Sym.var("px"), Sym.var("py")],
                          [Sym.var("p0"), Sym.var("p1"), Sym.var("p2"), Sym.var("p3")])
            out = ops.buffer_shapely_geometry(g, time_buffer=tb, freq_buffer=fb)
        finally:
            for n, v in saved.items():
                if v is not None:
                    setattr(ops, n, v)
                elif hasattr(ops, n):
                    delattr(ops, n)
        if not isinstance(out, _Built) or out.type != kind or not isinstance(out.coordinates, _SymShape):
            raise TypeError(f"a clipped {kind} was not returned as data.{kind}")
        if "buffer" not in log or "clip" not in log:
            raise TypeError("the function did not buffer and clip through shapely")
        if out.coordinates.pt is not log["clip"][0]:
            raise TypeError("the returned geometry is not the clipped one")
        return log
    return thunk


def _pipeline_leaf(log):
    n = symx.num
    sc, dist = log["buffer"]
    un, rect, max_time = log["clip"]
    return (f"some (({n(sc[0])}, {n(sc[1])}), {n(dist)}, ({n(un[0])}, {n(un[1])}), "
            f"{n(rect[0])}, {n(rect[1])}, decide ({n(max_time)} ≤ {n(rect[2])}), {n(rect[3])})")


_PIPE_DEFS = ["SE.Buf.pipelineSkeletonSpec", "SE.Buf.scalePt", "SE.Buf.unscalePt", "SE.Buf.clipRect", "SE.Buf.factor", "SE.MAXF"]


def _pipeline_ties(ctx):
    import soundevent.geometry.operations as ops
    tb, fb = Sym.var("tb"), Sym.var("fb")
    for kind in ("Polygon", "MultiPolygon"):
        name = "ext_buffer_shapely_geometry_" + kind
        tac = (f"unfold {name}\n  " + "\n  ".join(f"try unfold {d}" for d in _PIPE_DEFS)
               + "\n  first\n  | rfl\n  | ((repeat' split) <;> (try simp only [Option.some.injEq, Prod.mk.injEq, decide_eq_true_eq]) <;> grind)"
               + "\n  | grind (splits := 20)\n  | se_close")
        symx.sym_tie(ctx, name, _pipeline_thunk(ops, kind, tb, fb), ["px", "py", "qx", "qy", "qm", "tb", "fb"],
                     "Option (SE.Pt × Rat × SE.Pt × Rat × Rat × Bool × Rat)",
                     "some (SE.Buf.pipelineSkeletonSpec px py qx qy tb fb)", _pipeline_leaf,
                     tactic=tac, meta={"op": "buffer_shapely"})


# ---------------------------------------------------------------- tie 2 generators
def _g(ty, c):
    def enc(x):
        if isinstance(x, (list, tuple)):
            return [enc(y) for y in x]
        return rat(x)
    return {"type": ty, "coordinates": enc(c)}


def _case(g, tb, fb):
    return {"g": g, "tb": rat(tb), "fb": rat(fb)}


H = Fraction(1, 2)
T_BUFS = [Fraction(-1, 2), 0, H, 1, 4, 10 ** 7]
F_BUFS = [-1, 0, H, 1, 2, M, 2 * M]


def closed_grid_cases():
    """every time stamp / interval / box on a small grid touching time 0, frequency 0 and MAX x every buffer pair"""
    ts = [0, H, 1, 2]
    fs = [0, 1, M - 1, M]
    for t in ts:
        for tb, fb in itertools.product(T_BUFS, [-1, 0, 1]):
            yield _case(_g("TimeStamp", t), tb, fb)
    for s, e in itertools.combinations_with_replacement(ts, 2):
        for tb, fb in itertools.product(T_BUFS, [-1, 0, 1]):
            yield _case(_g("TimeInterval", [s, e]), tb, fb)
    for s, e in itertools.combinations_with_replacement([0, 1, 2], 2):
        for l, h in itertools.combinations_with_replacement(fs, 2):
            for tb, fb in itertools.product(T_BUFS, F_BUFS):
                yield _case(_g("BoundingBox", [s, l, e, h]), tb, fb)


def closed_random_cases(rng, n):
    for i in range(n):
        ty = CLOSED[i % 3]
        k = rng.choice([1, 3, 6])
        scale = rng.choice([(8.0, 8.0), (100.0, 24000.0), (3600.0, float(M))])
        g = gen_geom.gen_geometry(rng, ty, tmax=scale[0], fmax=scale[1], k=k)
        if rng.random() < 0.2 and ty == "BoundingBox":
            c = g["coordinates"]
            c[rng.choice([1, 3])] = rng.choice(["0", str(M)])
            c[1], c[3] = sorted([c[1], c[3]], key=frac)
            g = {"type": ty, "coordinates": [rat(frac(x)) for x in c]}
        q = 1 << k
        tb = Fraction(rng.randint(-2, 40 * q), q) if rng.random() < 0.9 else Fraction(rng.choice([0, 10 ** 7]))
        fb = Fraction(rng.randint(-2, 40 * q), q) * rng.choice([1, 1, 1000, 10 ** 5]) if rng.random() < 0.9 else Fraction(rng.choice([0, 2 * M]))
        yield _case(g, tb, fb)


def closed_free_cases(rng, n):
    def t():
        return rng.choice([rng.uniform(0, 10), round(rng.uniform(0, 100), 2), rng.uniform(0, 3600)])

    def f():
        return rng.choice([rng.uniform(0, M), round(rng.uniform(0, 24000), 1), float(M), 0.0])
    for i in range(n):
        ty = CLOSED[i % 3]
        if ty == "TimeStamp":
            c = t()
        elif ty == "TimeInterval":
            c = sorted([t(), t()])
        else:
            a, b = sorted([t(), t()])
            l, h = sorted([f(), f()])
            c = [a, l, b, h]
        tb = rng.choice([0.0, rng.uniform(0, 5), round(rng.uniform(0, 1), 3), rng.uniform(0, 200)])
        fb = rng.choice([0.0, rng.uniform(0, 500), round(rng.uniform(0, 100), 1), rng.uniform(0, 2 * M)])
        yield {"g": {"type": ty, "coordinates": gen_geom._enc_f(c)}, "tb": rat(tb), "fb": rat(fb)}


def _norm(gj):
    return gen_geom.from_data(gen_geom.to_data(gj))


def shapely_special_geometries():
    """the six shapely-buffered types at the edges of the domain and in degenerate shapes"""
    out = [
        _g("Point", [0, 0]), _g("Point", [3, M]), _g("Point", [0, M]), _g("Point", [H, 1000]),
        _g("MultiPoint", [[0, 0], [5, M]]), _g("MultiPoint", [[1, 2]]), _g("MultiPoint", [[4, 1], [1, 7], [3, 3]]),
        _g("LineString", [[0, 0], [4, M]]), _g("LineString", [[1, 3], [2, 3], [7, 3]]), _g("LineString", [[1, 2], [1, 5]]),
        _g("LineString", [[0, 5], [2, 0], [4, 5]]), _g("LineString", [[1, 5], [3, 1], [2, 7], [4, 2]]),
        _g("MultiLineString", [[[1, 3], [2, 3]], [[4, 3], [5, 3]]]), _g("MultiLineString", [[[0, M], [3, M - 8]], [[1, 0], [2, 4]]]),
        _g("Polygon", [[[0, 0], [8, 0], [8, 8], [0, 8], [0, 0]]]),
        _g("Polygon", [[[0, 0], [8, 0], [8, 8], [0, 8], [0, 0]], [[2, 2], [4, 2], [4, 4], [2, 4], [2, 2]]]),
        _g("Polygon", [[[0, M - 16], [8, M - 16], [4, M], [0, M - 16]]]), _g("Polygon", [[[1, 2], [5, 2], [3, 7], [1, 2]]]),
        _g("Polygon", [[[0, 5], [1, 100], [2, 5], [0, 5]]]),
        _g("MultiPolygon", [[[[0, 0], [2, 0], [1, 3], [0, 0]]], [[[4, 1], [6, 1], [5, 3], [4, 1]]]]),
        _g("MultiPolygon", [[[[0, 0], [8, 0], [8, 8], [0, 8], [0, 0]], [[2, 2], [4, 2], [4, 4], [2, 4], [2, 2]]],
                            [[[9, 1], [12, 1], [12, 9], [9, 1]]]]),
    ]
    return [_norm(g) for g in out]


def _extent(gj):
    from soundevent.geometry import compute_bounds
    b = compute_bounds(gen_geom.to_data(gj))
    return b[2] - b[0], b[3] - b[1]


def _buffers_for(rng, gj, decades=(-2, 2)):
    """a pair of positive dyadic buffers between 10^a and 10^b times the extent (or of unit size on a flat axis)"""
    et, ef = _extent(gj)
    out = []
    for ext in (et, ef):
        base = ext if ext > 0 else rng.choice([0.125, 1.0, 8.0])
        v = base * 10 ** rng.uniform(*decades)
        e = math.floor(math.log2(v)) - 6
        out.append(Fraction(max(1, round(v / 2.0 ** e))) * Fraction(2) ** e)
    return out


def shapely_cases(rng, n):
    geoms = shapely_special_geometries()
    scales = [(8.0, 8.0, 3), (64.0, 20000.0, 1), (1000.0, float(M), 0), (4.0, 4.0, 2)]
    i = 0
    while len(geoms) < n:
        ty = SHAPELY[i % 6]
        tmax, fmax, k = scales[(i // 6) % len(scales)]
        g = _norm(gen_geom.gen_valid(rng, ty, tmax=tmax, fmax=fmax, k=k))
        i += 1
        if ty in ("Polygon", "MultiPolygon") and not gen_geom.is_simple(g):
            continue
        geoms.append(g)
    for g in geoms:
        tb, fb = _buffers_for(rng, g)
        r = rng.random()
        if r < 0.08:
            tb = -tb if rng.random() < 0.5 else tb
            fb = -fb if tb > 0 else fb
        elif r < 0.25 and g["type"] in ("Point", "MultiPoint"):
            # points take buffers larger than the domain
            tb, fb = rng.choice([(tb, Fraction(2 * M)), (Fraction(10 ** 7), fb), (Fraction(10 ** 7), Fraction(2 * M))])
        elif r < 0.32:
            fb = Fraction(2 * M) if _extent(g)[1] * 10 ** 4 >= 2 * M else fb
        yield _case(g, tb, fb)


def tiny_buffer_cases(rng, n):
    """buffers far below the geometry's extent (1e-7 .. 1e-3 of a unit), on small coordinates where binary64
    still resolves them"""
    for i in range(n):
        g = _norm(gen_geom.gen_valid(rng, SHAPELY[i % 6], tmax=8.0, fmax=8.0, k=3))
        if g["type"] in ("Polygon", "MultiPolygon") and not gen_geom.is_simple(g):
            continue
        tb = Fraction(rng.randint(1, 1 << 10), 1 << rng.choice([20, 24, 28, 33]))
        fb = Fraction(rng.randint(1, 1 << 10), 1 << rng.choice([20, 24, 28, 33]))
        if i % 4 == 0:
            fb = _buffers_for(rng, g)[1]
        elif i % 4 == 1:
            tb = _buffers_for(rng, g)[0]
        yield _case(g, tb, fb)


def zero_buffer_cases(rng, n):
    """one buffer (or both) exactly zero: the factor-1e9 branch of the pipeline"""
    geoms = shapely_special_geometries()
    for i in range(n):
        g = geoms[i % len(geoms)] if i < len(geoms) else _norm(gen_geom.gen_valid(rng, SHAPELY[i % 6], tmax=8.0, fmax=8.0, k=3))
        if g["type"] in ("Polygon", "MultiPolygon") and not gen_geom.is_simple(g):
            continue
        tb, fb = _buffers_for(rng, g, decades=(-1, 1))
        which = i % 3
        yield _case(g, 0 if which != 1 else tb, 0 if which != 0 else fb)


def monotone_cases(rng, n):
    for c in shapely_cases(rng, n):
        tb, fb = frac(c["tb"]), frac(c["fb"])
        if tb <= 0 or fb <= 0 or tb > 10 ** 6 or fb > M:
            continue
        k1, k2 = rng.choice([(1, 1), (1, Fraction(3, 2)), (Fraction(3, 2), 1), (4, 4), (Fraction(1025, 1024), 1), (2, 1), (1, 8)])
        yield {"g": c["g"], "tb": c["tb"], "fb": c["fb"], "tb2": rat(tb * k1), "fb2": rat(fb * k2)}


def monotone_zero_cases(rng, n):
    """the smaller pair has a zero buffer (the factor 1e9, which acts as the buffer 1e-9): against the same pair,
    and against a positive buffer of at least 1e-9 on that axis (hypotheses `hzt`, `hzf` of
    C11_pipeline_monotone_ideal); small coordinates, where 1e-9 is still resolved"""
    for i in range(n):
        g = _norm(gen_geom.gen_valid(rng, SHAPELY[i % 6], tmax=8.0, fmax=8.0, k=3))
        if g["type"] in ("Polygon", "MultiPolygon") and not gen_geom.is_simple(g):
            continue
        tb, fb = _buffers_for(rng, g, decades=(-1, 1))
        up = rng.choice([Fraction(0), Fraction(1, 10 ** 9), Fraction(1, 1 << 20), Fraction(1, 8), Fraction(2)])
        k = rng.choice([1, Fraction(3, 2), 4])
        if i % 2:
            yield {"g": g, "tb": "0", "fb": rat(fb), "tb2": rat(up), "fb2": rat(fb * k)}
        else:
            yield {"g": g, "tb": rat(tb), "fb": "0", "tb2": rat(tb * k), "fb2": rat(up)}


def valid_cases(rng, results, n):
    """the Lean validator against the data model: real results of the pipeline, generated geometries, malformed variants"""
    pool = list(results)
    for i in range(n):
        pool.append(_norm(gen_geom.gen_valid(rng, gen_geom.TYPES[i % 9], tmax=8.0, fmax=8.0, k=2)))
    out = []
    for g in pool:
        out.append({"g": g})
        m = _malform(rng, g)
        if m is not None:
            out.append({"g": m})
    return out


def _malform(rng, g):
    import copy
    g = copy.deepcopy(g)
    c, ty = g["coordinates"], g["type"]

    def leaf_lists(x):
        if isinstance(x, list) and x and isinstance(x[0], str):
            yield x
        elif isinstance(x, list):
            for y in x:
                yield from leaf_lists(y)
    kind = rng.choice(["neg_time", "neg_freq", "over_max", "short", "order"])
    if ty == "TimeStamp":
        g["coordinates"] = "-1/4"
        return g
    if ty == "TimeInterval":
        g["coordinates"] = rng.choice([["2", "1"], ["-1", "1"], [c[0], c[0]]])
        return g
    pts = list(leaf_lists(c))
    if not pts:
        return None
    p = rng.choice(pts)
    if ty == "BoundingBox":
        if kind == "order":
            p[0], p[2] = "3", "1"
        else:
            p[rng.choice([1, 3])] = rng.choice(["-1", str(M + 1)])
        return g
    if kind == "neg_time":
        p[0] = "-1/8"
    elif kind == "neg_freq":
        p[1] = "-1/8"
    elif kind == "over_max":
        p[1] = rat(Fraction(M) + Fraction(1, 8))
    elif kind == "short":
        if ty in ("Polygon", "MultiLineString"):
            c[0] = c[0][:2] if ty == "Polygon" else c[0][:1]
        elif ty == "MultiPolygon":
            c[0][0] = c[0][0][:2]
        elif ty in ("LineString", "MultiPoint"):
            g["coordinates"] = c[:1] if ty == "LineString" else []
        else:
            p[1] = "-1"
    else:
        if ty in ("LineString",):
            g["coordinates"] = list(reversed(c))
        elif ty == "MultiLineString":
            c[0] = list(reversed(c[0]))
        elif ty == "Polygon":
            g["coordinates"] = []
        elif ty == "MultiPolygon":
            c[0] = []
        else:
            p[1] = str(M + 2)
    return g


# ---------------------------------------------------------------- stages
def _closed_stage(ctx):
    grid = list(closed_grid_cases())
    ctx.run_cases(OPS["buffer_closed"], grid)
    ctx.exhaustive["closed forms grid"] = (f"{len(grid)} cases: time stamps / intervals on {{0,1/2,1,2}}, boxes on times {{0,1,2}} x "
                                           f"frequencies {{0,1,MAX-1,MAX}}, x time buffers {[str(x) for x in T_BUFS]} x frequency "
                                           f"buffers {[str(x) for x in F_BUFS]}")
    rnd = list(closed_random_cases(ctx.rng, ctx.budget(6000, 60000)))
    for c in rnd:
        ctx.tally("closed:" + c["g"]["type"])
    ctx.run_cases(OPS["buffer_closed"], rnd)
    ctx.run_cases(OPS["buffer_closed_free"], closed_free_cases(ctx.rng, ctx.budget(3000, 30000)))


def _shapely_stage(ctx):
    cases = list(shapely_cases(ctx.rng, ctx.budget(2400, 24000)))
    for c in cases:
        ctx.tally("shapely:" + c["g"]["type"])
    ctx.run_cases(OPS["buffer_shapely"], cases)
    zc = list(zero_buffer_cases(ctx.rng, ctx.budget(360, 3600)))
    ctx.tally("shapely:zero-buffer", len(zc))
    ctx.run_cases(OPS["buffer_shapely"], zc)
    tc = list(tiny_buffer_cases(ctx.rng, ctx.budget(240, 2400)))
    ctx.tally("shapely:tiny-buffer", len(tc))
    ctx.run_cases(OPS["buffer_shapely"], tc)
    ctx.run_cases(OPS["pipeline_args"], cases + zc + tc)
    results = [v for v in list(_LIB_CACHE.values())[:ctx.budget(150, 1500)] if v]
    ctx.run_cases(OPS["valid"], valid_cases(ctx.rng, results, ctx.budget(180, 2700)))


def _monotone_stage(ctx):
    ctx.run_cases(OPS["monotone_shapely"], monotone_cases(ctx.rng, ctx.budget(1200, 12000)))
    zc = list(monotone_zero_cases(ctx.rng, ctx.budget(180, 1800)))
    ctx.tally("monotone:zero-buffer", len(zc))
    ctx.run_cases(OPS["monotone_shapely"], zc)


def run(ctx):
    ctx.stage("tables", _table_obligations, ctx)
    ctx.stage("symbolic-ties", _symbolic_ties, ctx)
    ctx.stage("symbolic-pipeline", _pipeline_ties, ctx)
    ctx.stage("discharge", ctx.discharge, ["SoundeventModel.Buffer", "SoundeventModel.Tactics"])
    ctx.stage("corpus", ctx.run_corpus, OPS)
    ctx.stage("closed-forms", _closed_stage, ctx)
    ctx.stage("shapely-pipeline", _shapely_stage, ctx)
    ctx.stage("shapely-monotone", _monotone_stage, ctx)


def search(ctx, failures):
    """a tie broke: the exhaustive edge grid and a wide random stream of every operation"""
    ctx.stage("search-closed", lambda: ctx.run_cases(OPS["buffer_closed"], list(closed_grid_cases())
                                                     + list(closed_random_cases(ctx.rng, 6000))))
    ctx.stage("search-shapely", lambda: ctx.run_cases(OPS["buffer_shapely"], list(shapely_cases(ctx.rng, 900))
                                                      + list(zero_buffer_cases(ctx.rng, 120)) + list(tiny_buffer_cases(ctx.rng, 120))))
